import Posmint.Lemmas.Codec
/-! Helper lemmas for the text form of a coin (`coinText`, `parseCoinText`; C20). -/
namespace Posmint.Codec

/-! ### `takeWhile` / `dropWhile` over an append -/

theorem takeWhile_append_all {p : Nat → Bool} (l1 l2 : Bytes) (h : ∀ x ∈ l1, p x = true) :
    (l1 ++ l2).takeWhile p = l1 ++ l2.takeWhile p := by
  induction l1 with
  | nil => rfl
  | cons a l ih =>
    have ha : p a = true := h a List.mem_cons_self
    have hl : ∀ x ∈ l, p x = true := fun x hx => h x (List.mem_cons_of_mem _ hx)
    simp [ha, ih hl]

theorem dropWhile_append_all {p : Nat → Bool} (l1 l2 : Bytes) (h : ∀ x ∈ l1, p x = true) :
    (l1 ++ l2).dropWhile p = l2.dropWhile p := by
  induction l1 with
  | nil => rfl
  | cons a l ih =>
    have ha : p a = true := h a List.mem_cons_self
    have hl : ∀ x ∈ l, p x = true := fun x hx => h x (List.mem_cons_of_mem _ hx)
    simp [ha, ih hl]

/-- a non-empty block none of whose bytes satisfies `p` stops `dropWhile` at once -/
theorem dropWhile_append_none {p : Nat → Bool} (l r : Bytes) (hne : l ≠ []) (h : ∀ x ∈ l, p x = false) :
    (l ++ r).dropWhile p = l ++ r := by
  cases l with
  | nil => exact absurd rfl hne
  | cons a l =>
    have ha : p a = false := h a List.mem_cons_self
    simp [ha]

theorem takeWhile_append_none {p : Nat → Bool} (l r : Bytes) (hne : l ≠ []) (h : ∀ x ∈ l, p x = false) :
    (l ++ r).takeWhile p = [] := by
  cases l with
  | nil => exact absurd rfl hne
  | cons a l =>
    have ha : p a = false := h a List.mem_cons_self
    simp [ha]

/-! ### the byte classes -/

theorem not_space_of_digit {b : Nat} (h : isDigitB b = true) : isSpaceB b = false := by
  simp [isDigitB, isSpaceB] at *; omega

theorem not_space_of_lower {b : Nat} (h : isLowerB b = true) : isSpaceB b = false := by
  simp [isLowerB, isSpaceB] at *; omega

theorem not_digit_of_lower {b : Nat} (h : isLowerB b = true) : isDigitB b = false := by
  simp [isLowerB, isDigitB] at *; omega

theorem not_digit_of_space {b : Nat} (h : isSpaceB b = true) : isDigitB b = false := by
  simp [isDigitB, isSpaceB] at *; omega

theorem natDigits_isDigit (n : Nat) : ∀ x ∈ natDigits n, isDigitB x = true := by
  intro x hx
  have := natDigits_mem n x hx
  simp [isDigitB]; omega

theorem natDigits_not_space (n : Nat) : ∀ x ∈ natDigits n, isSpaceB x = false :=
  fun x hx => not_space_of_digit (natDigits_isDigit n x hx)

/-! ### the denomination pattern -/

theorem denomOK_ne_nil {d : Bytes} (h : denomOK d = true) : d ≠ [] := by
  cases d with
  | nil => simp [denomOK] at h
  | cons c rest => simp

theorem denomOK_not_space {d : Bytes} (h : denomOK d = true) : ∀ x ∈ d, isSpaceB x = false := by
  cases d with
  | nil => simp [denomOK] at h
  | cons c rest =>
    simp only [denomOK, Bool.and_eq_true, List.all_eq_true, Bool.or_eq_true] at h
    obtain ⟨⟨⟨hc, hr⟩, _⟩, _⟩ := h
    intro x hx
    rcases List.mem_cons.mp hx with rfl | hx
    · exact not_space_of_lower hc
    · rcases hr x hx with h | h
      · exact not_space_of_lower h
      · exact not_space_of_digit h

theorem denomOK_head {d : Bytes} (h : denomOK d = true) : ∃ c rest, d = c :: rest ∧ isLowerB c = true := by
  cases d with
  | nil => simp [denomOK] at h
  | cons c rest =>
    simp only [denomOK, Bool.and_eq_true] at h
    exact ⟨c, rest, rfl, h.1.1.1⟩

/-! ### the amount -/

/-- only zero is written with a leading `0` -/
theorem natDigits_head_ne_zero : ∀ n, n ≠ 0 → ∃ c cs, natDigits n = c :: cs ∧ c ≠ 48 := by
  intro n
  induction n using Nat.strongRecOn with
  | _ n ih =>
    intro hn
    by_cases h : n < 10
    · rw [natDigits_small h]
      exact ⟨48 + n, [], rfl, by omega⟩
    · rw [natDigits_big h]
      obtain ⟨c, cs, e, hc⟩ := ih (n / 10) (by omega) (by omega)
      exact ⟨c, cs ++ [48 + n % 10], by rw [e]; rfl, hc⟩

theorem parseAmount_natDigits (n : Nat) : parseAmount (natDigits n) = some n := by
  by_cases hn : n = 0
  · subst hn
    rw [natDigits_small (by decide)]
    rfl
  · obtain ⟨c, cs, e, hc⟩ := natDigits_head_ne_zero n hn
    have hp := parseNat_natDigits n
    rw [e] at hp ⊢
    unfold parseAmount
    split
    · simp_all
    · simp_all
    · simp_all
    · exact hp

/-! ### the parser -/

/-- the white space around the coin text is trimmed away -/
theorem trim_core (pre core post : Bytes) (hpre : ∀ x ∈ pre, isSpaceB x = true) (hpost : ∀ x ∈ post, isSpaceB x = true)
    (a b z : Bytes) (hcore : core = a ++ b ++ z) (ha : a ≠ []) (has : ∀ x ∈ a, isSpaceB x = false)
    (hz : z ≠ []) (hzs : ∀ x ∈ z, isSpaceB x = false) :
    (((pre ++ core ++ post).dropWhile isSpaceB).reverse.dropWhile isSpaceB).reverse = core := by
  subst hcore
  have e1 : (pre ++ (a ++ b ++ z) ++ post).dropWhile isSpaceB = a ++ (b ++ z ++ post) := by
    rw [show pre ++ (a ++ b ++ z) ++ post = pre ++ (a ++ (b ++ z ++ post)) by simp,
      dropWhile_append_all _ _ hpre, dropWhile_append_none _ _ ha has]
  rw [e1]
  have e2 : (a ++ (b ++ z ++ post)).reverse = post.reverse ++ (z.reverse ++ (b.reverse ++ a.reverse)) := by simp
  rw [e2, dropWhile_append_all _ _ (fun x hx => hpost x (List.mem_reverse.mp hx)),
    dropWhile_append_none _ _ (by simpa using hz) (fun x hx => hzs x (List.mem_reverse.mp hx))]
  simp

theorem parseCoinText_spaced (d : Bytes) (n : Nat) (hd : denomOK d = true) (hn : n < 2 ^ 255)
    (pre mid post : Bytes) (hpre : pre.all isSpaceB = true) (hmid : mid.all isSpaceB = true)
    (hpost : post.all isSpaceB = true) :
    parseCoinText (pre ++ natDigits n ++ mid ++ d ++ post) = some (d, n) := by
  rw [List.all_eq_true] at hpre hmid hpost
  have hdne := denomOK_ne_nil hd
  have hds := denomOK_not_space hd
  have htrim := trim_core pre (natDigits n ++ mid ++ d) post hpre hpost (natDigits n) mid d rfl
    (natDigits_ne_nil n) (natDigits_not_space n) hdne hds
  have hs : pre ++ natDigits n ++ mid ++ d ++ post = pre ++ (natDigits n ++ mid ++ d) ++ post := by simp
  obtain ⟨c, rest, ed, hc⟩ := denomOK_head hd
  -- the digits
  have htake_md : (mid ++ d).takeWhile isDigitB = [] := by
    cases mid with
    | nil => rw [ed]; simp [not_digit_of_lower hc]
    | cons m ms =>
      have : isDigitB m = false := not_digit_of_space (hmid m List.mem_cons_self)
      simp [this]
  have hdrop_md : (mid ++ d).dropWhile isDigitB = mid ++ d := by
    cases mid with
    | nil => rw [ed]; simp [not_digit_of_lower hc]
    | cons m ms =>
      have : isDigitB m = false := not_digit_of_space (hmid m List.mem_cons_self)
      simp [this]
  have htake : (natDigits n ++ mid ++ d).takeWhile isDigitB = natDigits n := by
    rw [List.append_assoc, takeWhile_append_all _ _ (natDigits_isDigit n), htake_md, List.append_nil]
  have hdrop : ((natDigits n ++ mid ++ d).dropWhile isDigitB).dropWhile isSpaceB = d := by
    rw [List.append_assoc, dropWhile_append_all _ _ (natDigits_isDigit n), hdrop_md,
      dropWhile_append_all _ _ hmid]
    have := dropWhile_append_none d [] hdne hds
    simpa using this
  unfold parseCoinText
  simp only [hs, htrim, htake, hdrop, hd, parseAmount_natDigits]
  have : (natDigits n).isEmpty = false := by
    cases e : natDigits n with
    | nil => exact absurd e (natDigits_ne_nil n)
    | cons _ _ => rfl
  simp [this, hn]

theorem parseCoinText_some {s d : Bytes} {n : Nat} (h : parseCoinText s = some (d, n)) :
    denomOK d = true ∧ n < 2 ^ 255 := by
  unfold parseCoinText at h
  simp only at h
  split at h
  · exact absurd h (by simp)
  · rename_i hc
    simp only [Bool.or_eq_true, Bool.not_eq_true', not_or, Bool.not_eq_false] at hc
    cases hp : parseAmount
      (List.takeWhile isDigitB ((List.dropWhile isSpaceB s).reverse.dropWhile isSpaceB).reverse) with
    | none => rw [hp] at h; simp at h
    | some m =>
      rw [hp] at h
      simp only [Option.bind_some] at h
      split at h
      · rename_i hm
        simp only [Option.some.injEq, Prod.mk.injEq] at h
        obtain ⟨h1, h2⟩ := h
        subst h1 h2
        exact ⟨hc.2, hm⟩
      · exact absurd h (by simp)

end Posmint.Codec
