import Posmint.Lemmas.ChainTx
/-!
The state built by `genesis` satisfies the invariant `Inv`, and the first batch of validator
updates applies to Tendermint's empty set.

`genesis` is split into its phases (accounts, validators, exported signing state, DAO tokens, first
validator-set update);
the invariant `GInv` is carried through the first three, and the scan of the power index is
analysed for an empty previous set.  Everything lives in `Posmint.Chain.ChainGenesis`.
-/
namespace Posmint.Chain.ChainGenesis
open Posmint.Chain Posmint.Chain.ChainTx

/-! ### the raw key order of the power index -/

theorem idxLt_iff (a b : Int × Addr) : idxLt a b = true ↔ a.1 < b.1 ∨ (a.1 = b.1 ∧ b.2 < a.2) := by
  simp [idxLt]

theorem idxLt_trans {a b c : Int × Addr} (h1 : idxLt a b = true) (h2 : idxLt b c = true) : idxLt a c = true := by
  rw [idxLt_iff] at *
  rcases h1 with h1 | ⟨h1, h1'⟩ <;> rcases h2 with h2 | ⟨h2, h2'⟩
  · left; omega
  · left; omega
  · left; omega
  · right; exact ⟨by omega, String.lt_trans h2' h1'⟩

theorem idxLt_irrefl (a : Int × Addr) : idxLt a a = false := by
  cases h : idxLt a a with
  | false => rfl
  | true =>
    rw [idxLt_iff] at h
    rcases h with h | ⟨_, h⟩
    · omega
    · exact absurd h (String.lt_irrefl _)

theorem idxLt_total {a b : Int × Addr} (h1 : ¬ idxLt a b = true) (h2 : a ≠ b) : idxLt b a = true := by
  rw [idxLt_iff] at *
  obtain ⟨a1, a2⟩ := a
  obtain ⟨b1, b2⟩ := b
  simp only [not_or, not_and] at h1
  simp only at *
  by_cases hlt : b1 < a1
  · left; exact hlt
  · right
    have e : a1 = b1 := by omega
    refine ⟨e.symm, ?_⟩
    have hne : a2 ≠ b2 := by
      intro e2; apply h2; rw [e, e2]
    exact str_lt_of_not (h1.2 e) (Ne.symm hne)

theorem mem_idxInsert (l : List (Int × Addr)) (e x : Int × Addr) : x ∈ idxInsert l e ↔ x ∈ l ∨ x = e := by
  induction l with
  | nil => simp [idxInsert]
  | cons y rest ih =>
    simp only [idxInsert]
    split
    · simp only [List.mem_cons]; constructor
      · rintro (h | h | h) <;> simp [h]
      · rintro ((h | h) | h) <;> simp [h]
    · split
      · rename_i h1 h2
        have : e = y := by simpa using h2
        subst this
        simp only [List.mem_cons]; constructor
        · intro h; exact Or.inl h
        · rintro (h | h)
          · exact h
          · exact Or.inl h
      · simp only [List.mem_cons, ih]; constructor
        · rintro (h | h | h) <;> simp [h]
        · rintro ((h | h) | h) <;> simp [h]

theorem pairwise_idxInsert {l : List (Int × Addr)} (h : l.Pairwise (fun x y => idxLt x y = true)) (e : Int × Addr) :
    (idxInsert l e).Pairwise (fun x y => idxLt x y = true) := by
  induction l with
  | nil => simp [idxInsert]
  | cons y rest ih =>
    rw [List.pairwise_cons] at h
    simp only [idxInsert]
    split
    · rename_i hlt
      rw [List.pairwise_cons]
      refine ⟨?_, List.pairwise_cons.2 h⟩
      intro z hz
      simp only [List.mem_cons] at hz
      rcases hz with hz | hz
      · subst hz; exact hlt
      · exact idxLt_trans hlt (h.1 z hz)
    · split
      · exact List.pairwise_cons.2 h
      · rename_i h1 h2
        have hne : e ≠ y := by simpa using h2
        rw [List.pairwise_cons]
        refine ⟨?_, ih h.2⟩
        intro z hz
        rw [mem_idxInsert] at hz
        rcases hz with hz | hz
        · exact h.1 z hz
        · subst hz; exact idxLt_total h1 hne

/-! ### weighted sums, recorded stake -/

def stakeW (v : Val) : Int := if v.status != 0 then v.tokens else 0

def wsum (l : List (Addr × Val)) : Int := (l.map (fun e => stakeW e.2)).sum

theorem stakeSum_eq (s : State) : stakeSum s = wsum s.vals := by
  unfold stakeSum wsum
  induction s.vals with
  | nil => rfl
  | cons x rest ih =>
    simp only [List.filter_cons, List.map_cons, List.sum_cons]
    split
    · rename_i h; simp [stakeW, h, ih]
    · rename_i h; simp [stakeW, h, ih]

theorem wsum_aset_fresh {l : List (Addr × Val)} {k : Addr} (hf : aget l k = none) (v : Val) :
    wsum (aset l k v) = wsum l + stakeW v := by
  induction l with
  | nil => simp [aset, wsum]
  | cons x rest ih =>
    obtain ⟨k', v'⟩ := x
    rw [aget_cons] at hf
    split at hf
    · simp at hf
    · rename_i hne
      have hne' : ¬ k = k' := fun e => hne e.symm
      simp only [aset]
      split
      · simp [wsum]; omega
      · simp only [beq_iff_eq, hne', if_false]
        have := ih hf
        simp [wsum] at this ⊢; omega

theorem power_pos {t : Int} (h : powerReduction ≤ t) : 0 < power t := by
  unfold power powerReduction at *
  rw [Int.tdiv_eq_ediv_of_nonneg (by omega)]
  omega


/-! ### the three phases of `genesis` -/

def gInit (g : Genesis) : State := {
    bal := [], supply := 0, vals := [], idx := [], prev := [], prevTot := 0, queue := [], sign := [], missedBits := [],
    awards := [], burns := [], proposer := "", rel := [], p := g.p,
    acl := g.paramNames.map (fun n => (n, g.aclOwner)), daoOwner := g.daoOwner,
    pool := g.pool, feeAcc := g.feeAcc, posAcc := g.posAcc, daoAcc := g.daoAcc,
    keys := g.keys, nStored := g.nStored, height := 0, time := 0, cHeight := 0, cTime := 0, index := [], blockTxs := [],
    bal2 := g.accs2.foldl (fun m e => if e.2 == 0 then m else aset m e.1 e.2) [],
    supply2 := g.accs2.foldl (fun t e => t + e.2) 0, keyNodes := g.keyNodes,
    accts := g.accs.foldl (fun m e => aset m e.1 ()) [], keyed := g.accs.map (·.1) }

def accStep (st : State) (e : Addr × Int) : State := { setBal st e.1 e.2 with supply := st.supply + e.2 }

def valStep (st : State) (e : Addr × Int) : State :=
    let v : Val := { status := 2, jailed := false, tokens := e.2, unstake := 0 }
    let st1 := setStaked (setVal st e.1 v) e.1 v
    let st2 := { st1 with sign := aset st1.sign e.1 { start := 0, offset := 0, missed := 0, jailedUntil := 0, tomb := false },
                          rel := e.1 :: st1.rel, supply := st1.supply + e.2 }
    setBal st2 st2.pool (balOf st2 st2.pool + e.2)

/-- the exported signing state is written over the fresh one -/
def ovrStep (g : Genesis) (st : State) : State :=
  { st with sign := g.signing.foldl (fun m e => aset m e.1 e.2) st.sign,
            missedBits := g.missed.foldl (fun m e => bitSet m e.1.1 e.1.2 e.2) st.missedBits }

/-- the state before the first validator-set update -/
def gPre (g : Genesis) : State :=
  let s2 := ovrStep g (g.vals.foldl valStep (g.accs.foldl accStep (gInit g)))
  mint s2 s2.daoAcc g.daoTokens

theorem genesis_eq (g : Genesis) :
    genesis g =
      match updateValidators { gPre g with p := { (gPre g).p with maxVals := g.defaultMaxVals } } with
      | some (s4, ups) => ({ s4 with p := g.p }, ups)
      | none => (gPre g, []) := rfl


/-! ### phase 1: accounts -/

theorem accs_fold (l : List (Addr × Int)) : ∀ (st : State), KeysAsc st.bal → (∀ e ∈ st.bal, 0 < e.2) →
    (l.map (·.1)).Nodup → (∀ e ∈ l, 0 ≤ e.2) → (∀ e ∈ l, balOf st e.1 = 0) →
    KeysAsc (l.foldl accStep st).bal ∧ (∀ e ∈ (l.foldl accStep st).bal, 0 < e.2) ∧
    (l.foldl accStep st).supply - sumBal (l.foldl accStep st) = st.supply - sumBal st ∧
    l.foldl accStep st = { st with bal := (l.foldl accStep st).bal, supply := (l.foldl accStep st).supply } := by
  induction l with
  | nil => intro st h1 h2 _ _ _; exact ⟨h1, h2, rfl, rfl⟩
  | cons x rest ih =>
    intro st h1 h2 hnd hpos hfresh
    simp only [List.map_cons, List.nodup_cons] at hnd
    simp only [List.foldl_cons]
    have hx0 : balOf st x.1 = 0 := hfresh x (by simp)
    have a1 : KeysAsc (accStep st x).bal := keysAsc_setBal h1 _ _
    have a2 : ∀ e ∈ (accStep st x).bal, 0 < e.2 := balPos_setBal h2 _ (hpos x (by simp))
    have a3 : ∀ e ∈ rest, balOf (accStep st x) e.1 = 0 := by
      intro e he
      have : balOf (accStep st x) e.1 = balOf (setBal st x.1 x.2) e.1 := rfl
      rw [this, balOf_setBal h1]
      have hne : x.1 ≠ e.1 := by
        intro heq; apply hnd.1; rw [heq]; exact List.mem_map_of_mem he
      simp [hne, hfresh e (by simp [he])]
    obtain ⟨r1, r2, r3, r4⟩ := ih (accStep st x) a1 a2 hnd.2 (fun e he => hpos e (by simp [he])) a3
    refine ⟨r1, r2, ?_, ?_⟩
    · rw [r3]
      have : sumBal (accStep st x) = sumBal (setBal st x.1 x.2) := rfl
      rw [this, sumBal_setBal h1, hx0]
      simp [accStep]; omega
    · rw [r4]; simp [accStep, setBal]

/-! ### phase 2: validators -/

/-- what holds after the accounts and any number of validators have been set up -/
structure GInv (g : Genesis) (st : State) : Prop where
  prev : st.prev = []
  queue : st.queue = []
  awards : st.awards = []
  burns : st.burns = []
  p : st.p = g.p
  pool : st.pool = g.pool
  feeAcc : st.feeAcc = g.feeAcc
  posAcc : st.posAcc = g.posAcc
  daoAcc : st.daoAcc = g.daoAcc
  keys : st.keys = g.keys
  balAsc : KeysAsc st.bal
  balPos : ∀ e ∈ st.bal, 0 < e.2
  supply : st.supply = sumBal st
  valsAsc : KeysAsc st.vals
  signAsc : KeysAsc st.sign
  valsProp : ∀ e ∈ st.vals, e.2.status = 2 ∧ e.2.jailed = false ∧ powerReduction ≤ e.2.tokens ∧
    g.p.minStake ≤ e.2.tokens ∧ ∃ k ∈ g.keys, k.2 = e.1
  backs : stakeSum st ≤ balOf st st.pool
  index : IndexExact st
  valsGen : ∀ e ∈ st.vals, ∃ v ∈ g.vals, v.1 = e.1
  signTomb : ∀ e ∈ st.sign, e.2.tomb = true → e.2.jailedUntil = forever ∧ ∀ v ∈ g.vals, v.1 ≠ e.1
  signRel : ∀ e ∈ st.vals, (aget st.sign e.1).isSome = true ∧ e.1 ∈ st.rel

theorem ginv_accs (g : Genesis) (hg : GenesisOK g) : GInv g (g.accs.foldl accStep (gInit g)) := by
  obtain ⟨r1, r2, r3, r4⟩ := accs_fold g.accs (gInit g) (by simp [gInit, KeysAsc]) (by simp [gInit])
    hg.accsAsc hg.accsPos (by intro e _; rfl)
  generalize g.accs.foldl accStep (gInit g) = r at *
  have hv : r.vals = [] := by rw [r4]; rfl
  have hs : r.sign = [] := by rw [r4]; rfl
  have hi : r.idx = [] := by rw [r4]; rfl
  refine ⟨by rw [r4]; rfl, by rw [r4]; rfl, by rw [r4]; rfl, by rw [r4]; rfl, by rw [r4]; rfl, by rw [r4]; rfl,
    by rw [r4]; rfl, by rw [r4]; rfl, by rw [r4]; rfl, by rw [r4]; rfl, r1, r2, ?_, ?_, ?_, ?_, ?_, ?_, ?_, ?_, ?_⟩
  · have : (gInit g).supply - sumBal (gInit g) = 0 := rfl
    omega
  · rw [hv]; simp [KeysAsc]
  · rw [hs]; simp [KeysAsc]
  · rw [hv]; simp
  · have : stakeSum r = 0 := by simp [stakeSum, hv]
    rw [this]
    unfold balOf
    cases h : aget r.bal r.pool with
    | none => simp
    | some x => have := r2 _ (mem_of_aget h); simp at this ⊢; omega
  · unfold IndexExact
    rw [hv, hi]; simp
  · rw [hv]; simp
  · rw [hs]; simp
  · rw [hv]; simp


def gVal (x : Int) : Val := { status := 2, jailed := false, tokens := x, unstake := 0 }
def gSign : Sign := { start := 0, offset := 0, missed := 0, jailedUntil := 0, tomb := false }

/-- `valStep` before the pool is funded -/
def valStep0 (st : State) (e : Addr × Int) : State :=
  { st with vals := aset st.vals e.1 (gVal e.2), idx := idxInsert st.idx (power e.2, e.1),
            sign := aset st.sign e.1 gSign, rel := e.1 :: st.rel, supply := st.supply + e.2 }

theorem valStep_eq (st : State) (e : Addr × Int) :
    valStep st e = setBal (valStep0 st e) st.pool (balOf st st.pool + e.2) := by
  simp [valStep, valStep0, setStaked, setVal, gVal, gSign, balOf]

theorem ginv_valStep {g : Genesis} {st : State} (h : GInv g st) (e : Addr × Int)
    (hfresh : aget st.vals e.1 = none) (hkey : ∃ k ∈ g.keys, k.2 = e.1) (hgen : e ∈ g.vals)
    (hmin : g.p.minStake ≤ e.2 ∧ powerReduction ≤ e.2) : GInv g (valStep st e) := by
  have hpr : (0:Int) < powerReduction := by decide
  have hpool0 : 0 ≤ balOf st st.pool := by
    unfold balOf
    cases hh : aget st.bal st.pool with
    | none => simp
    | some x => have := h.balPos _ (mem_of_aget hh); simp at this ⊢; omega
  rw [valStep_eq]
  refine ⟨h.prev, h.queue, h.awards, h.burns, h.p, h.pool, h.feeAcc, h.posAcc, h.daoAcc, h.keys,
    ?_, ?_, ?_, ?_, ?_, ?_, ?_, ?_, ?_, ?_, ?_⟩
  · exact keysAsc_setBal (s := valStep0 st e) h.balAsc _ _
  · exact balPos_setBal (s := valStep0 st e) h.balPos _ (by omega)
  · rw [sumBal_setBal (s := valStep0 st e) h.balAsc]
    show st.supply + e.2 = sumBal st - balOf st st.pool + (balOf st st.pool + e.2)
    rw [h.supply]; omega
  · exact keysAsc_aset h.valsAsc _ _
  · exact keysAsc_aset h.signAsc _ _
  · intro x hx
    rcases mem_aset hx with hx | hx
    · subst hx; exact ⟨rfl, rfl, hmin.2, hmin.1, hkey⟩
    · exact h.valsProp x hx
  · rw [stakeSum_eq]
    show wsum (aset st.vals e.1 (gVal e.2)) ≤
      balOf (setBal (valStep0 st e) st.pool (balOf st st.pool + e.2)) st.pool
    rw [wsum_aset_fresh hfresh, ← stakeSum_eq,
      balOf_setBal (s := valStep0 st e) h.balAsc, if_pos rfl]
    have := h.backs
    simp [stakeW, gVal]
    omega
  · obtain ⟨hi1, hi2⟩ := h.index
    refine ⟨?_, pairwise_idxInsert hi2 _⟩
    intro pw a
    show (pw, a) ∈ idxInsert st.idx (power e.2, e.1) ↔ ∃ v, aget (aset st.vals e.1 (gVal e.2)) a = some v ∧ _
    rw [mem_idxInsert, aget_aset]
    by_cases ha : e.1 = a
    · subst ha
      simp only
      constructor
      · rintro (hm | hm)
        · obtain ⟨v, hv, _⟩ := (hi1 pw e.1).1 hm
          rw [hfresh] at hv; simp at hv
        · simp at hm
          exact ⟨gVal e.2, rfl, rfl, rfl, hm⟩
      · rintro ⟨v, hv, _, _, hp⟩
        simp at hv; subst hv
        right; simp [hp, gVal]
    · simp only [if_neg ha]
      rw [hi1]
      constructor
      · rintro (hm | hm)
        · exact hm
        · simp at hm; exact absurd hm.2.symm ha
      · intro hm; exact Or.inl hm
  · intro x hx
    rcases mem_aset hx with hx | hx
    · subst hx; exact ⟨e, hgen, rfl⟩
    · exact h.valsGen x hx
  · intro x hx ht
    rcases mem_aset hx with hx | hx
    · subst hx; simp [gSign] at ht
    · exact h.signTomb x hx ht
  · intro x hx
    show (aget (aset st.sign e.1 gSign) x.1).isSome = true ∧ x.1 ∈ e.1 :: st.rel
    rw [aget_aset]
    rcases mem_aset hx with hx | hx
    · subst hx; simp
    · have := h.signRel x hx
      split
      · simp [this.2]
      · simp [this.1, this.2]

theorem vals_fold {g : Genesis} (l : List (Addr × Int)) : ∀ (st : State), GInv g st →
    (l.map (·.1)).Nodup → (∀ e ∈ l, aget st.vals e.1 = none) → (∀ e ∈ l, ∃ k ∈ g.keys, k.2 = e.1) →
    (∀ e ∈ l, e ∈ g.vals) → (∀ e ∈ l, g.p.minStake ≤ e.2 ∧ powerReduction ≤ e.2) → GInv g (l.foldl valStep st) := by
  induction l with
  | nil => intro st h _ _ _ _ _; exact h
  | cons x rest ih =>
    intro st h hnd hfresh hkeys hgen hmin
    simp only [List.map_cons, List.nodup_cons] at hnd
    simp only [List.foldl_cons]
    apply ih _ (ginv_valStep h x (hfresh x (by simp)) (hkeys x (by simp)) (hgen x (by simp)) (hmin x (by simp))) hnd.2
    · intro e he
      rw [valStep_eq]
      show aget (aset st.vals x.1 (gVal x.2)) e.1 = none
      have hne : x.1 ≠ e.1 := by
        intro heq; apply hnd.1; rw [heq]; exact List.mem_map_of_mem he
      rw [aget_aset_ne _ _ hne]
      exact hfresh e (by simp [he])
    · intro e he; exact hkeys e (by simp [he])
    · intro e he; exact hgen e (by simp [he])
    · intro e he; exact hmin e (by simp [he])


/-! ### phase 2b: the exported signing state -/

theorem foldl_aset_props {α : Type} (P : Addr × α → Prop) (l : List (Addr × α)) :
    ∀ (m : List (Addr × α)), KeysAsc m → (∀ e ∈ m, P e) → (∀ e ∈ l, P e) →
      KeysAsc (l.foldl (fun m e => aset m e.1 e.2) m) ∧ ∀ e ∈ l.foldl (fun m e => aset m e.1 e.2) m, P e := by
  induction l with
  | nil => intro m h1 h2 _; exact ⟨h1, h2⟩
  | cons x rest ih =>
    intro m h1 h2 h3
    simp only [List.foldl_cons]
    apply ih _ (keysAsc_aset h1 _ _)
    · intro e he
      rcases mem_aset he with he | he
      · subst he; exact h3 x (by simp)
      · exact h2 e he
    · intro e he; exact h3 e (by simp [he])

theorem foldl_aset_isSome {α : Type} (l : List (Addr × α)) : ∀ (m : List (Addr × α)) (k : Addr),
    (aget m k).isSome = true → (aget (l.foldl (fun m e => aset m e.1 e.2) m) k).isSome = true := by
  induction l with
  | nil => intro m k h; exact h
  | cons x rest ih =>
    intro m k h
    simp only [List.foldl_cons]
    apply ih
    rw [aget_aset]
    split
    · rfl
    · exact h

theorem ginv_ovr {g : Genesis} (hg : GenesisOK g) {st : State} (h : GInv g st) : GInv g (ovrStep g st) := by
  obtain ⟨a1, a2⟩ := foldl_aset_props
    (fun e => e.2.tomb = true → e.2.jailedUntil = forever ∧ ∀ v ∈ g.vals, v.1 ≠ e.1) g.signing st.sign
    h.signAsc h.signTomb hg.signingOK
  exact ⟨h.prev, h.queue, h.awards, h.burns, h.p, h.pool, h.feeAcc, h.posAcc, h.daoAcc, h.keys,
    h.balAsc, h.balPos, h.supply, h.valsAsc, a1, h.valsProp, h.backs, h.index, h.valsGen, a2,
    fun e he => ⟨foldl_aset_isSome _ _ _ (h.signRel e he).1, (h.signRel e he).2⟩⟩

/-! ### phase 3: the DAO tokens -/

theorem ginv_mint {g : Genesis} {st : State} (h : GInv g st) {x : Int} (hx : 0 ≤ x)
    (hne : st.daoAcc ≠ st.pool) : GInv g (mint st st.daoAcc x) := by
  have hdao0 : 0 ≤ balOf st st.daoAcc := by
    unfold balOf
    cases hh : aget st.bal st.daoAcc with
    | none => simp
    | some y => have := h.balPos _ (mem_of_aget hh); simp at this ⊢; omega
  refine ⟨h.prev, h.queue, h.awards, h.burns, h.p, h.pool, h.feeAcc, h.posAcc, h.daoAcc, h.keys,
    ?_, ?_, ?_, h.valsAsc, h.signAsc, h.valsProp, ?_, h.index, h.valsGen, h.signTomb, h.signRel⟩
  · exact keysAsc_setBal h.balAsc _ _
  · exact balPos_setBal h.balPos _ (by omega)
  · show st.supply + x = sumBal (setBal st st.daoAcc (balOf st st.daoAcc + x))
    rw [sumBal_setBal h.balAsc, h.supply]; omega
  · show stakeSum st ≤ balOf (setBal st st.daoAcc (balOf st st.daoAcc + x)) st.pool
    rw [balOf_setBal h.balAsc, if_neg hne]
    exact h.backs

theorem ginv_pre (g : Genesis) (hg : GenesisOK g) : GInv g (gPre g) := by
  have h1 := ginv_accs g hg
  have h2 : GInv g (g.vals.foldl valStep (g.accs.foldl accStep (gInit g))) := by
    apply vals_fold g.vals _ h1 hg.valsNodup
    · intro e _
      have : (g.accs.foldl accStep (gInit g)).vals = [] := by
        obtain ⟨_, _, _, r4⟩ := accs_fold g.accs (gInit g) (by simp [gInit, KeysAsc]) (by simp [gInit])
          hg.accsAsc hg.accsPos (by intro e _; rfl)
        rw [r4]; rfl
      rw [this]; rfl
    · exact hg.valsAreKeys
    · exact fun e he => he
    · exact hg.valsMin
  have h2 := ginv_ovr hg h2
  unfold gPre
  apply ginv_mint h2 hg.daoNonneg
  rw [h2.daoAcc, h2.pool]
  exact Ne.symm hg.modsDistinct.2.2.1

/-! ### from the genesis invariant to `Inv` -/

theorem ginv_inv {g : Genesis} (hg : GenesisOK g) {st : State} (h : GInv g st) : Inv st := by
  have hpr : (0:Int) < powerReduction := by decide
  refine ⟨⟨h.balAsc, h.balPos, h.valsAsc, ?_, ?_, h.signAsc, ?_, ?_, ?_, ?_, ?_, ?_, ?_⟩, h.supply, h.backs, h.index,
    ?_, ?_, ?_, ?_⟩
  · intro e he; have := (h.valsProp e he).2.2.1; omega
  · intro e he; rw [(h.valsProp e he).1]; exact Nat.le_refl _
  · rw [h.prev]; simp [KeysAsc]
  · rw [h.awards]; simp [KeysAsc]
  · rw [h.burns]; simp [KeysAsc]
  · rw [h.pool, h.feeAcc, h.posAcc, h.daoAcc]; exact hg.modsDistinct
  · intro k hk
    rw [h.keys] at hk
    have := hg.keysNotMods k hk
    simp [isMod, h.pool, h.feeAcc, h.posAcc, h.daoAcc, this]
  · intro e he; rw [h.keys]; exact (h.valsProp e he).2.2.2.2
  · rw [h.p]; have := hg.minStakePos; omega
  · refine ⟨?_, by rw [h.queue]; simp, by rw [h.queue]; simp⟩
    intro t a
    rw [h.queue]
    simp only [qGet, List.find?_nil, List.not_mem_nil, false_iff, not_exists, not_and]
    intro v hv hs
    have := (h.valsProp _ (mem_of_aget hv)).1
    simp at this; omega
  · intro a v hv hs
    have := (h.valsProp _ (mem_of_aget hv)).1
    simp at this; omega
  · constructor
    · intro a v hv
      exact h.signRel _ (mem_of_aget hv)
    · intro a si hsi ht
      obtain ⟨hf, hn⟩ := h.signTomb _ (mem_of_aget hsi) ht
      refine ⟨hf, ?_⟩
      intro v hv
      obtain ⟨w, hw, hwa⟩ := h.valsGen _ (mem_of_aget hv)
      exact absurd hwa (hn w hw)
  · rw [PrevOK, h.prev]; simp [KeysAsc]


/-! ### phase 4: the first validator-set update -/

/-- the index scan when Tendermint's set is still empty: every scanned validator is an update -/
theorem scan_nil {s : State} (hp : s.prev = []) (l : List (Int × Addr)) :
    ∀ (c : Nat) (ups prev : List (Addr × Int)) (tot : Int)
      (r : List (Addr × Int) × List (Addr × Int) × List (Addr × Int) × Int),
    scanIndex s l c ups prev [] tot = some r →
    r.2.2.1 = [] ∧ ∃ taken : List (Addr × Int),
      r.1 = taken.reverse ++ ups ∧ r.2.1 = taken.foldl (fun m e => aset m e.1 e.2) prev ∧
      (taken.map (·.1)).Sublist (l.map (·.2)) ∧
      ∀ e ∈ taken, ∃ v, aget s.vals e.1 = some v ∧ e.2 = if v.status == 2 then power v.tokens else 0 := by
  induction l with
  | nil =>
    intro c ups prev tot r h
    simp only [scanIndex, Option.some.injEq] at h
    subst h
    exact ⟨rfl, [], by simp⟩
  | cons x rest ih =>
    intro c ups prev tot r h
    obtain ⟨pw, a⟩ := x
    simp only [scanIndex] at h
    split at h
    · simp only [Option.some.injEq] at h
      subst h
      exact ⟨rfl, [], by simp⟩
    · split at h
      · simp at h
      · rename_i v hv
        split at h; · simp at h
        split at h; · simp at h
        have hnone : aget s.prev a = none := by rw [hp]; rfl
        simp only [hnone, if_true] at h
        have hadel : adel ([] : List (Addr × Int)) a = [] := rfl
        rw [hadel] at h
        obtain ⟨r1, taken, r2, r3, r4, r5⟩ := ih _ _ _ _ _ h
        refine ⟨r1, (a, if v.status == 2 then power v.tokens else 0) :: taken, ?_, ?_, ?_, ?_⟩
        · rw [r2]; simp
        · rw [r3]; simp
        · simp only [List.map_cons]
          exact List.Sublist.cons_cons _ r4
        · intro e he
          simp only [List.mem_cons] at he
          rcases he with he | he
          · subst he; exact ⟨v, hv, rfl⟩
          · exact r5 e he

theorem idx_addr_nodup {s : State} (h : IndexExact s) : (s.idx.map (·.2)).Nodup := by
  obtain ⟨h1, h2⟩ := h
  unfold List.Nodup
  rw [List.pairwise_map]
  refine List.Pairwise.imp_of_mem ?_ h2
  intro x y hx hy hlt heq
  obtain ⟨v, hv, _, _, hpx⟩ := (h1 x.1 x.2).1 hx
  obtain ⟨v', hv', _, _, hpy⟩ := (h1 y.1 y.2).1 hy
  rw [← heq, hv] at hv'
  simp at hv'; subst hv'
  have : x = y := by
    cases x; cases y; simp at *; exact ⟨by omega, heq⟩
  subst this
  rw [idxLt_irrefl] at hlt; simp at hlt

theorem state_prev_eta (s : State) (h : s.prev = []) : s = { s with prev := [], prevTot := s.prevTot } := by
  cases s; simp at h; subst h; rfl

/-- the state and the update batch `genesis` returns, as a function of the state `gPre g` -/
theorem genesis_shape (g : Genesis) (hg : GenesisOK g) :
    ∃ (taken : List (Addr × Int)) (t : Int),
      (genesis g).1 = { gPre g with prev := taken.foldl (fun m e => aset m e.1 e.2) [], prevTot := t } ∧
      (genesis g).2 = taken ∧ (taken.map (·.1)).Nodup ∧
      ∀ e ∈ taken, 0 < e.2 ∧ (aget (gPre g).vals e.1).isSome = true := by
  have h3 := ginv_pre g hg
  rw [genesis_eq]
  split
  · rename_i s4 ups hu
    unfold updateValidators at hu
    split at hu; · simp at hu
    rename_i upsRev prev1 remaining tot hscan
    have hp : ({ gPre g with p := { (gPre g).p with maxVals := g.defaultMaxVals } } : State).prev = [] := h3.prev
    rw [hp] at hscan
    obtain ⟨r1, taken, r2, r3, r4, r5⟩ := scan_nil hp _ _ _ _ _ _ hscan
    simp only at r1 r2 r3
    subst r1 r2 r3
    simp only [List.any_nil, Bool.false_eq_true, if_false, List.foldl_nil, List.map_nil, List.append_nil,
      Option.some.injEq, Prod.mk.injEq] at hu
    obtain ⟨hu1, hu2⟩ := hu
    refine ⟨taken, s4.prevTot, ?_, by simp [← hu2], ?_, ?_⟩
    · rw [← hu1]
      simp only [h3.p.symm]
    · have := idx_addr_nodup h3.index
      have hsub : (taken.map (·.1)).Sublist ((gPre g).idx.reverse.map (·.2)) := r4
      refine List.Nodup.sublist hsub ?_
      rw [List.map_reverse]
      unfold List.Nodup at this ⊢
      rw [List.pairwise_reverse]
      exact this.imp (fun h => Ne.symm h)
    · intro e he
      obtain ⟨v, hv, hev⟩ := r5 e he
      have hv' : aget (gPre g).vals e.1 = some v := hv
      have := h3.valsProp _ (mem_of_aget hv')
      simp only at this
      rw [hev, this.1]
      simp only [beq_self_eq_true, if_true]
      exact ⟨power_pos this.2.2.1, by rw [hv']; rfl⟩
  · exact ⟨[], (gPre g).prevTot, state_prev_eta _ h3.prev, rfl, by simp, by simp⟩

theorem inv_with_prev {s : State} (h : Inv s) (pv : List (Addr × Int)) (t : Int) (h1 : KeysAsc pv)
    (h2 : ∀ e ∈ pv, 0 < e.2) (h3 : ∀ e ∈ pv, (aget s.vals e.1).isSome = true) :
    Inv { s with prev := pv, prevTot := t } :=
  ⟨⟨h.wf.balAsc, h.wf.balPos, h.wf.valsAsc, h.wf.tokNonneg, h.wf.statusOK, h.wf.signAsc, h1, h.wf.awardsAsc,
    h.wf.burnsAsc, h.wf.modsDistinct, h.wf.keysNotMods, h.wf.valsAreKeys, h.wf.minStakeNonneg⟩,
   h.supply, h.pool, h.index, h.queue, h.unstakedEmpty, h.sign, ⟨h1, h2, h3⟩⟩

theorem genesis_inv' (g : Genesis) (hg : GenesisOK g) : Inv (genesis g).1 := by
  obtain ⟨taken, t, h1, _, _, h4⟩ := genesis_shape g hg
  rw [h1]
  have hi := ginv_inv hg (ginv_pre g hg)
  obtain ⟨a1, a2⟩ := foldl_aset_props (fun e => 0 < e.2 ∧ (aget (gPre g).vals e.1).isSome = true) taken []
    (by simp [KeysAsc]) (by simp) h4
  exact inv_with_prev hi _ _ a1 (fun e he => (a2 e he).1) (fun e he => (a2 e he).2)

theorem foldl_updates_eq (l : List (Addr × Int)) (h : ∀ e ∈ l, e.2 ≠ 0) : ∀ (m : List (Addr × Int)),
    l.foldl (fun m u => if u.2 == 0 then adel m u.1 else aset m u.1 u.2) m =
      l.foldl (fun m e => aset m e.1 e.2) m := by
  induction l with
  | nil => intro m; rfl
  | cons x rest ih =>
    intro m
    simp only [List.foldl_cons]
    have : (x.2 == 0) = false := by simpa using h x (by simp)
    rw [this]
    exact ih (fun e he => h e (by simp [he])) _

theorem genesis_updates' (g : Genesis) (hg : GenesisOK g) :
    applyUpdates [] (genesis g).2 = some (genesis g).1.prev := by
  obtain ⟨taken, t, h1, h2, h3, h4⟩ := genesis_shape g hg
  rw [h1, h2]
  unfold applyUpdates
  have hne : ∀ e ∈ taken, e.2 ≠ 0 := fun e he => by have := (h4 e he).1; omega
  rw [if_neg (by simp [h3])]
  rw [if_neg (by
    simp only [List.any_eq_true, not_exists, not_and]
    intro e he; have := (h4 e he).1; simp; omega)]
  rw [if_neg (by
    simp only [List.any_eq_true, not_exists, not_and]
    intro e he; simp [hne e he])]
  rw [foldl_updates_eq taken hne]

end Posmint.Chain.ChainGenesis
