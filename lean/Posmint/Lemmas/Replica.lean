import Posmint.Lemmas.ChainTx
import Posmint.Lemmas.RootMulti
/-!
Helper lemmas for C01 (replicated execution):

* `Posmint.RM`: `setName` insertions under distinct names commute, hence `canonFold` is invariant under
  permutation; the working content / version / transient store after a history do not depend on the
  pruning configuration;
* `Posmint.Chain.Replica`: the frame lemmas "no consensus function reads or writes the header of the check
  state" (`setCH`).
-/

/-! ## multistore -/
namespace Posmint.RM
open Posmint.KV

set_option linter.unusedSimpArgs false in
theorem setName_comm (m : List (String × Bytes)) (a b : String) (x y : Bytes) (hab : a ≠ b) :
    setName (setName m a x) b y = setName (setName m b y) a x := by
  have hba : b ≠ a := fun e => hab e.symm
  induction m with
  | nil =>
    rcases Std.lt_trichotomy a b with h | h | h
    · have h' : ¬ b < a := fun h2 => String.lt_irrefl _ (String.lt_trans h h2)
      simp [setName, h, h', hab, hba]
    · exact absurd h hab
    · have h' : ¬ a < b := fun h2 => String.lt_irrefl _ (String.lt_trans h h2)
      simp [setName, h, h', hab, hba]
  | cons e rest ih =>
    obtain ⟨n, v⟩ := e
    by_cases han : a < n
    · by_cases hbn : b < n
      · rcases Std.lt_trichotomy a b with h | h | h
        · have h' : ¬ b < a := fun h2 => String.lt_irrefl _ (String.lt_trans h h2)
          simp [setName, han, hbn, h, h', hab, hba]
        · exact absurd h hab
        · have h' : ¬ a < b := fun h2 => String.lt_irrefl _ (String.lt_trans h h2)
          simp [setName, han, hbn, h, h', hab, hba]
      · by_cases ebn : b = n
        · subst ebn
          have h' : ¬ b < a := fun h2 => String.lt_irrefl _ (String.lt_trans h2 han)
          simp [setName, han, hbn, h', hab, hba]
        · have hab' : a < b := by
            rcases Std.lt_trichotomy b n with h | h | h
            · exact absurd h hbn
            · exact absurd h ebn
            · exact String.lt_trans han h
          have h' : ¬ b < a := fun h2 => String.lt_irrefl _ (String.lt_trans hab' h2)
          simp [setName, han, hbn, ebn, h', hab, hba]
    · by_cases ean : a = n
      · subst ean
        by_cases hbn : b < a
        · have h' : ¬ a < b := fun h2 => String.lt_irrefl _ (String.lt_trans h2 hbn)
          simp [setName, hbn, h', hab, hba]
        · simp [setName, hbn, hab, hba]
      · by_cases hbn : b < n
        · have hba' : b < a := by
            rcases Std.lt_trichotomy a n with h | h | h
            · exact absurd h han
            · exact absurd h ean
            · exact String.lt_trans hbn h
          have h' : ¬ a < b := fun h2 => String.lt_irrefl _ (String.lt_trans hba' h2)
          simp [setName, han, hbn, ean, h', hab, hba]
        · by_cases ebn : b = n
          · subst ebn
            simp [setName, han, ean, hab, hba]
          · simp [setName, han, hbn, ean, ebn, ih]

theorem canonFold_perm (H : Bytes → Bytes) (l l' : List StoreInfo) (hp : l.Perm l') :
    (l.map (·.name)).Nodup → ∀ init, canonFold H init l' = canonFold H init l := by
  induction hp with
  | nil => intros; rfl
  | cons x _ ih =>
    intro hd init
    simp only [List.map_cons, List.nodup_cons] at hd
    simp only [canonFold, List.foldl_cons]
    exact ih hd.2 _
  | swap x y l =>
    intro hd init
    simp only [List.map_cons, List.nodup_cons, List.mem_cons, not_or] at hd
    simp only [canonFold, List.foldl_cons]
    rw [setName_comm _ _ _ _ _ hd.1.1]
  | trans h1 _ ih1 ih2 =>
    intro hd init
    have hd2 := (List.Perm.nodup_iff (h1.map (·.name))).mp hd
    rw [ih2 hd2, ih1 hd]

/-! ### pruning independence -/

theorem map_working_modify (l : List Sub) (i : Nat) (f : Items → Items) :
    (l.modify i (fun s => { s with working := f s.working })).map (·.working) = (l.map (·.working)).modify i f := by
  apply List.ext_getElem?
  intro j
  simp only [List.getElem?_map, List.getElem?_modify]
  cases l[j]? with
  | none => rfl
  | some a => by_cases hij : i = j <;> simp [hij]

theorem apply_pruning_independent (m m' : RM) (op : Op)
    (h1 : m.subs.map (·.working) = m'.subs.map (·.working)) (h2 : m.latest = m'.latest) (h3 : m.trans = m'.trans) :
    (m.apply op).subs.map (·.working) = (m'.apply op).subs.map (·.working) ∧
    (m.apply op).latest = (m'.apply op).latest ∧ (m.apply op).trans = (m'.apply op).trans := by
  cases op with
  | set i k v =>
    refine ⟨?_, h2, h3⟩
    simp only [RM.apply]
    rw [map_working_modify _ _ (fun w => kvSet w k v), map_working_modify _ _ (fun w => kvSet w k v), h1]
  | del i k =>
    refine ⟨?_, h2, h3⟩
    simp only [RM.apply]
    rw [map_working_modify _ _ (fun w => kvDel w k), map_working_modify _ _ (fun w => kvDel w k), h1]
  | tset k v => exact ⟨h1, h2, by simp only [RM.apply, h3]⟩
  | tdel k => exact ⟨h1, h2, by simp only [RM.apply, h3]⟩
  | commit =>
    refine ⟨?_, by simp only [RM.apply, RM.commit, h2], rfl⟩
    simp only [RM.apply, RM.commit, List.map_map]
    have e : ∀ (kr ke v : Nat), ((fun s : Sub => s.working) ∘ fun s => s.commit kr ke v) = (fun s : Sub => s.working) := by
      intro kr ke v; funext s
      simp only [Function.comp, Sub.commit]
      split <;> rfl
    rw [e, e]; exact h1

theorem run_pruning_independent (ops : List Op) : ∀ (m m' : RM),
    m.subs.map (·.working) = m'.subs.map (·.working) → m.latest = m'.latest → m.trans = m'.trans →
    (m.run ops).subs.map (·.working) = (m'.run ops).subs.map (·.working) ∧
    (m.run ops).latest = (m'.run ops).latest ∧ (m.run ops).trans = (m'.run ops).trans := by
  induction ops with
  | nil => intro m m' h1 h2 h3; exact ⟨h1, h2, h3⟩
  | cons op rest ih =>
    intro m m' h1 h2 h3
    obtain ⟨a, b, c⟩ := apply_pruning_independent m m' op h1 h2 h3
    exact ih _ _ a b c

end Posmint.RM

/-! ## chain: the header of the check state is never read or written by a consensus request -/
namespace Posmint.Chain.Replica
open Posmint.Chain

/-- replace the header of the check state -/
def setCH (s : State) (h t : Int) : State := { s with cHeight := h, cTime := t }

variable (s : State) (h t : Int)

macro "ch_close" : tactic => `(tactic| first | rfl | (simp [*]; done) | (simp [*]; rfl))

@[simp] theorem setCH_setCH (h' t' : Int) : setCH (setCH s h t) h' t' = setCH s h' t' := rfl
@[simp] theorem bal_setCH : (setCH s h t).bal = s.bal := rfl
@[simp] theorem supply_setCH : (setCH s h t).supply = s.supply := rfl
@[simp] theorem vals_setCH : (setCH s h t).vals = s.vals := rfl
@[simp] theorem idx_setCH : (setCH s h t).idx = s.idx := rfl
@[simp] theorem prev_setCH : (setCH s h t).prev = s.prev := rfl
@[simp] theorem prevTot_setCH : (setCH s h t).prevTot = s.prevTot := rfl
@[simp] theorem queue_setCH : (setCH s h t).queue = s.queue := rfl
@[simp] theorem sign_setCH : (setCH s h t).sign = s.sign := rfl
@[simp] theorem missedBits_setCH : (setCH s h t).missedBits = s.missedBits := rfl
@[simp] theorem awards_setCH : (setCH s h t).awards = s.awards := rfl
@[simp] theorem burns_setCH : (setCH s h t).burns = s.burns := rfl
@[simp] theorem proposer_setCH : (setCH s h t).proposer = s.proposer := rfl
@[simp] theorem rel_setCH : (setCH s h t).rel = s.rel := rfl
@[simp] theorem p_setCH : (setCH s h t).p = s.p := rfl
@[simp] theorem acl_setCH : (setCH s h t).acl = s.acl := rfl
@[simp] theorem daoOwner_setCH : (setCH s h t).daoOwner = s.daoOwner := rfl
@[simp] theorem pool_setCH : (setCH s h t).pool = s.pool := rfl
@[simp] theorem feeAcc_setCH : (setCH s h t).feeAcc = s.feeAcc := rfl
@[simp] theorem posAcc_setCH : (setCH s h t).posAcc = s.posAcc := rfl
@[simp] theorem daoAcc_setCH : (setCH s h t).daoAcc = s.daoAcc := rfl
@[simp] theorem keys_setCH : (setCH s h t).keys = s.keys := rfl
@[simp] theorem nStored_setCH : (setCH s h t).nStored = s.nStored := rfl
@[simp] theorem height_setCH : (setCH s h t).height = s.height := rfl
@[simp] theorem time_setCH : (setCH s h t).time = s.time := rfl
@[simp] theorem index_setCH : (setCH s h t).index = s.index := rfl
@[simp] theorem blockTxs_setCH : (setCH s h t).blockTxs = s.blockTxs := rfl
@[simp] theorem bal2_setCH : (setCH s h t).bal2 = s.bal2 := rfl
@[simp] theorem supply2_setCH : (setCH s h t).supply2 = s.supply2 := rfl
@[simp] theorem upgrade_setCH : (setCH s h t).upgrade = s.upgrade := rfl
@[simp] theorem keyNodes_setCH : (setCH s h t).keyNodes = s.keyNodes := rfl
@[simp] theorem accts_setCH : (setCH s h t).accts = s.accts := rfl
@[simp] theorem keyed_setCH : (setCH s h t).keyed = s.keyed := rfl
@[simp] theorem cHeight_setCH : (setCH s h t).cHeight = h := rfl
@[simp] theorem cTime_setCH : (setCH s h t).cTime = t := rfl

@[simp] theorem ite_setCH (c : Prop) [Decidable c] (a b : State) :
    (if c then setCH a h t else setCH b h t) = setCH (if c then a else b) h t := by split <;> rfl
@[simp] theorem ite_some_setCH (c : Prop) [Decidable c] (a : Option State) (b : State) :
    (if c then a.map (setCH · h t) else some (setCH b h t)) = (if c then a else some b).map (setCH · h t) := by split <;> rfl
@[simp] theorem ite_none_setCH (c : Prop) [Decidable c] (a : Option State) :
    (if c then none else a.map (setCH · h t)) = (if c then none else a).map (setCH · h t) := by split <;> rfl
@[simp] theorem getD_map_setCH (o : Option State) : (o.map (setCH · h t)).getD (setCH s h t) = setCH (o.getD s) h t := by
  cases o <;> rfl

@[simp] theorem keyAddr_setCH (k : Nat) : keyAddr (setCH s h t) k = keyAddr s k := rfl
@[simp] theorem balOf_setCH (a : Addr) : balOf (setCH s h t) a = balOf s a := rfl
@[simp] theorem setBal_setCH (a : Addr) (x : Int) : setBal (setCH s h t) a x = setCH (setBal s a x) h t := rfl
@[simp] theorem touch_setCH (a : Addr) : touch (setCH s h t) a = setCH (touch s a) h t := rfl
@[simp] theorem acctExists_setCH (a : Addr) : acctExists (setCH s h t) a = acctExists s a := rfl

@[simp] theorem send_setCH (src dst : Addr) (amt : Int) :
    send (setCH s h t) src dst amt = (send s src dst amt).map (setCH · h t) := by
  unfold send
  simp only [balOf_setCH, setBal_setCH, touch_setCH]
  split <;> ch_close

@[simp] theorem balOf2_setCH (a : Addr) : balOf2 (setCH s h t) a = balOf2 s a := rfl
@[simp] theorem setBal2_setCH (a : Addr) (x : Int) : setBal2 (setCH s h t) a x = setCH (setBal2 s a x) h t := rfl

@[simp] theorem send2_setCH (src dst : Addr) (amt : Int) :
    send2 (setCH s h t) src dst amt = (send2 s src dst amt).map (setCH · h t) := by
  unfold send2
  simp only [balOf2_setCH, setBal2_setCH]
  split <;> ch_close

@[simp] theorem mint_setCH (a : Addr) (amt : Int) : mint (setCH s h t) a amt = setCH (mint s a amt) h t := rfl

@[simp] theorem burnFrom_setCH (a : Addr) (amt : Int) :
    burnFrom (setCH s h t) a amt = (burnFrom s a amt).map (setCH · h t) := by
  unfold burnFrom
  simp only [balOf_setCH, setBal_setCH]
  split <;> ch_close

@[simp] theorem setStaked_setCH (a : Addr) (v : Val) : setStaked (setCH s h t) a v = setCH (setStaked s a v) h t := by
  unfold setStaked; split <;> ch_close
@[simp] theorem delStaked_setCH (a : Addr) (v : Val) : delStaked (setCH s h t) a v = setCH (delStaked s a v) h t := rfl
@[simp] theorem setVal_setCH (a : Addr) (v : Val) : setVal (setCH s h t) a v = setCH (setVal s a v) h t := rfl
@[simp] theorem enqueue_setCH (a : Addr) (x : Int) : enqueue (setCH s h t) a x = setCH (enqueue s a x) h t := rfl
@[simp] theorem dequeue_setCH (a : Addr) (x : Int) : dequeue (setCH s h t) a x = setCH (dequeue s a x) h t := rfl

@[simp] theorem forceUnstake_setCH (a : Addr) (v : Val) :
    forceUnstake (setCH s h t) a v = setCH (forceUnstake s a v) h t := by
  simp [forceUnstake]

@[simp] theorem slash_setCH (a : Addr) (ih pw f : Int) :
    slash (setCH s h t) a ih pw f = setCH (slash s a ih pw f) h t := by
  unfold slash
  simp only [height_setCH, vals_setCH]
  split; · rfl
  split; · rfl
  split; · rfl
  split; · rfl
  simp only [delStaked_setCH, setVal_setCH, setStaked_setCH, pool_setCH, burnFrom_setCH]
  split; · rfl
  cases burnFrom _ _ _ with
  | none => rfl
  | some s2 => simp

@[simp] theorem jail_setCH (a : Addr) : jail (setCH s h t) a = (jail s a).map (setCH · h t) := by
  unfold jail
  simp only [vals_setCH]
  split; · rfl
  split <;> rfl

macro "ch_step" : tactic =>
  `(tactic| (split <;> try (rename_i hh; first | simp only [if_pos hh] | simp only [if_neg hh])))
macro "ch_auto" : tactic => `(tactic| repeat' (first | rfl | ch_step))

/-- a state with an empty check-state header -/
def mk0 (x_bal : List (Addr × Int)) (x_supply : Int) (x_vals : List (Addr × Val)) (x_idx : List (Int × Addr)) (x_prev : List (Addr × Int)) (x_prevTot : Int) (x_queue : List (Int × List Addr)) (x_sign : List (Addr × Sign)) (x_missedBits : List ((Addr × Int) × Bool)) (x_awards : List (Addr × Int)) (x_burns : List (Addr × Int)) (x_proposer : Addr) (x_rel : List Addr) (x_p : Params) (x_acl : List (String × Addr)) (x_daoOwner : Addr) (x_pool : Addr) (x_feeAcc : Addr) (x_posAcc : Addr) (x_daoAcc : Addr) (x_keys : List (Nat × Addr)) (x_nStored : Nat) (x_height : Int) (x_time : Int) (x_index : List String) (x_blockTxs : List String) (x_bal2 : List (Addr × Int)) (x_supply2 : Int) (x_upgrade : Int × String) (x_keyNodes : List (Nat × Nat)) (x_accts : List (Addr × Unit)) (x_keyed : List Addr) : State :=
  { bal := x_bal, supply := x_supply, vals := x_vals, idx := x_idx, prev := x_prev, prevTot := x_prevTot, queue := x_queue, sign := x_sign, missedBits := x_missedBits, awards := x_awards, burns := x_burns, proposer := x_proposer, rel := x_rel, p := x_p, acl := x_acl, daoOwner := x_daoOwner, pool := x_pool, feeAcc := x_feeAcc, posAcc := x_posAcc, daoAcc := x_daoAcc, keys := x_keys, nStored := x_nStored, height := x_height, time := x_time, index := x_index, blockTxs := x_blockTxs, cHeight := 0, cTime := 0, bal2 := x_bal2, supply2 := x_supply2, upgrade := x_upgrade, keyNodes := x_keyNodes, accts := x_accts, keyed := x_keyed }
section mk0
variable (x_bal : List (Addr × Int)) (x_supply : Int) (x_vals : List (Addr × Val)) (x_idx : List (Int × Addr)) (x_prev : List (Addr × Int)) (x_prevTot : Int) (x_queue : List (Int × List Addr)) (x_sign : List (Addr × Sign)) (x_missedBits : List ((Addr × Int) × Bool)) (x_awards : List (Addr × Int)) (x_burns : List (Addr × Int)) (x_proposer : Addr) (x_rel : List Addr) (x_p : Params) (x_acl : List (String × Addr)) (x_daoOwner : Addr) (x_pool : Addr) (x_feeAcc : Addr) (x_posAcc : Addr) (x_daoAcc : Addr) (x_keys : List (Nat × Addr)) (x_nStored : Nat) (x_height : Int) (x_time : Int) (x_index : List String) (x_blockTxs : List String) (x_bal2 : List (Addr × Int)) (x_supply2 : Int) (x_upgrade : Int × String) (x_keyNodes : List (Nat × Nat)) (x_accts : List (Addr × Unit)) (x_keyed : List Addr) (x_cHeight x_cTime : Int)
theorem mk_eq :
    State.mk x_bal x_supply x_vals x_idx x_prev x_prevTot x_queue x_sign x_missedBits x_awards x_burns x_proposer x_rel x_p x_acl x_daoOwner x_pool x_feeAcc x_posAcc x_daoAcc x_keys x_nStored x_height x_time x_cHeight x_cTime x_index x_blockTxs x_bal2 x_supply2 x_upgrade x_keyNodes x_accts x_keyed =
      setCH (mk0 x_bal x_supply x_vals x_idx x_prev x_prevTot x_queue x_sign x_missedBits x_awards x_burns x_proposer x_rel x_p x_acl x_daoOwner x_pool x_feeAcc x_posAcc x_daoAcc x_keys x_nStored x_height x_time x_index x_blockTxs x_bal2 x_supply2 x_upgrade x_keyNodes x_accts x_keyed) x_cHeight x_cTime := rfl
@[simp] theorem mk0_bal : (mk0 x_bal x_supply x_vals x_idx x_prev x_prevTot x_queue x_sign x_missedBits x_awards x_burns x_proposer x_rel x_p x_acl x_daoOwner x_pool x_feeAcc x_posAcc x_daoAcc x_keys x_nStored x_height x_time x_index x_blockTxs x_bal2 x_supply2 x_upgrade x_keyNodes x_accts x_keyed).bal = x_bal := rfl
@[simp] theorem mk0_supply : (mk0 x_bal x_supply x_vals x_idx x_prev x_prevTot x_queue x_sign x_missedBits x_awards x_burns x_proposer x_rel x_p x_acl x_daoOwner x_pool x_feeAcc x_posAcc x_daoAcc x_keys x_nStored x_height x_time x_index x_blockTxs x_bal2 x_supply2 x_upgrade x_keyNodes x_accts x_keyed).supply = x_supply := rfl
@[simp] theorem mk0_vals : (mk0 x_bal x_supply x_vals x_idx x_prev x_prevTot x_queue x_sign x_missedBits x_awards x_burns x_proposer x_rel x_p x_acl x_daoOwner x_pool x_feeAcc x_posAcc x_daoAcc x_keys x_nStored x_height x_time x_index x_blockTxs x_bal2 x_supply2 x_upgrade x_keyNodes x_accts x_keyed).vals = x_vals := rfl
@[simp] theorem mk0_idx : (mk0 x_bal x_supply x_vals x_idx x_prev x_prevTot x_queue x_sign x_missedBits x_awards x_burns x_proposer x_rel x_p x_acl x_daoOwner x_pool x_feeAcc x_posAcc x_daoAcc x_keys x_nStored x_height x_time x_index x_blockTxs x_bal2 x_supply2 x_upgrade x_keyNodes x_accts x_keyed).idx = x_idx := rfl
@[simp] theorem mk0_prev : (mk0 x_bal x_supply x_vals x_idx x_prev x_prevTot x_queue x_sign x_missedBits x_awards x_burns x_proposer x_rel x_p x_acl x_daoOwner x_pool x_feeAcc x_posAcc x_daoAcc x_keys x_nStored x_height x_time x_index x_blockTxs x_bal2 x_supply2 x_upgrade x_keyNodes x_accts x_keyed).prev = x_prev := rfl
@[simp] theorem mk0_prevTot : (mk0 x_bal x_supply x_vals x_idx x_prev x_prevTot x_queue x_sign x_missedBits x_awards x_burns x_proposer x_rel x_p x_acl x_daoOwner x_pool x_feeAcc x_posAcc x_daoAcc x_keys x_nStored x_height x_time x_index x_blockTxs x_bal2 x_supply2 x_upgrade x_keyNodes x_accts x_keyed).prevTot = x_prevTot := rfl
@[simp] theorem mk0_queue : (mk0 x_bal x_supply x_vals x_idx x_prev x_prevTot x_queue x_sign x_missedBits x_awards x_burns x_proposer x_rel x_p x_acl x_daoOwner x_pool x_feeAcc x_posAcc x_daoAcc x_keys x_nStored x_height x_time x_index x_blockTxs x_bal2 x_supply2 x_upgrade x_keyNodes x_accts x_keyed).queue = x_queue := rfl
@[simp] theorem mk0_sign : (mk0 x_bal x_supply x_vals x_idx x_prev x_prevTot x_queue x_sign x_missedBits x_awards x_burns x_proposer x_rel x_p x_acl x_daoOwner x_pool x_feeAcc x_posAcc x_daoAcc x_keys x_nStored x_height x_time x_index x_blockTxs x_bal2 x_supply2 x_upgrade x_keyNodes x_accts x_keyed).sign = x_sign := rfl
@[simp] theorem mk0_missedBits : (mk0 x_bal x_supply x_vals x_idx x_prev x_prevTot x_queue x_sign x_missedBits x_awards x_burns x_proposer x_rel x_p x_acl x_daoOwner x_pool x_feeAcc x_posAcc x_daoAcc x_keys x_nStored x_height x_time x_index x_blockTxs x_bal2 x_supply2 x_upgrade x_keyNodes x_accts x_keyed).missedBits = x_missedBits := rfl
@[simp] theorem mk0_awards : (mk0 x_bal x_supply x_vals x_idx x_prev x_prevTot x_queue x_sign x_missedBits x_awards x_burns x_proposer x_rel x_p x_acl x_daoOwner x_pool x_feeAcc x_posAcc x_daoAcc x_keys x_nStored x_height x_time x_index x_blockTxs x_bal2 x_supply2 x_upgrade x_keyNodes x_accts x_keyed).awards = x_awards := rfl
@[simp] theorem mk0_burns : (mk0 x_bal x_supply x_vals x_idx x_prev x_prevTot x_queue x_sign x_missedBits x_awards x_burns x_proposer x_rel x_p x_acl x_daoOwner x_pool x_feeAcc x_posAcc x_daoAcc x_keys x_nStored x_height x_time x_index x_blockTxs x_bal2 x_supply2 x_upgrade x_keyNodes x_accts x_keyed).burns = x_burns := rfl
@[simp] theorem mk0_proposer : (mk0 x_bal x_supply x_vals x_idx x_prev x_prevTot x_queue x_sign x_missedBits x_awards x_burns x_proposer x_rel x_p x_acl x_daoOwner x_pool x_feeAcc x_posAcc x_daoAcc x_keys x_nStored x_height x_time x_index x_blockTxs x_bal2 x_supply2 x_upgrade x_keyNodes x_accts x_keyed).proposer = x_proposer := rfl
@[simp] theorem mk0_rel : (mk0 x_bal x_supply x_vals x_idx x_prev x_prevTot x_queue x_sign x_missedBits x_awards x_burns x_proposer x_rel x_p x_acl x_daoOwner x_pool x_feeAcc x_posAcc x_daoAcc x_keys x_nStored x_height x_time x_index x_blockTxs x_bal2 x_supply2 x_upgrade x_keyNodes x_accts x_keyed).rel = x_rel := rfl
@[simp] theorem mk0_p : (mk0 x_bal x_supply x_vals x_idx x_prev x_prevTot x_queue x_sign x_missedBits x_awards x_burns x_proposer x_rel x_p x_acl x_daoOwner x_pool x_feeAcc x_posAcc x_daoAcc x_keys x_nStored x_height x_time x_index x_blockTxs x_bal2 x_supply2 x_upgrade x_keyNodes x_accts x_keyed).p = x_p := rfl
@[simp] theorem mk0_acl : (mk0 x_bal x_supply x_vals x_idx x_prev x_prevTot x_queue x_sign x_missedBits x_awards x_burns x_proposer x_rel x_p x_acl x_daoOwner x_pool x_feeAcc x_posAcc x_daoAcc x_keys x_nStored x_height x_time x_index x_blockTxs x_bal2 x_supply2 x_upgrade x_keyNodes x_accts x_keyed).acl = x_acl := rfl
@[simp] theorem mk0_daoOwner : (mk0 x_bal x_supply x_vals x_idx x_prev x_prevTot x_queue x_sign x_missedBits x_awards x_burns x_proposer x_rel x_p x_acl x_daoOwner x_pool x_feeAcc x_posAcc x_daoAcc x_keys x_nStored x_height x_time x_index x_blockTxs x_bal2 x_supply2 x_upgrade x_keyNodes x_accts x_keyed).daoOwner = x_daoOwner := rfl
@[simp] theorem mk0_pool : (mk0 x_bal x_supply x_vals x_idx x_prev x_prevTot x_queue x_sign x_missedBits x_awards x_burns x_proposer x_rel x_p x_acl x_daoOwner x_pool x_feeAcc x_posAcc x_daoAcc x_keys x_nStored x_height x_time x_index x_blockTxs x_bal2 x_supply2 x_upgrade x_keyNodes x_accts x_keyed).pool = x_pool := rfl
@[simp] theorem mk0_feeAcc : (mk0 x_bal x_supply x_vals x_idx x_prev x_prevTot x_queue x_sign x_missedBits x_awards x_burns x_proposer x_rel x_p x_acl x_daoOwner x_pool x_feeAcc x_posAcc x_daoAcc x_keys x_nStored x_height x_time x_index x_blockTxs x_bal2 x_supply2 x_upgrade x_keyNodes x_accts x_keyed).feeAcc = x_feeAcc := rfl
@[simp] theorem mk0_posAcc : (mk0 x_bal x_supply x_vals x_idx x_prev x_prevTot x_queue x_sign x_missedBits x_awards x_burns x_proposer x_rel x_p x_acl x_daoOwner x_pool x_feeAcc x_posAcc x_daoAcc x_keys x_nStored x_height x_time x_index x_blockTxs x_bal2 x_supply2 x_upgrade x_keyNodes x_accts x_keyed).posAcc = x_posAcc := rfl
@[simp] theorem mk0_daoAcc : (mk0 x_bal x_supply x_vals x_idx x_prev x_prevTot x_queue x_sign x_missedBits x_awards x_burns x_proposer x_rel x_p x_acl x_daoOwner x_pool x_feeAcc x_posAcc x_daoAcc x_keys x_nStored x_height x_time x_index x_blockTxs x_bal2 x_supply2 x_upgrade x_keyNodes x_accts x_keyed).daoAcc = x_daoAcc := rfl
@[simp] theorem mk0_keys : (mk0 x_bal x_supply x_vals x_idx x_prev x_prevTot x_queue x_sign x_missedBits x_awards x_burns x_proposer x_rel x_p x_acl x_daoOwner x_pool x_feeAcc x_posAcc x_daoAcc x_keys x_nStored x_height x_time x_index x_blockTxs x_bal2 x_supply2 x_upgrade x_keyNodes x_accts x_keyed).keys = x_keys := rfl
@[simp] theorem mk0_nStored : (mk0 x_bal x_supply x_vals x_idx x_prev x_prevTot x_queue x_sign x_missedBits x_awards x_burns x_proposer x_rel x_p x_acl x_daoOwner x_pool x_feeAcc x_posAcc x_daoAcc x_keys x_nStored x_height x_time x_index x_blockTxs x_bal2 x_supply2 x_upgrade x_keyNodes x_accts x_keyed).nStored = x_nStored := rfl
@[simp] theorem mk0_height : (mk0 x_bal x_supply x_vals x_idx x_prev x_prevTot x_queue x_sign x_missedBits x_awards x_burns x_proposer x_rel x_p x_acl x_daoOwner x_pool x_feeAcc x_posAcc x_daoAcc x_keys x_nStored x_height x_time x_index x_blockTxs x_bal2 x_supply2 x_upgrade x_keyNodes x_accts x_keyed).height = x_height := rfl
@[simp] theorem mk0_time : (mk0 x_bal x_supply x_vals x_idx x_prev x_prevTot x_queue x_sign x_missedBits x_awards x_burns x_proposer x_rel x_p x_acl x_daoOwner x_pool x_feeAcc x_posAcc x_daoAcc x_keys x_nStored x_height x_time x_index x_blockTxs x_bal2 x_supply2 x_upgrade x_keyNodes x_accts x_keyed).time = x_time := rfl
@[simp] theorem mk0_index : (mk0 x_bal x_supply x_vals x_idx x_prev x_prevTot x_queue x_sign x_missedBits x_awards x_burns x_proposer x_rel x_p x_acl x_daoOwner x_pool x_feeAcc x_posAcc x_daoAcc x_keys x_nStored x_height x_time x_index x_blockTxs x_bal2 x_supply2 x_upgrade x_keyNodes x_accts x_keyed).index = x_index := rfl
@[simp] theorem mk0_blockTxs : (mk0 x_bal x_supply x_vals x_idx x_prev x_prevTot x_queue x_sign x_missedBits x_awards x_burns x_proposer x_rel x_p x_acl x_daoOwner x_pool x_feeAcc x_posAcc x_daoAcc x_keys x_nStored x_height x_time x_index x_blockTxs x_bal2 x_supply2 x_upgrade x_keyNodes x_accts x_keyed).blockTxs = x_blockTxs := rfl
@[simp] theorem mk0_bal2 : (mk0 x_bal x_supply x_vals x_idx x_prev x_prevTot x_queue x_sign x_missedBits x_awards x_burns x_proposer x_rel x_p x_acl x_daoOwner x_pool x_feeAcc x_posAcc x_daoAcc x_keys x_nStored x_height x_time x_index x_blockTxs x_bal2 x_supply2 x_upgrade x_keyNodes x_accts x_keyed).bal2 = x_bal2 := rfl
@[simp] theorem mk0_supply2 : (mk0 x_bal x_supply x_vals x_idx x_prev x_prevTot x_queue x_sign x_missedBits x_awards x_burns x_proposer x_rel x_p x_acl x_daoOwner x_pool x_feeAcc x_posAcc x_daoAcc x_keys x_nStored x_height x_time x_index x_blockTxs x_bal2 x_supply2 x_upgrade x_keyNodes x_accts x_keyed).supply2 = x_supply2 := rfl
@[simp] theorem mk0_upgrade : (mk0 x_bal x_supply x_vals x_idx x_prev x_prevTot x_queue x_sign x_missedBits x_awards x_burns x_proposer x_rel x_p x_acl x_daoOwner x_pool x_feeAcc x_posAcc x_daoAcc x_keys x_nStored x_height x_time x_index x_blockTxs x_bal2 x_supply2 x_upgrade x_keyNodes x_accts x_keyed).upgrade = x_upgrade := rfl
@[simp] theorem mk0_keyNodes : (mk0 x_bal x_supply x_vals x_idx x_prev x_prevTot x_queue x_sign x_missedBits x_awards x_burns x_proposer x_rel x_p x_acl x_daoOwner x_pool x_feeAcc x_posAcc x_daoAcc x_keys x_nStored x_height x_time x_index x_blockTxs x_bal2 x_supply2 x_upgrade x_keyNodes x_accts x_keyed).keyNodes = x_keyNodes := rfl
@[simp] theorem mk0_accts : (mk0 x_bal x_supply x_vals x_idx x_prev x_prevTot x_queue x_sign x_missedBits x_awards x_burns x_proposer x_rel x_p x_acl x_daoOwner x_pool x_feeAcc x_posAcc x_daoAcc x_keys x_nStored x_height x_time x_index x_blockTxs x_bal2 x_supply2 x_upgrade x_keyNodes x_accts x_keyed).accts = x_accts := rfl
@[simp] theorem mk0_keyed : (mk0 x_bal x_supply x_vals x_idx x_prev x_prevTot x_queue x_sign x_missedBits x_awards x_burns x_proposer x_rel x_p x_acl x_daoOwner x_pool x_feeAcc x_posAcc x_daoAcc x_keys x_nStored x_height x_time x_index x_blockTxs x_bal2 x_supply2 x_upgrade x_keyNodes x_accts x_keyed).keyed = x_keyed := rfl
end mk0

@[simp] theorem map_map_setCH (o : Option State) (h' t' : Int) :
    (o.map (setCH · h t)).map (setCH · h' t') = o.map (setCH · h' t') := by cases o <;> rfl

macro "ch_fields" : tactic => `(tactic| try dsimp +instances only [
  bal_setCH, supply_setCH, vals_setCH, idx_setCH, prev_setCH, prevTot_setCH, queue_setCH, sign_setCH, missedBits_setCH,
  awards_setCH, burns_setCH, proposer_setCH, rel_setCH, p_setCH, acl_setCH, daoOwner_setCH, pool_setCH, feeAcc_setCH,
  posAcc_setCH, daoAcc_setCH, keys_setCH, nStored_setCH, height_setCH, time_setCH, index_setCH, blockTxs_setCH,
  cHeight_setCH, cTime_setCH, bal2_setCH, supply2_setCH, upgrade_setCH, keyNodes_setCH, accts_setCH, keyed_setCH, keyAddr_setCH, balOf_setCH, balOf2_setCH, acctExists_setCH])

open Lean.Parser.Tactic in
macro "ch_simp" "[" ts:simpLemma,* "]" : tactic => `(tactic| simp +instances only [mk_eq,
  bal_setCH, supply_setCH, vals_setCH, idx_setCH, prev_setCH, prevTot_setCH, queue_setCH, sign_setCH, missedBits_setCH,
  awards_setCH, burns_setCH, proposer_setCH, rel_setCH, p_setCH, acl_setCH, daoOwner_setCH, pool_setCH, feeAcc_setCH,
  posAcc_setCH, daoAcc_setCH, keys_setCH, nStored_setCH, height_setCH, time_setCH, index_setCH, blockTxs_setCH,
  cHeight_setCH, cTime_setCH, bal2_setCH, supply2_setCH, upgrade_setCH, keyNodes_setCH, accts_setCH, keyed_setCH, acctExists_setCH, touch_setCH, setCH_setCH, map_map_setCH, getD_map_setCH, ite_setCH,
  keyAddr_setCH, balOf_setCH, setBal_setCH, send_setCH, balOf2_setCH, setBal2_setCH, send2_setCH, mint_setCH, burnFrom_setCH, setStaked_setCH, delStaked_setCH, setVal_setCH,
  enqueue_setCH, dequeue_setCH, forceUnstake_setCH, slash_setCH, jail_setCH,
  Option.map_none, Option.map_some, $ts,*])

open Lean.Parser.Tactic in
macro "ch_norm" "[" ts:simpLemma,* "]" : tactic => `(tactic| (ch_fields; try ch_simp [$ts,*]))

@[simp] theorem handleSignature_setCH (a : Addr) (pw : Int) (signed : Bool) :
    handleSignature (setCH s h t) a pw signed = (handleSignature s a pw signed).map (setCH · h t) := by
  unfold handleSignature
  ch_norm []
  repeat' (first | rfl | contradiction | (cases jail _ _ <;> simp only [Option.map_none, Option.map_some]) | ch_step)

macro "ch_auto" : tactic => `(tactic| repeat' (first | rfl | contradiction | ch_step))


macro "ch_auto" : tactic => `(tactic| repeat' (first | rfl | contradiction | ch_step))

@[simp] theorem handleDoubleSign_setCH (a : Addr) (ih et pw : Int) :
    handleDoubleSign (setCH s h t) a ih et pw = (handleDoubleSign s a ih et pw).map (setCH · h t) := by
  unfold handleDoubleSign
  ch_norm []
  ch_step; · rfl
  ch_step; · rfl
  ch_step; · rfl
  ch_step; · rfl
  ch_step; · rfl
  ch_step; · rfl
  ch_step; · rfl
  rename_i v _ _ _ _ _ _ _
  by_cases hj : (!v.jailed) = true
  · simp only [if_pos hj]
    cases jail _ _ with
    | none => rfl
    | some s2 =>
      ch_norm []
      ch_auto
  · simp only [if_neg hj]
    ch_norm []
    ch_auto

@[simp] theorem rewardFromFees_setCH : rewardFromFees (setCH s h t) = setCH (rewardFromFees s) h t := by
  unfold rewardFromFees
  ch_norm []
  cases send _ _ _ _ with
  | none => rfl
  | some s1 =>
    ch_norm []
    ch_auto

@[simp] theorem rewardFromFees2_setCH : rewardFromFees2 (setCH s h t) = setCH (rewardFromFees2 s) h t := by
  unfold rewardFromFees2
  ch_norm []
  cases send2 _ _ _ _ with
  | none => rfl
  | some s1 =>
    ch_norm []
    ch_auto

theorem foldl_setCH {β : Type} (F : State → β → State) (hF : ∀ st e, F (setCH st h t) e = setCH (F st e) h t)
    (l : List β) (s : State) : l.foldl F (setCH s h t) = setCH (l.foldl F s) h t := by
  induction l generalizing s with
  | nil => rfl
  | cons x tl ih => simp only [List.foldl_cons, hF, ih]

theorem foldl_bind_setCH {β : Type} (F : State → β → Option State)
    (hF : ∀ st e, F (setCH st h t) e = (F st e).map (setCH · h t)) (l : List β) (o : Option State) :
    l.foldl (fun st? e => st?.bind fun st => F st e) (o.map (setCH · h t)) =
      (l.foldl (fun st? e => st?.bind fun st => F st e) o).map (setCH · h t) := by
  induction l generalizing o with
  | nil => rfl
  | cons x tl ih =>
    simp only [List.foldl_cons]
    rw [← ih]
    congr 1
    cases o with
    | none => rfl
    | some st => simp only [Option.map_some, Option.bind_some, hF]

@[simp] theorem mintAwards_setCH : mintAwards (setCH s h t) = (mintAwards s).map (setCH · h t) := by
  unfold mintAwards
  ch_norm []
  rw [foldl_setCH h t _ (by intro st e; ch_norm [])]
  ch_norm []
  ch_auto

theorem foldl_opt_setCH {β : Type} (F : Option State → β → Option State)
    (hF : ∀ o e, F (o.map (setCH · h t)) e = (F o e).map (setCH · h t)) (l : List β) (o : Option State) :
    l.foldl F (o.map (setCH · h t)) = (l.foldl F o).map (setCH · h t) := by
  induction l generalizing o with
  | nil => rfl
  | cons x tl ih => simp only [List.foldl_cons, hF, ih]

@[simp] theorem burnValidators_setCH : burnValidators (setCH s h t) = (burnValidators s).map (setCH · h t) := by
  unfold burnValidators
  ch_norm []
  rw [show some (setCH s h t) = (some s).map (setCH · h t) from rfl,
    foldl_opt_setCH h t _ (by
      intro o e
      cases o with
      | none => rfl
      | some st => ch_norm []; ch_auto)]
  cases List.foldl _ _ _ <;> rfl

theorem bind_map_setCH (o : Option State) (F : State → Option State)
    (hF : ∀ st, F (setCH st h t) = (F st).map (setCH · h t)) :
    (o.map (setCH · h t)).bind F = (o.bind F).map (setCH · h t) := by
  cases o with
  | none => rfl
  | some st => simp only [Option.map_some, Option.bind_some, hF]

@[simp] theorem bind_burnValidators_setCH (o : Option State) :
    (o.map (setCH · h t)).bind burnValidators = (o.bind burnValidators).map (setCH · h t) :=
  bind_map_setCH h t o _ (fun st => burnValidators_setCH st h t)

theorem sigFold_setCH (votes : List Vote) (x : State) :
    votes.foldl (fun (st? : Option State) v => st?.bind fun st => handleSignature st v.addr v.power v.signed)
      (some (setCH x h t)) =
    (votes.foldl (fun (st? : Option State) v => st?.bind fun st => handleSignature st v.addr v.power v.signed)
      (some x)).map (setCH · h t) :=
  foldl_bind_setCH h t (fun st (v : Vote) => handleSignature st v.addr v.power v.signed)
    (fun st _ => handleSignature_setCH st h t _ _ _) votes (some x)

theorem dsFold_setCH (evs : List Evidence) (o : Option State) :
    evs.foldl (fun (st? : Option State) e => st?.bind fun st => handleDoubleSign st e.addr e.height e.time e.power)
      (o.map (setCH · h t)) =
    (evs.foldl (fun (st? : Option State) e => st?.bind fun st => handleDoubleSign st e.addr e.height e.time e.power)
      o).map (setCH · h t) :=
  foldl_bind_setCH h t (fun st (e : Evidence) => handleDoubleSign st e.addr e.height e.time e.power)
    (fun st _ => handleDoubleSign_setCH st h t _ _ _ _) evs o

@[simp] theorem beginBlock_setCH (time : Int) (proposer : Addr) (votes : List Vote) (evs : List Evidence) :
    beginBlock (setCH s h t) time proposer votes evs = (beginBlock s time proposer votes evs).map (setCH · h t) := by
  unfold beginBlock
  ch_norm [rewardFromFees_setCH, rewardFromFees2_setCH, mintAwards_setCH, bind_burnValidators_setCH]
  cases Option.bind _ burnValidators with
  | none => rfl
  | some s3 => ch_norm [sigFold_setCH, dsFold_setCH]

/-! EndBlock -/

theorem scanIndex_setCH (l : List (Int × Addr)) (n : Nat) (ups prev rem : List (Addr × Int)) (tot : Int) :
    scanIndex (setCH s h t) l n ups prev rem tot = scanIndex s l n ups prev rem tot := by
  induction l generalizing n ups prev rem tot with
  | nil => rfl
  | cons x tl ih =>
    obtain ⟨pw, a⟩ := x
    unfold scanIndex
    ch_norm [ih]

@[simp] theorem updateValidators_setCH :
    updateValidators (setCH s h t) = (updateValidators s).map (fun r => (setCH r.1 h t, r.2)) := by
  unfold updateValidators
  ch_norm [scanIndex_setCH]
  ch_auto

@[simp] theorem finishOne_setCH (a : Addr) : finishOne (setCH s h t) a = (finishOne s a).map (setCH · h t) := by
  unfold finishOne
  ch_norm []
  ch_step; · rfl
  ch_step; · rfl
  ch_step; · rfl
  cases send _ _ _ _ with
  | none => rfl
  | some s2 => ch_norm []

theorem finishFold_setCH (l : List Addr) (o : Option State) :
    l.foldl (fun (x? : Option State) a => x?.bind fun x => finishOne x a) (o.map (setCH · h t)) =
      (l.foldl (fun (x? : Option State) a => x?.bind fun x => finishOne x a) o).map (setCH · h t) :=
  foldl_bind_setCH h t (fun x a => finishOne x a) (fun st a => finishOne_setCH st h t a) l o

@[simp] theorem unstakeMature_setCH : unstakeMature (setCH s h t) = (unstakeMature s).map (setCH · h t) := by
  unfold unstakeMature
  ch_norm []
  rw [show some (setCH s h t) = (some s).map (setCH · h t) from rfl]
  apply foldl_opt_setCH
  intro o slot
  cases o with
  | none => rfl
  | some st =>
    simp only [Option.map_some, Option.bind_some]
    rw [show some (setCH st h t) = (some st).map (setCH · h t) from rfl, finishFold_setCH]
    cases List.foldl _ _ _ with
    | none => rfl
    | some x => ch_norm []

@[simp] theorem endBlock_setCH :
    endBlock (setCH s h t) = (endBlock s).map (fun r => (setCH r.1 h t, r.2)) := by
  unfold endBlock
  ch_norm [updateValidators_setCH]
  cases updateValidators s with
  | none => rfl
  | some r =>
    obtain ⟨s1, ups⟩ := r
    ch_norm [unstakeMature_setCH]
    cases unstakeMature s1 <;> rfl

@[simp] theorem applyParam_setCH (key val : String) :
    applyParam (setCH s h t) key val = setCH (applyParam s key val) h t := by
  unfold applyParam
  ch_norm []
  ch_auto


@[simp] theorem handle_setCH (m : Msg) : handle (setCH s h t) m = (handle s m).map (setCH · h t) := by
  cases m with
  | stake k amt =>
    unfold handle
    ch_norm []
    cases send _ _ _ _ with
    | none => ch_norm []; ch_auto
    | some s1 => ch_norm []; ch_auto
  | unstake a => unfold handle; ch_norm []; ch_auto
  | unjail a => unfold handle; ch_norm []; ch_auto
  | send src dst amt => unfold handle; ch_norm []
  | changeParam src key val => unfold handle; ch_norm [applyParam_setCH]; ch_auto
  | daoTransfer src dst amt => unfold handle; ch_norm []; ch_auto
  | daoBurn src amt => unfold handle; ch_norm []; ch_auto
  | upgrade src hh ver => unfold handle; ch_norm []; ch_auto

/-! transactions -/

@[simp] theorem signer_setCH (m : Msg) : m.signer (setCH s h t) = m.signer s := by cases m <;> rfl
@[simp] theorem sigValid_setCH (tx : Tx) (v : Addr) : tx.sigValid (setCH s h t) v = tx.sigValid s v := rfl

@[simp] theorem sigDepthOK_setCH (k : Nat) : sigDepthOK (setCH s h t) k = sigDepthOK s k := rfl

@[simp] theorem anteOK_setCH (tx : Tx) (sim : Bool) : anteOK (setCH s h t) tx sim = anteOK s tx sim := by
  unfold anteOK
  ch_norm [signer_setCH, sigValid_setCH, sigDepthOK_setCH]

theorem runTx_deliver_setCH (tx : Tx) :
    runTx (setCH s h t) .deliver tx = (setCH (runTx s .deliver tx).1 h t, (runTx s .deliver tx).2) := by
  unfold runTx
  ch_norm [signer_setCH, anteOK_setCH, handle_setCH]
  by_cases h1 : (tx.mutn == "trunc" || tx.mutn == "garbage") = true
  · simp only [if_pos h1]
  simp only [if_neg h1]
  by_cases h2 : (!tx.msg.basicOK) = true
  · simp only [if_pos h2]
  simp only [if_neg h2]
  by_cases h3 : (!anteOK s tx (Mode.deliver == Mode.simulate)) = true
  · simp only [if_pos h3]
  simp only [if_neg h3]
  cases handle _ _ <;> rfl

/-- a consensus request other than Commit carries the check-state header along unchanged -/
theorem step_setCH (op : Op) (hc : ∀ m tx, op = .tx m tx → m = .deliver) (hnc : op ≠ .commit) :
    step (setCH s h t) op = (step s op).map (fun r => (setCH r.1 h t, r.2)) := by
  cases op with
  | begin time proposer votes evs =>
    simp only [step, beginBlock_setCH]
    cases beginBlock s time proposer votes evs <;> rfl
  | endBlock =>
    simp only [step, endBlock_setCH]
    cases endBlock s <;> rfl
  | commit => exact absurd rfl hnc
  | award a amt => rfl
  | burn a raw => rfl
  | tx mode tx =>
    have := hc mode tx rfl
    subst this
    simp only [step, runTx_deliver_setCH]
    rfl

/-- Commit overwrites the check-state header -/
theorem step_commit_setCH : step (setCH s h t) .commit = step s .commit := rfl


/-! ### read-only requests -/

theorem runTx_readonly (s : State) (mode : Mode) (tx : Tx) (hm : mode ≠ .deliver) : (runTx s mode tx).1 = s := by
  unfold runTx
  split; · rfl
  split; · rfl
  split; · rfl
  cases mode <;> simp at hm ⊢

end Posmint.Chain.Replica
