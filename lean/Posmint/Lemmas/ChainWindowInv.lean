import Posmint.Lemmas.ChainInvC
import Posmint.Lemmas.ChainGenesis
/-!
The sliding-window relation `WinRel` as an invariant of every operation of the chain model
(helper lemmas for `Props/C08Global.lean`).
-/
namespace Posmint.Chain.WI
open Posmint.Chain

/-! ### the invariant on the raw components -/

/-- every signing info (with its bits) represents a history; bits exist only for addresses with a signing info -/
def WInv (w : Nat) (sign : List (Addr × Sign)) (bits : List ((Addr × Int) × Bool)) : Prop :=
  (∀ a si, aget sign a = some si → ∃ h : List Bool, WinRel w si bits a h) ∧
  (∀ e ∈ bits, (aget sign e.1.1).isSome)

/-- the invariant of a state (definitionally `WindowInv` of `Props/C08Global.lean`) -/
def SInv (s : State) : Prop := WInv s.p.window.toNat s.sign s.missedBits

/-- `WinRel` reads only the offset and the counter of the signing info -/
theorem winRel_sign_congr {w : Nat} {si si' : Sign} {bits : List ((Addr × Int) × Bool)} {a : Addr} {h : List Bool}
    (ho : si'.offset = si.offset) (hm : si'.missed = si.missed) (hr : WinRel w si bits a h) :
    WinRel w si' bits a h :=
  ⟨ho.trans hr.1, hm.trans hr.2.1, hr.2.2.1, hr.2.2.2⟩

/-- `WinRel` reads only the bits of its own address -/
theorem winRel_bits_congr {w : Nat} {si : Sign} {bits bits' : List ((Addr × Int) × Bool)} {b : Addr} {h : List Bool}
    (hg : ∀ i, bitGet bits' b i = bitGet bits b i) (hm : ∀ e ∈ bits', e.1.1 = b → e ∈ bits)
    (hr : WinRel w si bits b h) : WinRel w si bits' b h :=
  ⟨hr.1, hr.2.1, fun i hi => (hg _).trans (hr.2.2.1 i hi), fun e he hb => hr.2.2.2 e (hm e he hb) hb⟩

/-- a signing info with offset 0 and counter 0, without bits, represents the empty history -/
theorem winRel_init (w : Nat) (si : Sign) (bits : List ((Addr × Int) × Bool)) (a : Addr)
    (ho : si.offset = 0) (hm : si.missed = 0) (hb : ∀ e ∈ bits, e.1.1 ≠ a) : WinRel w si bits a [] := by
  refine ⟨by simp [ho], by simp [hm, C.lastW_nil], ?_, ?_⟩
  · intro i _
    rw [C.slotOf_nil]
    unfold bitGet
    have : bits.find? (fun e => e.1.1 == a && e.1.2 == (i : Int)) = none := by
      rw [List.find?_eq_none]
      intro e he
      have := hb e he
      simp [this]
    rw [this]
  · intro e he hea
    exact absurd hea (hb e he)

/-- the generic update: the signing info of `a` is (re)written, the bits of the other addresses stay -/
theorem winv_update {w : Nat} {sign : List (Addr × Sign)} {bits bits' : List ((Addr × Int) × Bool)} {a : Addr}
    {si' : Sign}
    (hget : ∀ b, b ≠ a → ∀ i, bitGet bits' b i = bitGet bits b i)
    (hmem : ∀ e ∈ bits', e.1.1 ≠ a → e ∈ bits)
    (hself : ∃ h : List Bool, WinRel w si' bits' a h)
    (hinv : WInv w sign bits) : WInv w (aset sign a si') bits' := by
  obtain ⟨h1, h2⟩ := hinv
  refine ⟨?_, ?_⟩
  · intro b sib hb
    rw [C.aget_aset] at hb
    split at hb
    · rename_i e; subst e; cases hb; exact hself
    · rename_i e
      have hne : b ≠ a := fun x => e x.symm
      obtain ⟨h, hr⟩ := h1 b sib hb
      exact ⟨h, winRel_bits_congr (hget b hne) (fun e he hb => hmem e he (hb ▸ hne)) hr⟩
  · intro e he
    rw [C.aget_aset]
    split
    · rfl
    · rename_i hne
      exact h2 e (hmem e he (fun x => hne x.symm))

/-- no bits are stored for an address without a signing info -/
theorem winv_no_bits {w : Nat} {sign : List (Addr × Sign)} {bits : List ((Addr × Int) × Bool)} {a : Addr}
    (hinv : WInv w sign bits) (hn : aget sign a = none) : ∀ e ∈ bits, e.1.1 ≠ a := by
  intro e he hea
  have := hinv.2 e he
  rw [hea, hn] at this
  cases this

/-! ### the window frame -/

/-- the operation leaves signing infos, missed bits and the window parameter alone -/
structure WFrame (s s' : State) : Prop where
  sign : s'.sign = s.sign
  bits : s'.missedBits = s.missedBits
  win : s'.p.window = s.p.window

theorem WFrame.refl (s : State) : WFrame s s := ⟨rfl, rfl, rfl⟩

theorem WFrame.trans {s1 s2 s3 : State} (h1 : WFrame s1 s2) (h2 : WFrame s2 s3) : WFrame s1 s3 :=
  ⟨h2.sign.trans h1.sign, h2.bits.trans h1.bits, h2.win.trans h1.win⟩

theorem WFrame.of_frame {s s' : State} (h : C.Frame s s') : WFrame s s' :=
  ⟨h.sign, h.bits, by rw [h.p]⟩

theorem WFrame.sinv {s s' : State} (h : WFrame s s') (hi : SInv s) : SInv s' := by
  unfold SInv at *
  rw [h.sign, h.bits, h.win]; exact hi

/-- what is carried through the sub-steps of an operation started in `s0` -/
def Keeps (s0 s : State) : Prop := SInv s ∧ s.p.window = s0.p.window

theorem Keeps.frame {s0 s s' : State} (hk : Keeps s0 s) (h : WFrame s s') : Keeps s0 s' :=
  ⟨h.sinv hk.1, h.win.trans hk.2⟩

theorem send_getD_wframe (s : State) (a b : Addr) (x : Int) : WFrame s ((send s a b x).getD s) := by
  cases h : send s a b x with
  | none => exact WFrame.refl s
  | some s' => exact WFrame.of_frame (C.send_frame _ _ _ _ _ h)

theorem rewardFromFees_wframe (s : State) : WFrame s (rewardFromFees s) := by
  unfold rewardFromFees
  simp only []
  split
  · exact WFrame.refl s
  · rename_i s1 h1
    have hs1 := WFrame.of_frame (C.send_frame _ _ _ _ _ h1)
    split
    · exact hs1.trans (send_getD_wframe _ _ _ _)
    · exact hs1

theorem send2_getD_wframe (s : State) (a b : Addr) (x : Int) : WFrame s ((send2 s a b x).getD s) :=
  ⟨F2.sign_send2_getD .., F2.missedBits_send2_getD .., by rw [F2.p_send2_getD]⟩

theorem rewardFromFees2_wframe (s : State) : WFrame s (rewardFromFees2 s) :=
  ⟨F2.sign_rewardFromFees2 _, F2.missedBits_rewardFromFees2 _, by rw [F2.p_rewardFromFees2]⟩

theorem mintAwards_wframe (s s' : State) (h : mintAwards s = some s') : WFrame s s' := by
  unfold mintAwards at h
  split at h
  · cases h
  · simp only [] at h
    injection h with h
    subst h
    have := C.foldl_inv (fun st => WFrame s st)
      (fun st (e : Addr × Int) => (send (mint st st.pool e.2) (mint st st.pool e.2).pool e.1 e.2).getD (mint st st.pool e.2))
      (fun st e hst => (hst.trans (WFrame.of_frame (C.mint_frame st st.pool e.2))).trans (send_getD_wframe _ _ _ _))
      s.awards s (WFrame.refl s)
    exact this.trans ⟨rfl, rfl, rfl⟩

theorem burnValidators_wframe (s s' : State) (h : burnValidators s = some s') : WFrame s s' := by
  unfold burnValidators at h
  simp only [Option.map_eq_some_iff] at h
  obtain ⟨st, hst, rfl⟩ := h
  have := C.foldl_opt_inv (fun st => WFrame s st) _ (fun _ => rfl) ?_ s.burns (some s) st
    (fun s0 h0 => by cases h0; exact WFrame.refl s) hst
  · exact this.trans ⟨rfl, rfl, rfl⟩
  · intro s1 e s2 hs1 he
    simp only [] at he
    split at he
    · cases he
    · split at he
      · cases he
      · cases he; exact hs1.trans (WFrame.of_frame (C.slash_frame _ _ _ _ _))

theorem updateValidators_wframe (s s' : State) (ups : List (Addr × Int))
    (h : updateValidators s = some (s', ups)) : WFrame s s' := by
  unfold updateValidators at h
  split at h
  · cases h
  · split at h
    · cases h
    · simp only [] at h
      injection h with h
      injection h with h1 h2
      subst h1
      exact ⟨rfl, rfl, rfl⟩

theorem finishOne_wframe (s s' : State) (a : Addr) (h : finishOne s a = some s') : WFrame s s' := by
  unfold finishOne at h
  split at h
  · cases h; exact WFrame.refl s
  · split at h
    · cases h; exact WFrame.refl s
    · split at h
      · cases h
      · simp only [] at h
        split at h
        · cases h
        · rename_i s2 hs
          cases h
          have hf := WFrame.of_frame ((C.dequeue_frame s a _).trans (C.send_frame _ _ _ _ _ hs))
          exact hf.trans ⟨rfl, rfl, rfl⟩

theorem unstakeMature_wframe (s s' : State) (h : unstakeMature s = some s') : WFrame s s' := by
  unfold unstakeMature at h
  simp only [] at h
  refine C.foldl_opt_inv (fun st => WFrame s st) _ (fun _ => rfl) ?_ _ (some s) s'
    (fun s0 h0 => by cases h0; exact WFrame.refl s) h
  intro s1 slot s2 hs1 he
  simp only [Option.bind_some, Option.map_eq_some_iff] at he
  obtain ⟨x, hx, rfl⟩ := he
  have := C.foldl_opt_inv (fun st => WFrame s st) _ (fun _ => rfl) ?_ slot.2 (some s1) x
    (fun s0 h0 => by cases h0; exact hs1) hx
  · exact this.trans ⟨rfl, rfl, rfl⟩
  · intro s3 a s4 hs3 he
    simp only [Option.bind_some] at he
    exact hs3.trans (finishOne_wframe _ _ _ he)

theorem endBlock_wframe (s s' : State) (ups : List (Addr × Int)) (h : endBlock s = some (s', ups)) :
    WFrame s s' := by
  unfold endBlock at h
  split at h
  · cases h
  · rename_i s1 ups1 h1
    simp only [Option.map_eq_some_iff] at h
    obtain ⟨s2, h2, he⟩ := h
    injection he with he1 he2
    subst he1
    exact (updateValidators_wframe _ _ _ h1).trans (unstakeMature_wframe _ _ h2)

/-! ### `handleSignature` -/

theorem handleSignature_winv (s s' : State) (a : Addr) (pw : Int) (signed : Bool) (w : Nat)
    (hwp : s.p.window = (w : Int)) (hinv : WInv w s.sign s.missedBits)
    (hstep : handleSignature s a pw signed = some s') :
    WInv w s'.sign s'.missedBits ∧ s'.p.window = s.p.window := by
  rw [C.handleSignature_eq] at hstep
  split at hstep
  · cases hstep
  split at hstep
  · cases hstep
  rename_i si hsi
  split at hstep
  · cases hstep
  rename_i hwpos
  have hw : 0 < w := by omega
  simp only [] at hstep
  rw [hwp] at hstep
  obtain ⟨h0, hrel⟩ := hinv.1 a si hsi
  have hr := C.winUpd_rel w hw si s.missedBits a h0 signed hrel
  obtain ⟨hb1, _, hb3⟩ := C.winUpd_spec s.missedBits a si (w : Int) signed
  generalize C.winUpd s.missedBits a si (w : Int) signed = r at hstep hr hb1 hb3
  have hget : ∀ b, b ≠ a → ∀ i, bitGet r.1 b i = bitGet s.missedBits b i := by
    intro b hb i
    rw [hb1, if_neg (fun h => hb h.1.symm)]
  have hmem : ∀ e ∈ r.1, e.1.1 ≠ a → e ∈ s.missedBits := by
    intro e he hea
    rcases hb3 e he with h | h
    · subst h; exact absurd rfl hea
    · exact h
  have hadv : ∀ s'', some (C.sigAdvance s a si r) = some s'' →
      WInv w s''.sign s''.missedBits ∧ s''.p.window = s.p.window := by
    intro s'' h
    injection h with h
    subst h
    exact ⟨winv_update hget hmem ⟨_, hr⟩ hinv, rfl⟩
  split at hstep
  · split at hstep
    · split at hstep
      · split at hstep
        · cases hstep
        · rename_i s3 hjail
          injection hstep with hstep
          subst hstep
          have hf := (C.slash_frame { s with missedBits := r.1 } a (s.height - 1 - 1) pw s.p.sfDown).trans
            (C.jail_frame _ _ _ hjail)
          refine ⟨?_, by show s3.p.window = _; rw [hf.p]⟩
          show WInv w (aset s3.sign a _) (s3.missedBits.filter (fun e => e.1.1 != a))
          rw [hf.sign, hf.bits]
          show WInv w (aset s.sign a _) (r.1.filter (fun e => e.1.1 != a))
          refine winv_update ?_ ?_ ⟨[], winRel_init w _ _ a rfl rfl ?_⟩ hinv
          · intro b hb i
            rw [C.bitGet_filter_ne _ _ _ _ (fun x => hb x.symm)]
            exact hget b hb i
          · intro e he hea
            exact hmem e (List.mem_filter.1 he).1 hea
          · intro e he
            simp only [List.mem_filter, bne_iff_ne, ne_eq] at he
            exact he.2
      · exact hadv _ hstep
    · exact hadv _ hstep
  · exact hadv _ hstep

theorem handleSignature_keeps (s0 s s' : State) (a : Addr) (pw : Int) (signed : Bool)
    (hw : 0 < s0.p.window) (hk : Keeps s0 s) (hstep : handleSignature s a pw signed = some s') : Keeps s0 s' := by
  obtain ⟨h1, h2⟩ := hk
  have hwp : s.p.window = ((s.p.window.toNat : Nat) : Int) := by
    rw [Int.toNat_of_nonneg]; omega
  obtain ⟨r1, r2⟩ := handleSignature_winv s s' a pw signed _ hwp h1 hstep
  refine ⟨?_, r2.trans h2⟩
  unfold SInv
  rw [r2]; exact r1

/-! ### `handleDoubleSign` -/

theorem handleDoubleSign_keeps (s0 s s' : State) (a : Addr) (ih et pw : Int)
    (hk : Keeps s0 s) (h : handleDoubleSign s a ih et pw = some s') : Keeps s0 s' := by
  unfold handleDoubleSign at h
  split at h
  · cases h
  split at h
  · cases h; exact hk
  split at h
  · cases h
  rename_i v hv
  split at h
  · cases h
  split at h
  · cases h
  rename_i si hsi
  split at h
  · cases h
  split at h
  · cases h
  simp only [] at h
  have hsl := C.slash_frame s a (ih - 1) pw s.p.sfDouble
  generalize slash s a (ih - 1) pw s.p.sfDouble = s1 at h hsl
  split at h
  · cases h
  rename_i s2 hs2
  split at h
  · cases h
  rename_i v2 hv2
  injection h with h
  subst h
  have h12 : C.Frame s1 s2 := by
    by_cases hj : (!v.jailed) = true
    · rw [if_pos hj] at hs2; exact C.jail_frame _ _ _ hs2
    · rw [if_neg hj] at hs2; cases hs2; exact C.Frame.refl _
  have h3 : C.Frame s (forceUnstake s2 a v2) := (hsl.trans h12).trans (C.forceUnstake_frame _ _ _)
  obtain ⟨k1, k2⟩ := hk
  refine ⟨?_, ?_⟩
  · show WInv _ (aset (forceUnstake s2 a v2).sign a _) (forceUnstake s2 a v2).missedBits
    have e : (forceUnstake s2 a v2).p.window = s.p.window := by rw [h3.p]
    show WInv (forceUnstake s2 a v2).p.window.toNat _ _
    rw [e, h3.sign, h3.bits]
    obtain ⟨h0, hrel⟩ := k1.1 a si hsi
    exact winv_update (fun _ _ _ => rfl) (fun _ he _ => he) ⟨h0, winRel_sign_congr rfl rfl hrel⟩ k1
  · show (forceUnstake s2 a v2).p.window = _
    rw [h3.p]; exact k2

/-! ### BeginBlock -/

theorem beginBlock_keeps (s s' : State) (time : Int) (proposer : Addr) (votes : List Vote) (evs : List Evidence)
    (hw : 0 < s.p.window) (hi : SInv s) (h : beginBlock s time proposer votes evs = some s') : Keeps s s' := by
  unfold beginBlock at h
  simp only [] at h
  split at h
  · cases h
  rename_i s3 h3
  have h0 : WFrame s { s with height := s.height + 1, time := time } := ⟨rfl, rfl, rfl⟩
  have h1 : WFrame s (if ({ s with height := s.height + 1, time := time } : State).height > 1
      then rewardFromFees2 (rewardFromFees { s with height := s.height + 1, time := time })
      else { s with height := s.height + 1, time := time }) := by
    split
    · exact (h0.trans (rewardFromFees_wframe _)).trans (rewardFromFees2_wframe _)
    · exact h0
  generalize (if ({ s with height := s.height + 1, time := time } : State).height > 1
      then rewardFromFees2 (rewardFromFees { s with height := s.height + 1, time := time })
      else { s with height := s.height + 1, time := time }) = s1 at h1 h3
  rw [Option.bind_eq_some_iff] at h3
  obtain ⟨s2, hm, hb⟩ := h3
  have h3' : WFrame s s3 := (h1.trans (mintAwards_wframe _ _ hm)).trans (burnValidators_wframe _ _ hb)
  have h4 : Keeps s { s3 with proposer := proposer } :=
    Keeps.frame ⟨hi, rfl⟩ (h3'.trans ⟨rfl, rfl, rfl⟩)
  refine C.foldl_opt_inv (Keeps s) _ (fun _ => rfl) ?_ evs _ s' ?_ h
  · intro st e st' hst he
    simp only [Option.bind_some] at he
    exact handleDoubleSign_keeps _ _ _ _ _ _ _ hst he
  · intro s5 h5
    refine C.foldl_opt_inv (Keeps s) _ (fun _ => rfl) ?_ votes _ s5 ?_ h5
    · intro st v st' hst he
      simp only [Option.bind_some] at he
      exact handleSignature_keeps _ _ _ _ _ _ hw hst he
    · intro s0 e0; cases e0; exact h4

/-! ### message handlers -/

theorem applyParam_wframe (s : State) (key val : String) (hk : key ≠ "pos/SignedBlocksWindow") :
    WFrame s (applyParam s key val) := by
  unfold applyParam
  split
  all_goals first
    | exact absurd rfl hk
    | exact WFrame.refl s
    | (split <;> first | exact WFrame.refl s | exact ⟨rfl, rfl, rfl⟩)

theorem handle_stake_tail (s s' : State) (a : Addr) (v : Val) (amt : Int) (hi : SInv s)
    (h : (if amt < s.p.minStake then none
      else if balOf s a < amt then none
      else
        match send { s with rel := if s.rel.contains a then s.rel else a :: s.rel } a s.pool amt with
        | none => none
        | some s1 =>
          if (!v.jailed && !Arith.isInt64 (power (v.tokens + amt))) = true then none else
          some (if (aget (setStaked (setVal s1 a { v with tokens := v.tokens + amt, status := 2 }) a
                    { v with tokens := v.tokens + amt, status := 2 }).sign a).isSome
                then setStaked (setVal s1 a { v with tokens := v.tokens + amt, status := 2 }) a
                    { v with tokens := v.tokens + amt, status := 2 }
                else { setStaked (setVal s1 a { v with tokens := v.tokens + amt, status := 2 }) a
                    { v with tokens := v.tokens + amt, status := 2 } with
                  sign := aset (setStaked (setVal s1 a { v with tokens := v.tokens + amt, status := 2 }) a
                    { v with tokens := v.tokens + amt, status := 2 }).sign a
                      { start := s.height, offset := 0, missed := 0, jailedUntil := 0, tomb := false } })) = some s') :
    Keeps s s' := by
  split at h
  · cases h
  split at h
  · cases h
  split at h
  · cases h
  rename_i s1 hs1
  split at h
  · cases h
  injection h with h
  have hf := C.send_frame _ _ _ _ _ hs1
  have hsign1 : s1.sign = s.sign := hf.sign
  have hbits1 : s1.missedBits = s.missedBits := hf.bits
  have hp1 : s1.p = s.p := hf.p
  generalize ({ v with tokens := v.tokens + amt, status := 2 } : Val) = v1 at h
  have hf2 := (C.setVal_frame s1 a v1).trans (C.setStaked_frame _ a v1)
  have hs2sign : (setStaked (setVal s1 a v1) a v1).sign = s.sign := hf2.sign.trans hsign1
  have hs2bits : (setStaked (setVal s1 a v1) a v1).missedBits = s.missedBits := hf2.bits.trans hbits1
  have hs2p : (setStaked (setVal s1 a v1) a v1).p = s.p := hf2.p.trans hp1
  generalize setStaked (setVal s1 a v1) a v1 = s2 at h hs2sign hs2bits hs2p
  have hwf : WFrame s s2 := ⟨hs2sign, hs2bits, by rw [hs2p]⟩
  cases hsa : aget s.sign a with
  | some si =>
    rw [hs2sign, hsa] at h
    simp only [Option.isSome_some, if_true] at h
    subst h
    exact Keeps.frame ⟨hi, rfl⟩ hwf
  | none =>
    rw [hs2sign, hsa] at h
    simp only [Option.isSome_none, Bool.false_eq_true, if_false] at h
    subst h
    refine ⟨?_, by show s2.p.window = _; rw [hs2p]⟩
    show WInv s2.p.window.toNat (aset s.sign a _) s2.missedBits
    rw [hs2p, hs2bits]
    exact winv_update (fun _ _ _ => rfl) (fun _ he _ => he)
      ⟨[], winRel_init _ _ _ a rfl rfl (winv_no_bits hi hsa)⟩ hi

theorem handle_stake_keeps (s s' : State) (k : Nat) (amt : Int) (hi : SInv s)
    (h : handle s (.stake k amt) = some s') : Keeps s s' := by
  unfold handle at h
  simp only [] at h
  split at h
  · cases h
  generalize keyAddr s k = a at h
  generalize (aget s.vals a).getD { status := 0, jailed := false, tokens := 0, unstake := 0 } = v at h
  split at h
  · cases h
  cases hsa : aget s.sign a with
  | none =>
    rw [hsa] at h
    simp only [Bool.false_eq_true, if_false] at h
    exact handle_stake_tail s s' a v amt hi h
  | some si =>
    rw [hsa] at h
    simp only [] at h
    split at h
    · cases h
    exact handle_stake_tail s s' a v amt hi h

theorem handle_keeps (s s' : State) (m : Msg) (hi : SInv s)
    (hk : match m with | .changeParam _ key _ => key ≠ "pos/SignedBlocksWindow" | _ => True)
    (h : handle s m = some s') : Keeps s s' := by
  have base : Keeps s s := ⟨hi, rfl⟩
  cases m with
  | stake k amt => exact handle_stake_keeps s s' k amt hi h
  | unstake a =>
    unfold handle at h
    simp only [] at h
    split at h
    · cases h
    split at h
    · cases h
    split at h
    · cases h
    split at h
    · cases h
    injection h with h
    subst h
    exact base.frame ⟨rfl, rfl, rfl⟩
  | unjail a =>
    unfold handle at h
    simp only [] at h
    split at h
    · cases h
    rename_i v hv
    split at h
    · cases h
    split at h
    · cases h
    split at h
    · cases h
    split at h
    · cases h
    split at h
    · cases h
    split at h
    · cases h
    injection h with h
    subst h
    exact base.frame (WFrame.of_frame
      ((C.setVal_frame s a { v with jailed := false }).trans (C.setStaked_frame _ a { v with jailed := false })))
  | send src dst amt =>
    unfold handle at h
    exact base.frame (WFrame.of_frame (C.send_frame _ _ _ _ _ h))
  | changeParam src key val =>
    unfold handle at h
    simp only [] at h
    split at h
    · cases h
    · split at h
      · cases h
      · cases h; exact base.frame (applyParam_wframe s key val hk)
  | daoTransfer src dst amt =>
    unfold handle at h
    simp only [] at h
    split at h
    · cases h
    · split at h
      · cases h
      · exact base.frame (WFrame.of_frame (C.send_frame _ _ _ _ _ h))
  | daoBurn src amt =>
    unfold handle at h
    simp only [] at h
    split at h
    · cases h
    · split at h
      · cases h
      · exact base.frame (WFrame.of_frame (C.burnFrom_frame _ _ _ _ h))
  | upgrade src hh ver =>
    unfold handle at h
    simp only [] at h
    split at h
    · cases h
    · split at h
      · cases h
      · cases h; exact base

theorem runTx_keeps (s : State) (mode : Mode) (t : Tx) (hi : SInv s)
    (hk : match t.msg with | .changeParam _ key _ => key ≠ "pos/SignedBlocksWindow" | _ => True) :
    Keeps s (runTx s mode t).1 := by
  have base : Keeps s s := ⟨hi, rfl⟩
  unfold runTx
  split; · exact base
  split; · exact base
  split; · exact base
  simp only []
  have ha : Keeps s ((send2 ((send s (t.msg.signer s) s.feeAcc t.feeEff).getD s) (t.msg.signer s) s.feeAcc t.fee2).getD
      ((send s (t.msg.signer s) s.feeAcc t.feeEff).getD s)) :=
    base.frame ((send_getD_wframe _ _ _ _).trans (send2_getD_wframe _ _ _ _))
  cases mode with
  | check => exact base
  | simulate => exact base
  | deliver =>
    simp only []
    cases hh : handle ((send2 ((send s (t.msg.signer s) s.feeAcc t.feeEff).getD s) (t.msg.signer s) s.feeAcc t.fee2).getD
      ((send s (t.msg.signer s) s.feeAcc t.feeEff).getD s)) t.msg with
    | none => exact ha
    | some s' =>
      have := handle_keeps _ _ _ ha.1 hk hh
      exact ⟨this.1, this.2.trans ha.2⟩

/-! ### genesis -/

open ChainGenesis in
theorem genesis_fresh (g : Genesis) (hs : g.signing = []) (hm : g.missed = []) :
    (gPre g).missedBits = [] ∧ ∀ e ∈ (gPre g).sign, e.2.offset = 0 ∧ e.2.missed = 0 := by
  have hacc : ∀ (l : List (Addr × Int)) (st : State), st.missedBits = [] → st.sign = [] →
      (l.foldl accStep st).missedBits = [] ∧ (l.foldl accStep st).sign = [] := by
    intro l
    induction l with
    | nil => intro st h1 h2; exact ⟨h1, h2⟩
    | cons x rest ih => intro st h1 h2; exact ih _ h1 h2
  have hval : ∀ (l : List (Addr × Int)) (st : State), st.missedBits = [] →
      (∀ e ∈ st.sign, e.2.offset = 0 ∧ e.2.missed = 0) →
      (l.foldl valStep st).missedBits = [] ∧ ∀ e ∈ (l.foldl valStep st).sign, e.2.offset = 0 ∧ e.2.missed = 0 := by
    intro l
    induction l with
    | nil => intro st h1 h2; exact ⟨h1, h2⟩
    | cons x rest ih =>
      intro st h1 h2
      simp only [List.foldl_cons]
      apply ih
      · rw [valStep_eq]; exact h1
      · rw [valStep_eq]
        intro e he
        rcases C.mem_aset _ _ _ _ he with h | h
        · subst h; exact ⟨rfl, rfl⟩
        · exact h2 e h
  obtain ⟨a1, a2⟩ := hacc g.accs (gInit g) rfl rfl
  obtain ⟨b1, b2⟩ := hval g.vals _ a1 (by rw [a2]; simp)
  unfold gPre ovrStep
  simp only [hs, hm, List.foldl_nil]
  exact ⟨b1, b2⟩

open ChainGenesis in
theorem genesis_sinv (g : Genesis) (hg : GenesisOK g) (hs : g.signing = []) (hm : g.missed = []) :
    SInv (genesis g).1 ∧ (genesis g).1.p.window = g.p.window := by
  obtain ⟨taken, t, h1, _, _, _⟩ := genesis_shape g hg
  obtain ⟨f1, f2⟩ := genesis_fresh g hs hm
  have hp := (ginv_pre g hg).p
  rw [h1]
  refine ⟨?_, by show (gPre g).p.window = _; rw [hp]⟩
  show WInv _ (gPre g).sign (gPre g).missedBits
  rw [f1]
  refine ⟨?_, by simp⟩
  intro a si hsi
  have := f2 _ (C.aget_mem _ _ _ hsi)
  exact ⟨[], winRel_init _ si [] a this.1 this.2 (by simp)⟩

end Posmint.Chain.WI
