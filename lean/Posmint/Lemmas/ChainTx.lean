import Posmint.Model.ChainSpec
import Posmint.Lemmas.ChainFrame2
/-!
Association-list and bank algebra used by the transaction-level properties (C03, C11, C17) and by
the genesis lemmas: `aget` after `aset` / `adel`, preservation of `KeysAsc`, sums, `balOf` after
`setBal` / `send` / `burnFrom` / `mint`.

Everything lives in the sub-namespace `Posmint.Chain.ChainTx` so that the names cannot clash with
the helper lemmas of the files proving the `step_*` theorems.
-/
namespace Posmint.Chain.ChainTx
open Posmint.Chain Posmint.Chain.F2

/-! ### strings -/

theorem str_lt_of_not {a b : String} (h1 : ¬ a < b) (h2 : a ≠ b) : b < a := by
  rcases Std.lt_trichotomy a b with h | h | h
  · exact absurd h h1
  · exact absurd h h2
  · exact h

theorem str_ne_of_lt {a b : String} (h : a < b) : a ≠ b := by
  intro e; subst e; exact String.lt_irrefl _ h

/-! ### `aget` / `aset` / `adel` -/

variable {α : Type}

@[simp] theorem aget_nil (q : Addr) : aget ([] : List (Addr × α)) q = none := rfl

theorem aget_cons (k : Addr) (v : α) (l : List (Addr × α)) (q : Addr) :
    aget ((k, v) :: l) q = if k = q then some v else aget l q := by
  simp [aget]

theorem aget_aset (l : List (Addr × α)) (k q : Addr) (v : α) :
    aget (aset l k v) q = if k = q then some v else aget l q := by
  induction l with
  | nil => simp [aset, aget]
  | cons x rest ih =>
    obtain ⟨k', v'⟩ := x
    simp only [aset]
    split
    · simp [aget]
    · split
      · rename_i h1 h2
        have : k = k' := by simpa using h2
        subst this
        simp only [aget_cons]
        split <;> rfl
      · rename_i h1 h2
        have hne : ¬ k = k' := by simpa using h2
        simp only [aget_cons, ih]
        by_cases hq : k' = q
        · subst hq; simp [hne]
        · simp [hq]

theorem aget_aset_self (l : List (Addr × α)) (k : Addr) (v : α) : aget (aset l k v) k = some v := by
  simp [aget_aset]

theorem aget_aset_ne (l : List (Addr × α)) {k q : Addr} (v : α) (h : k ≠ q) :
    aget (aset l k v) q = aget l q := by
  simp [aget_aset, h]

theorem mem_aset {l : List (Addr × α)} {k : Addr} {v : α} {e : Addr × α} (h : e ∈ aset l k v) :
    e = (k, v) ∨ e ∈ l := by
  induction l with
  | nil => simp [aset] at h; exact Or.inl h
  | cons x rest ih =>
    obtain ⟨k', v'⟩ := x
    simp only [aset] at h
    split at h
    · simp at h; rcases h with h | h | h <;> simp [h]
    · split at h
      · simp at h; rcases h with h | h <;> simp [h]
      · simp at h
        rcases h with h | h
        · simp [h]
        · rcases ih h with h | h <;> simp [h]

theorem mem_aset_self (l : List (Addr × α)) (k : Addr) (v : α) : (k, v) ∈ aset l k v := by
  induction l with
  | nil => simp [aset]
  | cons x rest ih =>
    obtain ⟨k', v'⟩ := x
    simp only [aset]
    split
    · simp
    · split
      · simp
      · simp [ih]

theorem keysAsc_aset {l : List (Addr × α)} (h : KeysAsc l) (k : Addr) (v : α) : KeysAsc (aset l k v) := by
  induction l with
  | nil => simp [aset, KeysAsc]
  | cons x rest ih =>
    obtain ⟨k', v'⟩ := x
    unfold KeysAsc at h ih ⊢
    rw [List.pairwise_cons] at h
    simp only [aset]
    split
    · rename_i hlt
      rw [List.pairwise_cons]
      refine ⟨?_, List.pairwise_cons.2 h⟩
      intro e he
      simp at he
      rcases he with he | he
      · subst he; exact hlt
      · exact String.lt_trans hlt (h.1 e he)
    · split
      · rename_i h1 h2
        have : k = k' := by simpa using h2
        subst this
        rw [List.pairwise_cons]
        exact ⟨h.1, h.2⟩
      · rename_i h1 h2
        have hne : ¬ k = k' := by simpa using h2
        have hlt : k' < k := str_lt_of_not h1 hne
        rw [List.pairwise_cons]
        refine ⟨?_, ih h.2⟩
        intro e he
        rcases mem_aset he with he | he
        · subst he; exact hlt
        · exact h.1 e he

theorem adel_sublist (l : List (Addr × α)) (k : Addr) : List.Sublist (adel l k) l := by
  induction l with
  | nil => simp [adel]
  | cons x rest ih =>
    obtain ⟨k', v'⟩ := x
    simp only [adel]
    split
    · exact List.sublist_cons_self _ _
    · exact List.Sublist.cons_cons _ ih

theorem mem_adel {l : List (Addr × α)} {k : Addr} {e : Addr × α} (h : e ∈ adel l k) : e ∈ l :=
  (adel_sublist l k).subset h

theorem keysAsc_adel {l : List (Addr × α)} (h : KeysAsc l) (k : Addr) : KeysAsc (adel l k) :=
  List.Pairwise.sublist (adel_sublist l k) h

theorem aget_eq_none_of_lt {l : List (Addr × α)} {k : Addr} (h : ∀ e ∈ l, k < e.1) : aget l k = none := by
  induction l with
  | nil => rfl
  | cons x rest ih =>
    obtain ⟨k', v'⟩ := x
    have h1 : k < k' := h (k', v') (by simp)
    rw [aget_cons, if_neg (fun e => str_ne_of_lt h1 e.symm)]
    exact ih (fun e he => h e (by simp [he]))

theorem aget_adel_ne (l : List (Addr × α)) {k q : Addr} (h : k ≠ q) : aget (adel l k) q = aget l q := by
  induction l with
  | nil => rfl
  | cons x rest ih =>
    obtain ⟨k', v'⟩ := x
    simp only [adel]
    split
    · rename_i h2
      have : k = k' := by simpa using h2
      subst this
      simp [aget_cons, h]
    · simp [aget_cons, ih]

theorem aget_adel_self {l : List (Addr × α)} (h : KeysAsc l) (k : Addr) : aget (adel l k) k = none := by
  induction l with
  | nil => rfl
  | cons x rest ih =>
    obtain ⟨k', v'⟩ := x
    unfold KeysAsc at h ih
    rw [List.pairwise_cons] at h
    simp only [adel]
    split
    · rename_i h2
      have : k = k' := by simpa using h2
      subst this
      exact aget_eq_none_of_lt (fun e he => h.1 e he)
    · rename_i h2
      have hne : ¬ k = k' := by simpa using h2
      rw [aget_cons, if_neg (fun e => hne e.symm)]
      exact ih h.2

theorem aget_adel {l : List (Addr × α)} (h : KeysAsc l) (k q : Addr) :
    aget (adel l k) q = if k = q then none else aget l q := by
  by_cases hq : k = q
  · subst hq; simp [aget_adel_self h]
  · simp [hq, aget_adel_ne l hq]

theorem mem_of_aget {l : List (Addr × α)} {k : Addr} {v : α} (h : aget l k = some v) : (k, v) ∈ l := by
  induction l with
  | nil => simp at h
  | cons x rest ih =>
    obtain ⟨k', v'⟩ := x
    rw [aget_cons] at h
    split at h
    · rename_i hk; subst hk; simp at h; simp [h]
    · simp [ih h]

theorem aget_of_mem {l : List (Addr × α)} (hl : KeysAsc l) {k : Addr} {v : α} (h : (k, v) ∈ l) :
    aget l k = some v := by
  induction l with
  | nil => simp at h
  | cons x rest ih =>
    obtain ⟨k', v'⟩ := x
    unfold KeysAsc at hl ih
    rw [List.pairwise_cons] at hl
    rw [aget_cons]
    simp at h
    rcases h with h | h
    · simp [h.1, h.2]
    · have := hl.1 _ h
      rw [if_neg (str_ne_of_lt this)]
      exact ih hl.2 h

theorem aget_isSome_iff_mem_keys (l : List (Addr × α)) (k : Addr) :
    (aget l k).isSome = true ↔ k ∈ l.map (·.1) := by
  induction l with
  | nil => simp
  | cons x rest ih =>
    obtain ⟨k', v'⟩ := x
    rw [aget_cons]
    by_cases hk : k' = k
    · simp [hk]
    · have hk' : ¬ k = k' := fun e => hk e.symm
      simp only [if_neg hk, ih, List.map_cons, List.mem_cons, hk', false_or]

/-! ### sums over integer-valued maps -/

def vsum (l : List (Addr × Int)) : Int := (l.map (·.2)).sum

@[simp] theorem vsum_nil : vsum [] = 0 := rfl
@[simp] theorem vsum_cons (x : Addr × Int) (l : List (Addr × Int)) : vsum (x :: l) = x.2 + vsum l := by
  simp [vsum]

theorem vsum_aset {l : List (Addr × Int)} (h : KeysAsc l) (k : Addr) (v : Int) :
    vsum (aset l k v) = vsum l - (aget l k).getD 0 + v := by
  induction l with
  | nil => simp [aset]
  | cons x rest ih =>
    obtain ⟨k', v'⟩ := x
    unfold KeysAsc at h ih
    rw [List.pairwise_cons] at h
    simp only [aset]
    split
    · rename_i hlt
      have : aget ((k', v') :: rest) k = none := by
        apply aget_eq_none_of_lt
        intro e he
        simp at he
        rcases he with he | he
        · subst he; exact hlt
        · exact String.lt_trans hlt (h.1 e he)
      simp [this]; omega
    · split
      · rename_i h1 h2
        have : k = k' := by simpa using h2
        subst this
        simp [aget_cons]; omega
      · rename_i h1 h2
        have hne : ¬ k = k' := by simpa using h2
        have hne' : ¬ k' = k := fun e => hne e.symm
        simp [aget_cons, hne', ih h.2]; omega

theorem vsum_adel {l : List (Addr × Int)} (h : KeysAsc l) (k : Addr) :
    vsum (adel l k) = vsum l - (aget l k).getD 0 := by
  induction l with
  | nil => simp [adel]
  | cons x rest ih =>
    obtain ⟨k', v'⟩ := x
    unfold KeysAsc at h ih
    rw [List.pairwise_cons] at h
    simp only [adel]
    split
    · rename_i h2
      have : k = k' := by simpa using h2
      subst this
      simp [aget_cons]; omega
    · rename_i h2
      have hne : ¬ k = k' := by simpa using h2
      have hne' : ¬ k' = k := fun e => hne e.symm
      simp [aget_cons, hne', ih h.2]; omega

/-! ### bank -/

theorem sumBal_eq (s : State) : sumBal s = vsum s.bal := rfl

theorem balOf_setBal {s : State} (h : KeysAsc s.bal) (a q : Addr) (x : Int) :
    balOf (setBal s a x) q = if a = q then x else balOf s q := by
  unfold balOf setBal
  by_cases hx : x = 0
  · subst hx
    simp [aget_adel h]
    split <;> simp
  · simp [hx, aget_aset]
    split <;> simp

theorem keysAsc_setBal {s : State} (h : KeysAsc s.bal) (a : Addr) (x : Int) : KeysAsc (setBal s a x).bal := by
  unfold setBal
  simp only
  split
  · exact keysAsc_adel h a
  · exact keysAsc_aset h a x

theorem sumBal_setBal {s : State} (h : KeysAsc s.bal) (a : Addr) (x : Int) :
    sumBal (setBal s a x) = sumBal s - balOf s a + x := by
  unfold balOf setBal
  simp only [sumBal_eq]
  by_cases hx : x = 0
  · subst hx; simp [vsum_adel h]
  · simp [hx, vsum_aset h]

theorem balPos_setBal {s : State} (h : ∀ e ∈ s.bal, 0 < e.2) (a : Addr) {x : Int} (hx : 0 ≤ x) :
    ∀ e ∈ (setBal s a x).bal, 0 < e.2 := by
  intro e he
  unfold setBal at he
  simp only at he
  split at he
  · exact h e (mem_adel he)
  · rename_i h0
    rcases mem_aset he with he | he
    · subst he; simp at h0; simp; omega
    · exact h e he

/-- what `send` does to balances when it succeeds -/
theorem send_spec {s : State} (h : KeysAsc s.bal) (src dst : Addr) (amt : Int) (hb : amt ≤ balOf s src) :
    ∃ s1, send s src dst amt = some s1 ∧
      (∀ q, balOf s1 q =
        (if dst = q then (if src = q then balOf s q - amt else balOf s q) + amt
         else if src = q then balOf s q - amt else balOf s q)) ∧
      KeysAsc s1.bal ∧
      s1 = { s with bal := s1.bal, accts := s1.accts } := by
  unfold send
  rw [if_neg (by omega)]
  refine ⟨_, rfl, ?_, ?_, ?_⟩
  · intro q
    have h1 := keysAsc_setBal h src (balOf s src - amt)
    rw [balOf_touch, balOf_setBal h1, balOf_setBal h, balOf_setBal h]
    by_cases hd : dst = q
    · subst hd; simp
      split
      · rename_i e; subst e; rfl
      · rfl
    · simp [hd]
      split
      · rename_i e; subst e; rfl
      · rfl
  · exact keysAsc_setBal (keysAsc_setBal h _ _) _ _
  · simp [setBal, touch]

theorem send_none_iff (s : State) (src dst : Addr) (amt : Int) :
    send s src dst amt = none ↔ balOf s src < amt := by
  unfold send
  split <;> simp [*]

/-- `send` only touches the balances -/
theorem send_frame {s s1 : State} {src dst : Addr} {amt : Int} (h : send s src dst amt = some s1) :
    s1 = { s with bal := s1.bal, accts := s1.accts } := by
  unfold send at h
  split at h
  · simp at h
  · simp at h; subst h; simp [setBal, touch]

theorem burnFrom_spec {s : State} (h : KeysAsc s.bal) (acc : Addr) (amt : Int) (hb : amt ≤ balOf s acc) :
    ∃ s1, burnFrom s acc amt = some s1 ∧
      (∀ q, balOf s1 q = if acc = q then balOf s q - amt else balOf s q) ∧
      KeysAsc s1.bal ∧ s1.supply = s.supply - amt ∧
      s1 = { s with bal := s1.bal, supply := s1.supply } := by
  unfold burnFrom
  rw [if_neg (by omega)]
  refine ⟨_, rfl, ?_, ?_, rfl, ?_⟩
  · intro q
    have := balOf_setBal h acc q (balOf s acc - amt)
    simp only [balOf] at this ⊢
    rw [this]
    split
    · rename_i e; subst e; rfl
    · rfl
  · exact keysAsc_setBal h _ _
  · simp [setBal]

theorem burnFrom_none_iff (s : State) (acc : Addr) (amt : Int) :
    burnFrom s acc amt = none ↔ balOf s acc < amt := by
  unfold burnFrom
  split <;> simp [*]


theorem lookup_mem {α β : Type} [BEq α] [LawfulBEq α] {l : List (α × β)} {k : α} {v : β}
    (h : l.lookup k = some v) : (k, v) ∈ l := by
  induction l with
  | nil => simp at h
  | cons x rest ih =>
    obtain ⟨k', v'⟩ := x
    rw [List.lookup_cons] at h
    split at h
    · rename_i hk
      have : k = k' := by simpa using hk
      subst this; simp at h; simp [h]
    · simp [ih h]

/-- the first entry with the key counts: nothing before it carries the key, whatever follows -/
theorem lookup_append_first {α β : Type} [BEq α] [LawfulBEq α] (pre post : List (α × β)) (k : α) (v : β)
    (hpre : ∀ e ∈ pre, e.1 ≠ k) : (pre ++ (k, v) :: post).lookup k = some v := by
  induction pre with
  | nil => rw [List.nil_append, List.lookup_cons]; simp
  | cons x rest ih =>
    obtain ⟨k', v'⟩ := x
    have hne : (k == k') = false := by
      have := hpre (k', v') (List.mem_cons_self ..)
      simpa using fun e : k = k' => this e.symm
    rw [List.cons_append, List.lookup_cons, hne]
    exact ih (fun e he => hpre e (List.mem_cons_of_mem _ he))

/-- everything the ante handler checked when it accepted -/
theorem anteOK_true {s : State} {t : Tx} {sim : Bool} (h : anteOK s t sim = true) :
    0 ≤ t.feeEff ∧ t.mutn ≠ "emptysig" ∧ (t.memoEff : Int) ≤ s.p.maxMemo ∧
    (∃ k ∈ s.keys, k.2 = t.msg.signer s) ∧
    t.msg.requiredFee s.p ≤ t.feeEff ∧
    (sim = true ∨ (keyAddr s t.signer = t.msg.signer s ∧ t.mutn ∉ ["sig", "fee", "memo", "ent"])) ∧
    t.feeEff ≤ balOf s (t.msg.signer s) ∧
    (t.pk = true → keyAddr s t.signer = t.msg.signer s) := by
  unfold anteOK at h
  simp only [Bool.and_eq_true, decide_eq_true_eq, ge_iff_le, bne_iff_ne, ne_eq] at h
  obtain ⟨⟨⟨⟨⟨⟨h1, h2⟩, _⟩, h3⟩, h4⟩, _⟩, _⟩ := h
  refine ⟨h1, h2, h3, ?_⟩
  split at h4
  · simp at h4
  · rename_i verif hv
    simp only [Bool.and_eq_true, beq_iff_eq, decide_eq_true_eq, Bool.or_eq_true] at h4
    obtain ⟨⟨⟨⟨⟨h5, h6⟩, _⟩, h7⟩, _⟩, h8⟩ := h4
    have hkey : ∃ k ∈ s.keys, k.2 = verif := by
      split at hv
      · exact ⟨_, lookup_mem hv, rfl⟩
      · split at hv
        · rename_i hany
          rw [List.any_eq_true] at hany
          obtain ⟨x, hx, hb⟩ := hany
          simp at hv
          simp only [Bool.and_eq_true, beq_iff_eq] at hb
          exact ⟨x, hx, by simpa [hv] using hb.1⟩
        · simp at hv
    rw [h5] at hkey hv
    refine ⟨hkey, h6, ?_, h8, ?_⟩
    · rcases h7 with h7 | h7
      · exact Or.inl h7
      · right
        unfold Tx.sigValid at h7
        simp only [Bool.and_eq_true, beq_iff_eq, Bool.not_eq_true', ] at h7
        refine ⟨h5 ▸ h7.1, ?_⟩
        have := h7.2
        simpa using this
    · intro hpk
      rw [if_pos hpk] at hv
      simp [keyAddr, hv]


/-- an accepted transaction is signed by an account that exists -/
theorem anteOK_acct {s : State} {t : Tx} {sim : Bool} (h : anteOK s t sim = true) :
    acctExists s (t.msg.signer s) = true := by
  unfold anteOK at h
  simp only [Bool.and_eq_true, decide_eq_true_eq, ge_iff_le, bne_iff_ne, ne_eq] at h
  obtain ⟨⟨⟨_, h4⟩, _⟩, _⟩ := h
  split at h4
  · simp at h4
  · simp only [Bool.and_eq_true] at h4
    exact h4.1.2

/-- the part of the ante decision about the second denomination -/
theorem anteOK_fee2 {s : State} {t : Tx} {sim : Bool} (h : anteOK s t sim = true) :
    0 ≤ t.fee2 ∧ t.fee2 ≤ balOf2 s (t.msg.signer s) := by
  unfold anteOK at h
  simp only [Bool.and_eq_true, decide_eq_true_eq, ge_iff_le] at h
  exact ⟨h.1.2, h.2⟩

/-- a key address is not a module account -/
theorem key_not_mod {s : State} (h : WF s) {a : Addr} (hk : ∃ k ∈ s.keys, k.2 = a) :
    a ≠ s.pool ∧ a ≠ s.feeAcc ∧ a ≠ s.posAcc ∧ a ≠ s.daoAcc := by
  obtain ⟨k, hk, rfl⟩ := hk
  have := h.keysNotMods k hk
  simp [isMod] at this
  exact ⟨this.1.1.1, this.1.1.2, this.1.2, this.2⟩

/-- the ante step of an accepted transaction: the fee moves from the signer to the collector -/
theorem fee_send {s : State} {t : Tx} {sim : Bool} (h : WF s) (ha : anteOK s t sim = true) :
    t.msg.signer s ≠ s.feeAcc ∧
    ∃ s1, send s (t.msg.signer s) s.feeAcc t.feeEff = some s1 ∧
      balOf s1 s.feeAcc = balOf s s.feeAcc + t.feeEff ∧
      balOf s1 (t.msg.signer s) = balOf s (t.msg.signer s) - t.feeEff ∧
      (∀ a, a ≠ s.feeAcc → a ≠ t.msg.signer s → balOf s1 a = balOf s a) ∧
      KeysAsc s1.bal ∧ s1 = { s with bal := s1.bal, accts := s1.accts } := by
  obtain ⟨_, _, _, hkey, _, _, hbal, _⟩ := anteOK_true ha
  have hne := (key_not_mod h hkey).2.1
  refine ⟨hne, ?_⟩
  obtain ⟨s1, hs1, hb, hasc, hfr⟩ := send_spec h.balAsc (t.msg.signer s) s.feeAcc t.feeEff hbal
  refine ⟨s1, hs1, ?_, ?_, ?_, hasc, hfr⟩
  · rw [hb]; simp [hne]
  · rw [hb]; simp [Ne.symm hne]
  · intro a h1 h2
    rw [hb]; simp [Ne.symm h1, Ne.symm h2]


/-! ### the governance-controlled part of the state is framed by everything but `applyParam` -/

def gov (s : State) : Params × List (String × Addr) × Addr × (Int × String) := (s.p, s.acl, s.daoOwner, s.upgrade)

theorem send_some {s s1 : State} (h : KeysAsc s.bal) {src dst : Addr} {amt : Int}
    (hs : send s src dst amt = some s1) :
    amt ≤ balOf s src ∧
    (∀ q, balOf s1 q =
        (if dst = q then (if src = q then balOf s q - amt else balOf s q) + amt
         else if src = q then balOf s q - amt else balOf s q)) ∧
      KeysAsc s1.bal ∧ s1 = { s with bal := s1.bal, accts := s1.accts } := by
  have hb : amt ≤ balOf s src := by
    by_cases hlt : balOf s src < amt
    · rw [(send_none_iff s src dst amt).2 hlt] at hs; simp at hs
    · omega
  obtain ⟨s2, h2, r⟩ := send_spec h src dst amt hb
  rw [hs] at h2
  simp at h2
  subst h2
  exact ⟨hb, r⟩

theorem burnFrom_some {s s1 : State} (h : KeysAsc s.bal) {acc : Addr} {amt : Int}
    (hs : burnFrom s acc amt = some s1) :
    amt ≤ balOf s acc ∧
      (∀ q, balOf s1 q = if acc = q then balOf s q - amt else balOf s q) ∧
      KeysAsc s1.bal ∧ s1.supply = s.supply - amt ∧
      s1 = { s with bal := s1.bal, supply := s1.supply } := by
  have hb : amt ≤ balOf s acc := by
    by_cases hlt : balOf s acc < amt
    · rw [(burnFrom_none_iff s acc amt).2 hlt] at hs; simp at hs
    · omega
  obtain ⟨s2, h2, r⟩ := burnFrom_spec h acc amt hb
  rw [hs] at h2
  simp at h2
  subst h2
  exact ⟨hb, r⟩

theorem burnFrom_frame {s s1 : State} {acc : Addr} {amt : Int} (h : burnFrom s acc amt = some s1) :
    s1 = { s with bal := s1.bal, supply := s1.supply } := by
  unfold burnFrom at h
  split at h
  · simp at h
  · simp at h; subst h; simp [setBal]

@[simp] theorem gov_setBal (s : State) (a : Addr) (x : Int) : gov (setBal s a x) = gov s := rfl
@[simp] theorem gov_mint (s : State) (a : Addr) (x : Int) : gov (mint s a x) = gov s := rfl
@[simp] theorem gov_setVal (s : State) (a : Addr) (v : Val) : gov (setVal s a v) = gov s := rfl
@[simp] theorem gov_delStaked (s : State) (a : Addr) (v : Val) : gov (delStaked s a v) = gov s := rfl
@[simp] theorem gov_enqueue (s : State) (a : Addr) (t : Int) : gov (enqueue s a t) = gov s := rfl
@[simp] theorem gov_dequeue (s : State) (a : Addr) (t : Int) : gov (dequeue s a t) = gov s := rfl
@[simp] theorem gov_setStaked (s : State) (a : Addr) (v : Val) : gov (setStaked s a v) = gov s := by
  unfold setStaked; split <;> rfl

theorem gov_send {s s1 : State} {src dst : Addr} {amt : Int} (h : send s src dst amt = some s1) :
    gov s1 = gov s := by
  rw [send_frame h]; rfl

@[simp] theorem gov_send_getD (s : State) (src dst : Addr) (amt : Int) :
    gov ((send s src dst amt).getD s) = gov s := by
  cases h : send s src dst amt with
  | none => rfl
  | some s1 => exact gov_send h

theorem gov_burnFrom {s s1 : State} {a : Addr} {amt : Int} (h : burnFrom s a amt = some s1) :
    gov s1 = gov s := by
  rw [burnFrom_frame h]; rfl

@[simp] theorem gov_burnFrom_getD (s : State) (a : Addr) (amt : Int) :
    gov ((burnFrom s a amt).getD s) = gov s := by
  cases h : burnFrom s a amt with
  | none => rfl
  | some s1 => exact gov_burnFrom h

@[simp] theorem gov_forceUnstake (s : State) (a : Addr) (v : Val) : gov (forceUnstake s a v) = gov s := by
  unfold forceUnstake
  simp only [gov_setVal]
  split <;> split <;> simp

@[simp] theorem gov_slash (s : State) (a : Addr) (ih pw f : Int) : gov (slash s a ih pw f) = gov s := by
  unfold slash
  split; · rfl
  split; · rfl
  split; · rfl
  split; · rfl
  simp only
  split; · simp
  split
  · simp
  · rename_i s2 h2
    have := gov_burnFrom h2
    split <;> simp [this]

theorem gov_jail {s s1 : State} {a : Addr} (h : jail s a = some s1) : gov s1 = gov s := by
  unfold jail at h
  split at h
  · simp at h
  · split at h
    · simp at h
    · simp at h; subst h; simp


/-- an invariant carried through a fold over `Option State` that is strict in `none` -/
theorem foldl_opt_inv {β : Type} (P : State → Prop) (f : Option State → β → Option State)
    (hnone : ∀ e, f none e = none)
    (hstep : ∀ st e st', P st → f (some st) e = some st' → P st') :
    ∀ (l : List β) (s s' : State), P s → l.foldl f (some s) = some s' → P s' := by
  intro l
  induction l with
  | nil => intro s s' hp h; simp at h; subst h; exact hp
  | cons e rest ih =>
    intro s s' hp h
    simp only [List.foldl_cons] at h
    cases hf : f (some s) e with
    | none =>
      rw [hf] at h
      have : ∀ l : List β, l.foldl f none = none := by
        intro l; induction l with
        | nil => rfl
        | cons x xs ihx => simp [hnone, ihx]
      rw [this] at h; simp at h
    | some st' =>
      rw [hf] at h
      exact ih st' s' (hstep s e st' hp hf) h

theorem foldl_inv {β : Type} (P : State → Prop) (f : State → β → State)
    (hstep : ∀ st e, P st → P (f st e)) :
    ∀ (l : List β) (s : State), P s → P (l.foldl f s) := by
  intro l
  induction l with
  | nil => intro s hp; exact hp
  | cons e rest ih => intro s hp; exact ih _ (hstep s e hp)

theorem gov_handleSignature {s s1 : State} {a : Addr} {pw : Int} {signed : Bool}
    (h : handleSignature s a pw signed = some s1) : gov s1 = gov s := by
  unfold handleSignature at h
  split at h; · simp at h
  split at h; · simp at h
  split at h; · simp at h
  simp only at h
  repeat' (split at h)
  all_goals first
    | (simp at h; done)
    | (simp at h; subst h; rfl)
    | (rename_i s3 h3
       simp at h; subst h
       have := gov_jail h3
       rw [gov_slash] at this
       simp only [gov, Prod.mk.injEq] at this ⊢
       exact this)

theorem gov_handleDoubleSign {s s1 : State} {a : Addr} {ih et pw : Int}
    (h : handleDoubleSign s a ih et pw = some s1) : gov s1 = gov s := by
  unfold handleDoubleSign at h
  split at h; · simp at h
  split at h; · simp at h; subst h; rfl
  split at h; · simp at h
  split at h; · simp at h
  split at h; · simp at h
  split at h; · simp at h
  split at h; · simp at h
  simp only at h
  split at h; · simp at h
  rename_i s2 h2
  split at h; · simp at h
  simp at h; subst h
  have e2 : gov s2 = gov s := by
    split at h2
    · rw [gov_jail h2]; simp
    · simp at h2; subst h2; simp
  have := gov_forceUnstake s2 a ‹Val›
  simp [gov] at this e2 ⊢
  simp [this, e2]

@[simp] theorem gov_rewardFromFees (s : State) : gov (rewardFromFees s) = gov s := by
  unfold rewardFromFees
  simp only
  split
  · rfl
  · rename_i s1 h1
    have := gov_send h1
    split <;> simp [this]

@[simp] theorem gov_send2_getD (s : State) (src dst : Addr) (amt : Int) :
    gov ((send2 s src dst amt).getD s) = gov s := by
  rw [send2_getD_frame]; rfl

@[simp] theorem gov_rewardFromFees2 (s : State) : gov (rewardFromFees2 s) = gov s := by
  rw [rewardFromFees2_frame]; rfl

theorem gov_mintAwards {s s1 : State} (h : mintAwards s = some s1) : gov s1 = gov s := by
  unfold mintAwards at h
  split at h; · simp at h
  simp at h; subst h
  have := foldl_inv (fun st => gov st = gov s) (fun st (e : Addr × Int) =>
      ((send (mint st st.pool e.2) (mint st st.pool e.2).pool e.1 e.2).getD (mint st st.pool e.2)))
      (by intro st e hp; simp [hp]) s.awards s rfl
  simp only [gov] at this ⊢
  exact this

theorem gov_burnValidators {s s1 : State} (h : burnValidators s = some s1) : gov s1 = gov s := by
  unfold burnValidators at h
  simp only [Option.map_eq_some_iff] at h
  obtain ⟨st, hst, rfl⟩ := h
  have := foldl_opt_inv (fun x => gov x = gov s) _ (by intro e; rfl)
    (by
      intro st e st' hp hf
      simp only at hf
      split at hf
      · simp at hf
      · split at hf
        · simp at hf
        · simp at hf; subst hf; simp [hp]) s.burns s st rfl hst
  simp only [gov] at this ⊢
  exact this

theorem gov_beginBlock {s s1 : State} {time : Int} {proposer : Addr} {votes : List Vote} {evs : List Evidence}
    (h : beginBlock s time proposer votes evs = some s1) : gov s1 = gov s := by
  unfold beginBlock at h
  simp only at h
  split at h; · simp at h
  rename_i s3 h3
  have e3 : gov s3 = gov s := by
    rw [Option.bind_eq_some_iff] at h3
    obtain ⟨s2, h2, h3⟩ := h3
    rw [gov_burnValidators h3, gov_mintAwards h2]
    split
    · rw [gov_rewardFromFees2, gov_rewardFromFees]; rfl
    · rfl
  cases h5 : votes.foldl (fun (st? : Option State) v => st?.bind fun st => handleSignature st v.addr v.power v.signed)
      (some { s3 with proposer := proposer }) with
  | none =>
    rw [h5] at h
    have : ∀ l : List Evidence, l.foldl (fun (st? : Option State) e => st?.bind fun st => handleDoubleSign st e.addr e.height e.time e.power) none = none := by
      intro l; induction l with
      | nil => rfl
      | cons x xs ihx => simp [ihx]
    rw [this] at h; simp at h
  | some s5 =>
    rw [h5] at h
    have e5 : gov s5 = gov s := by
      refine foldl_opt_inv (fun x => gov x = gov s) _ (by intro e; rfl) ?_ votes _ s5 ?_ h5
      · intro st e st' hp hf
        simp at hf
        rw [gov_handleSignature hf]; exact hp
      · exact e3
    refine foldl_opt_inv (fun x => gov x = gov s) _ (by intro e; rfl) ?_ evs _ s1 e5 h
    intro st e st' hp hf
    simp at hf
    rw [gov_handleDoubleSign hf]; exact hp

theorem gov_updateValidators {s s1 : State} {ups : List (Addr × Int)}
    (h : updateValidators s = some (s1, ups)) : gov s1 = gov s := by
  unfold updateValidators at h
  split at h; · simp at h
  split at h; · simp at h
  simp at h; rw [← h.1]; rfl

theorem gov_finishOne {s s1 : State} {a : Addr} (h : finishOne s a = some s1) : gov s1 = gov s := by
  unfold finishOne at h
  split at h; · simp at h; subst h; rfl
  split at h; · simp at h; subst h; rfl
  split at h; · simp at h
  simp only at h
  split at h; · simp at h
  rename_i s2 h2
  simp at h; subst h
  have := gov_send h2
  simp [gov] at this ⊢
  exact this

theorem gov_unstakeMature {s s1 : State} (h : unstakeMature s = some s1) : gov s1 = gov s := by
  unfold unstakeMature at h
  refine foldl_opt_inv (fun x => gov x = gov s) _ (by intro e; rfl) ?_ _ s s1 rfl h
  intro st slot st' hp hf
  simp only [Option.bind_some, Option.map_eq_some_iff] at hf
  obtain ⟨x, hx, rfl⟩ := hf
  have : gov x = gov s :=
    foldl_opt_inv (fun x => gov x = gov s) _ (by intro e; rfl)
      (by intro st e st' hp hf; simp at hf; rw [gov_finishOne hf]; exact hp) slot.2 st x hp hx
  simp only [gov] at this ⊢
  exact this

theorem gov_endBlock {s s1 : State} {ups : List (Addr × Int)}
    (h : endBlock s = some (s1, ups)) : gov s1 = gov s := by
  unfold endBlock at h
  split at h; · simp at h
  rename_i s2 ups2 h2
  simp only [Option.map_eq_some_iff] at h
  obtain ⟨x, hx, he⟩ := h
  simp at he
  rw [← he.1, gov_unstakeMature hx, gov_updateValidators h2]



@[simp] theorem bal_setStaked (s : State) (a : Addr) (v : Val) : (setStaked s a v).bal = s.bal := by
  unfold setStaked; split <;> rfl
@[simp] theorem supply_setStaked (s : State) (a : Addr) (v : Val) : (setStaked s a v).supply = s.supply := by
  unfold setStaked; split <;> rfl

@[simp] theorem gov_applyParam_other (s : State) (key val : String) :
    (key ≠ "gov/acl" → (applyParam s key val).acl = s.acl) ∧ (applyParam s key val).bal = s.bal ∧
    (applyParam s key val).supply = s.supply ∧ (applyParam s key val).vals = s.vals := by
  unfold applyParam
  repeat' split
  all_goals simp

/-- replay protection: an accepted transaction is not in the tx index -/
theorem anteOK_index {s : State} {t : Tx} {sim : Bool} (h : anteOK s t sim = true) :
    s.index.contains t.id = false := by
  unfold anteOK at h
  simp only [Bool.and_eq_true] at h
  obtain ⟨⟨⟨⟨⟨_, hi⟩, _⟩, _⟩, _⟩, _⟩ := h
  simpa using hi

/-- shape of a successful stake: one transfer from the (key) address to the pool; the rest of the
handler touches neither balances nor supply nor the governance part -/
theorem handle_stake_some {s s' : State} {k : Nat} {amt : Int} (h : handle s (.stake k amt) = some s') :
    (s.keys.lookup k).isSome = true ∧
    ∃ s0 s1, s0.bal = s.bal ∧ s0.supply = s.supply ∧ gov s0 = gov s ∧ s0.pool = s.pool ∧
      send s0 (keyAddr s k) s.pool amt = some s1 ∧
      s'.bal = s1.bal ∧ s'.supply = s1.supply ∧ gov s' = gov s1 := by
  simp only [handle, Option.ite_none_left_eq_some] at h
  obtain ⟨hk, _, _, _, _, h⟩ := h
  split at h; · simp at h
  rename_i s1 h1
  split at h; · simp at h
  refine ⟨by simpa using hk, _, s1, ?_, ?_, ?_, ?_, h1, ?_⟩
  · rfl
  · rfl
  · rfl
  · rfl
  · simp at h; subst h
    split
    · refine ⟨?_, ?_, ?_⟩ <;> simp [setVal]
      rfl
    · refine ⟨?_, ?_, ?_⟩
      · simp [setVal]
      · simp [setVal]
      · show gov (setStaked _ _ _) = _
        simp

theorem gov_handle {s s1 : State} {m : Msg} (h : handle s m = some s1)
    (hm : ∀ src key val, m ≠ .changeParam src key val)
    (hu : ∀ src hh ver, m ≠ .upgrade src hh ver) : gov s1 = gov s := by
  cases m with
  | stake k amt =>
    obtain ⟨_, s0, s2, _, _, h0, _, hs, _, _, h2⟩ := handle_stake_some h
    rw [h2, gov_send hs, h0]
  | unstake a =>
    simp only [handle] at h
    repeat' (split at h)
    all_goals first
      | (simp at h; done)
      | (simp at h; subst h; rfl)
  | unjail a =>
    simp only [handle] at h
    repeat' (split at h)
    all_goals first
      | (simp at h; done)
      | (simp at h; subst h; simp)
  | send src dst amt => exact gov_send h
  | changeParam src key val => exact absurd rfl (hm src key val)
  | daoTransfer src dst amt =>
    simp only [handle] at h
    repeat' (split at h)
    all_goals first
      | (simp at h; done)
      | exact gov_send h
  | daoBurn src amt =>
    simp only [handle] at h
    repeat' (split at h)
    all_goals first
      | (simp at h; done)
      | exact gov_burnFrom h
  | upgrade src hh ver => exact absurd rfl (hu src hh ver)


theorem balOf_congr {s s' : State} (h : s'.bal = s.bal) (q : Addr) : balOf s' q = balOf s q := by
  simp [balOf, h]

/-- what a successful handler can do to the DAO account -/
theorem handle_dao {s s' : State} {m : Msg} (hb : KeysAsc s.bal) (h : handle s m = some s')
    (hok : m.basicOK = true) (hsig : m.signer s ≠ s.daoAcc) (hpool : s.pool ≠ s.daoAcc) :
    balOf s s.daoAcc ≤ balOf s' s.daoAcc ∨
    (∃ dst amt, m = .daoTransfer s.daoOwner dst amt ∧ 0 < amt ∧ amt ≤ balOf s s.daoAcc ∧
        balOf s' s.daoAcc = balOf s s.daoAcc - amt + (if dst = s.daoAcc then amt else 0) ∧ s'.supply = s.supply) ∨
    (∃ amt, m = .daoBurn s.daoOwner amt ∧ 0 < amt ∧ amt ≤ balOf s s.daoAcc ∧
        balOf s' s.daoAcc = balOf s s.daoAcc - amt ∧ s'.supply = s.supply - amt) := by
  cases m with
  | stake k amt =>
    left
    obtain ⟨_, s0, s1, hb0, _, _, _, hs, hb1, _, _⟩ := handle_stake_some h
    have hb0' : KeysAsc s0.bal := by rw [hb0]; exact hb
    obtain ⟨_, hq, _, _⟩ := send_some hb0' hs
    rw [balOf_congr hb1, hq, balOf_congr hb0]
    simp only [Msg.signer] at hsig
    simp [hpool, hsig]
  | unstake a =>
    left
    simp only [handle] at h
    repeat' (split at h)
    all_goals first
      | (simp at h; done)
      | (simp at h; subst h; exact Int.le_refl _)
  | unjail a =>
    left
    simp only [handle] at h
    repeat' (split at h)
    all_goals first
      | (simp at h; done)
      | (simp at h; subst h; simp [balOf, setVal])
  | send src dst amt =>
    left
    simp only [handle] at h
    obtain ⟨_, hq, _, _⟩ := send_some hb h
    simp only [Msg.signer] at hsig
    simp [Msg.basicOK] at hok
    rw [hq]; simp [hsig]
    split <;> omega
  | changeParam src key val =>
    left
    simp only [handle] at h
    repeat' (split at h)
    all_goals first
      | (simp at h; done)
      | (simp at h; subst h; rw [balOf_congr (gov_applyParam_other _ _ _).2.1]; exact Int.le_refl _)
  | upgrade src hh ver =>
    left
    simp only [handle] at h
    repeat' (split at h)
    all_goals first
      | (simp at h; done)
      | (simp at h; subst h; exact Int.le_refl _)
  | daoTransfer src dst amt =>
    right; left
    simp only [handle, Option.ite_none_left_eq_some] at h
    obtain ⟨h1, h2, h⟩ := h
    obtain ⟨hle, hq, _, hfr⟩ := send_some hb h
    simp [Msg.basicOK] at hok
    have h1' : s.daoOwner = src := by simpa using h1
    refine ⟨dst, amt, by rw [h1'], by omega, hle, ?_, by rw [hfr]⟩
    rw [hq]; simp
    split <;> omega
  | daoBurn src amt =>
    right; right
    simp only [handle, Option.ite_none_left_eq_some] at h
    obtain ⟨h1, h2, h⟩ := h
    obtain ⟨hle, hq, _, hsup, _⟩ := burnFrom_some hb h
    simp [Msg.basicOK] at hok
    have h1' : s.daoOwner = src := by simpa using h1
    refine ⟨amt, by rw [h1'], by omega, hle, ?_, hsup⟩
    rw [hq]; simp


end Posmint.Chain.ChainTx
