import Posmint.Lemmas.ChainWindow
import Posmint.Lemmas.Arith
/-!
Helper lemmas for C07 (slashing): sorted association lists, the bank primitives, field-projection
lemmas of the staking primitives, and an exact description of `slash` / `forceUnstake`.
-/
namespace Posmint.Chain.C
open Posmint.Arith

/-! ### sorted association lists -/

theorem mem_aset {α : Type} (l : List (Addr × α)) (k : Addr) (v : α) (e : Addr × α)
    (h : e ∈ aset l k v) : e = (k, v) ∨ e ∈ l := by
  induction l with
  | nil => simp [aset] at h; exact Or.inl h
  | cons x rest ih =>
    obtain ⟨k', v'⟩ := x
    simp only [aset] at h
    split at h
    · simp at h; rcases h with h | h | h <;> simp [h]
    · split at h
      · simp at h; rcases h with h | h <;> simp [h]
      · simp at h; rcases h with h | h
        · simp [h]
        · rcases ih h with h | h <;> simp [h]

theorem mem_adel {α : Type} (l : List (Addr × α)) (k : Addr) (e : Addr × α)
    (h : e ∈ adel l k) : e ∈ l := by
  induction l with
  | nil => simp [adel] at h
  | cons x rest ih =>
    obtain ⟨k', v'⟩ := x
    simp only [adel] at h
    split at h
    · simp [h]
    · simp at h; rcases h with h | h
      · simp [h]
      · simp [ih h]

theorem keysAsc_cons {α : Type} (x : Addr × α) (l : List (Addr × α)) :
    KeysAsc (x :: l) ↔ (∀ e ∈ l, x.1 < e.1) ∧ KeysAsc l := by
  unfold KeysAsc; exact List.pairwise_cons

theorem keysAsc_aset {α : Type} (l : List (Addr × α)) (k : Addr) (v : α) (h : KeysAsc l) :
    KeysAsc (aset l k v) := by
  induction l with
  | nil => simp [aset, KeysAsc]
  | cons x rest ih =>
    obtain ⟨k', v'⟩ := x
    rw [keysAsc_cons] at h
    simp only [aset]
    split
    · rename_i hlt
      rw [keysAsc_cons]
      refine ⟨?_, (keysAsc_cons _ _).2 h⟩
      intro e he
      simp at he
      rcases he with he | he
      · subst he; exact hlt
      · exact addr_lt_trans hlt (h.1 e he)
    · split
      · rename_i h1 h2
        have e : k = k' := by simpa using h2
        subst e
        exact (keysAsc_cons _ _).2 h
      · rename_i h1 h2
        have hne : ¬ k = k' := by simpa using h2
        rw [keysAsc_cons]
        refine ⟨?_, ih h.2⟩
        intro e he
        rcases mem_aset _ _ _ _ he with he | he
        · subst he
          rcases Std.lt_trichotomy k k' with h3 | h3 | h3
          · exact absurd h3 h1
          · exact absurd h3 hne
          · exact h3
        · exact h.1 e he

theorem keysAsc_adel {α : Type} (l : List (Addr × α)) (k : Addr) (h : KeysAsc l) :
    KeysAsc (adel l k) := by
  induction l with
  | nil => simp [adel, KeysAsc]
  | cons x rest ih =>
    obtain ⟨k', v'⟩ := x
    rw [keysAsc_cons] at h
    simp only [adel]
    split
    · exact h.2
    · rw [keysAsc_cons]
      exact ⟨fun e he => h.1 e (mem_adel _ _ _ he), ih h.2⟩

theorem aget_none_of_lt {α : Type} (l : List (Addr × α)) (k : Addr) (h : ∀ e ∈ l, k < e.1) :
    aget l k = none := by
  induction l with
  | nil => rfl
  | cons x rest ih =>
    obtain ⟨k', v'⟩ := x
    have h1 : k < k' := h (k', v') (by simp)
    have : ¬ k' = k := fun e => addr_lt_ne h1 e.symm
    simp only [aget, beq_iff_eq, this, if_false]
    exact ih (fun e he => h e (by simp [he]))

theorem aget_adel_self {α : Type} (l : List (Addr × α)) (k : Addr) (h : KeysAsc l) :
    aget (adel l k) k = none := by
  induction l with
  | nil => rfl
  | cons x rest ih =>
    obtain ⟨k', v'⟩ := x
    rw [keysAsc_cons] at h
    simp only [adel]
    split
    · rename_i h2
      have e : k = k' := by simpa using h2
      subst e
      exact aget_none_of_lt _ _ h.1
    · rename_i h2
      have hne : ¬ k' = k := fun e => h2 (by simp [e])
      simp only [aget, beq_iff_eq, hne, if_false]
      exact ih h.2

theorem aget_adel_ne {α : Type} (l : List (Addr × α)) (k q : Addr) (h : k ≠ q) :
    aget (adel l k) q = aget l q := by
  induction l with
  | nil => rfl
  | cons x rest ih =>
    obtain ⟨k', v'⟩ := x
    simp only [adel]
    split
    · rename_i h2
      have e : k = k' := by simpa using h2
      subst e
      simp [aget, h]
    · simp [aget, ih]

theorem aget_mem {α : Type} (l : List (Addr × α)) (k : Addr) (v : α) (h : aget l k = some v) : (k, v) ∈ l := by
  induction l with
  | nil => simp [aget] at h
  | cons x rest ih =>
    obtain ⟨k', v'⟩ := x
    simp only [aget] at h
    split at h
    · rename_i h2
      have e : k' = k := by simpa using h2
      cases h; subst e; simp
    · simp [ih h]

theorem mem_aget {α : Type} (l : List (Addr × α)) (k : Addr) (v : α) (hasc : KeysAsc l) (h : (k, v) ∈ l) :
    aget l k = some v := by
  induction l with
  | nil => simp at h
  | cons x rest ih =>
    obtain ⟨k', v'⟩ := x
    rw [keysAsc_cons] at hasc
    simp at h
    rcases h with h | h
    · simp [aget, h.1, h.2]
    · have hlt := hasc.1 _ h
      have : ¬ k' = k := addr_lt_ne hlt
      simp only [aget, beq_iff_eq, this, if_false]
      exact ih hasc.2 h

/-! ### bank -/

theorem balOf_setBal (s : State) (hasc : KeysAsc s.bal) (k : Addr) (x : Int) (b : Addr) :
    balOf (setBal s k x) b = if b = k then x else balOf s b := by
  unfold balOf setBal
  simp only []
  by_cases hx : x = 0
  · subst hx
    simp only [beq_self_eq_true, if_true]
    split
    · rename_i e; subst e; rw [aget_adel_self _ _ hasc]; rfl
    · rename_i e; rw [aget_adel_ne _ _ _ (fun h => e h.symm)]
  · have : (x == 0) = false := by simpa using hx
    simp only [this, Bool.false_eq_true, if_false]
    split
    · rename_i e; subst e; rw [aget_aset_self]; rfl
    · rename_i e; rw [aget_aset_ne _ _ _ _ (fun h => e h.symm)]

theorem setBal_asc (s : State) (hasc : KeysAsc s.bal) (k : Addr) (x : Int) : KeysAsc (setBal s k x).bal := by
  unfold setBal
  simp only []
  split
  · exact keysAsc_adel _ _ hasc
  · exact keysAsc_aset _ _ _ hasc

/-- a burn that the account can afford: the result, field by field -/
theorem burnFrom_ok (s : State) (acc : Addr) (amt : Int) (h : amt ≤ balOf s acc) :
    burnFrom s acc amt = some { setBal s acc (balOf s acc - amt) with supply := s.supply - amt } := by
  unfold burnFrom
  rw [if_neg (by omega)]

/-! ### field projections of the staking primitives -/

@[simp] theorem delStaked_bal (s : State) (a : Addr) (v : Val) : (delStaked s a v).bal = s.bal := rfl
@[simp] theorem delStaked_supply (s : State) (a : Addr) (v : Val) : (delStaked s a v).supply = s.supply := rfl
@[simp] theorem delStaked_vals (s : State) (a : Addr) (v : Val) : (delStaked s a v).vals = s.vals := rfl
@[simp] theorem delStaked_pool (s : State) (a : Addr) (v : Val) : (delStaked s a v).pool = s.pool := rfl
@[simp] theorem delStaked_p (s : State) (a : Addr) (v : Val) : (delStaked s a v).p = s.p := rfl
@[simp] theorem setStaked_bal (s : State) (a : Addr) (v : Val) : (setStaked s a v).bal = s.bal := by
  unfold setStaked; split <;> rfl
@[simp] theorem setStaked_supply (s : State) (a : Addr) (v : Val) : (setStaked s a v).supply = s.supply := by
  unfold setStaked; split <;> rfl
@[simp] theorem setStaked_vals (s : State) (a : Addr) (v : Val) : (setStaked s a v).vals = s.vals := by
  unfold setStaked; split <;> rfl
@[simp] theorem setStaked_pool (s : State) (a : Addr) (v : Val) : (setStaked s a v).pool = s.pool := by
  unfold setStaked; split <;> rfl
@[simp] theorem setStaked_p (s : State) (a : Addr) (v : Val) : (setStaked s a v).p = s.p := by
  unfold setStaked; split <;> rfl
@[simp] theorem setVal_bal (s : State) (a : Addr) (v : Val) : (setVal s a v).bal = s.bal := rfl
@[simp] theorem setVal_supply (s : State) (a : Addr) (v : Val) : (setVal s a v).supply = s.supply := rfl
@[simp] theorem setVal_vals (s : State) (a : Addr) (v : Val) : (setVal s a v).vals = aset s.vals a v := rfl
@[simp] theorem setVal_pool (s : State) (a : Addr) (v : Val) : (setVal s a v).pool = s.pool := rfl
@[simp] theorem setVal_p (s : State) (a : Addr) (v : Val) : (setVal s a v).p = s.p := rfl
@[simp] theorem dequeue_bal (s : State) (a : Addr) (t : Int) : (dequeue s a t).bal = s.bal := rfl
@[simp] theorem dequeue_supply (s : State) (a : Addr) (t : Int) : (dequeue s a t).supply = s.supply := rfl
@[simp] theorem dequeue_vals (s : State) (a : Addr) (t : Int) : (dequeue s a t).vals = s.vals := rfl
@[simp] theorem dequeue_pool (s : State) (a : Addr) (t : Int) : (dequeue s a t).pool = s.pool := rfl
@[simp] theorem dequeue_p (s : State) (a : Addr) (t : Int) : (dequeue s a t).p = s.p := rfl
@[simp] theorem setBal_supply (s : State) (a : Addr) (x : Int) : (setBal s a x).supply = s.supply := rfl
@[simp] theorem setBal_vals (s : State) (a : Addr) (x : Int) : (setBal s a x).vals = s.vals := rfl
@[simp] theorem setBal_pool (s : State) (a : Addr) (x : Int) : (setBal s a x).pool = s.pool := rfl
@[simp] theorem setBal_p (s : State) (a : Addr) (x : Int) : (setBal s a x).p = s.p := rfl

theorem balOf_congr (s1 s2 : State) (h : s1.bal = s2.bal) (b : Addr) : balOf s1 b = balOf s2 b := by
  unfold balOf; rw [h]

/-- the state after an affordable burn from `acc`, described by its observable fields -/
structure Burnt (s s' : State) (acc : Addr) (amt : Int) : Prop where
  supply : s'.supply = s.supply - amt
  bal : ∀ b, balOf s' b = if b = acc then balOf s acc - amt else balOf s b
  asc : KeysAsc s'.bal
  vals : s'.vals = s.vals
  pool : s'.pool = s.pool
  p : s'.p = s.p

theorem burnFrom_burnt (s : State) (hasc : KeysAsc s.bal) (acc : Addr) (amt : Int) (h : amt ≤ balOf s acc) :
    ∃ s', burnFrom s acc amt = some s' ∧ Burnt s s' acc amt := by
  refine ⟨_, burnFrom_ok s acc amt h, rfl, ?_, setBal_asc s hasc _ _, rfl, rfl, rfl⟩
  intro b
  exact balOf_setBal s hasc acc _ b

/-- `forceUnstake` when the pool can pay: burns the whole recorded stake -/
theorem forceUnstake_spec (s : State) (a : Addr) (v : Val) (hasc : KeysAsc s.bal)
    (h0 : 0 ≤ v.tokens) (hle : v.tokens ≤ balOf s s.pool) :
    (forceUnstake s a v).supply = s.supply - v.tokens ∧
    (∀ b, balOf (forceUnstake s a v) b = if b = s.pool then balOf s s.pool - v.tokens else balOf s b) ∧
    (forceUnstake s a v).vals = aset s.vals a { v with tokens := 0, status := 0 } ∧
    KeysAsc (forceUnstake s a v).bal ∧ (forceUnstake s a v).pool = s.pool ∧ (forceUnstake s a v).p = s.p := by
  unfold forceUnstake
  simp only []
  have hs2 : ∀ s2 : State, s2 = (if v.status == 1 then dequeue (delStaked s a v) a v.unstake else delStaked s a v) →
      s2.bal = s.bal ∧ s2.supply = s.supply ∧ s2.vals = s.vals ∧ s2.pool = s.pool ∧ s2.p = s.p := by
    intro s2 h; subst h; split <;> simp
  obtain ⟨e1, e2, e3, e4, e5⟩ := hs2 _ rfl
  generalize (if v.status == 1 then dequeue (delStaked s a v) a v.unstake else delStaked s a v) = s2 at e1 e2 e3 e4 e5
  have hb2 : ∀ b, balOf s2 b = balOf s b := balOf_congr _ _ e1
  by_cases ht : v.tokens > 0
  · rw [if_pos ht]
    obtain ⟨s3, hb, B⟩ := burnFrom_burnt s2 (e1 ▸ hasc) s2.pool v.tokens (by rw [hb2, e4]; exact hle)
    rw [hb]
    simp only [Option.getD_some, setVal_supply, setVal_vals, setVal_pool, setVal_p]
    refine ⟨by rw [B.supply, e2], ?_, by rw [B.vals, e3], B.asc, by rw [B.pool, e4], by rw [B.p, e5]⟩
    intro b
    rw [balOf_congr _ s3 (setVal_bal _ _ _), B.bal, e4, hb2, hb2]
  · rw [if_neg ht]
    have : v.tokens = 0 := by omega
    simp only [setVal_supply, setVal_vals, setVal_pool, setVal_p, this]
    refine ⟨by rw [e2]; omega, ?_, by rw [e3], ?_, e4, e5⟩
    · intro b
      rw [balOf_congr _ s2 (setVal_bal _ _ _), hb2]
      split
      · rename_i h; subst h; omega
      · rfl
    · show KeysAsc s2.bal
      rw [e1]; exact hasc

/-- `slash` of a bonded validator with a positive burn the pool can pay -/
theorem slash_eq (s : State) (a : Addr) (v : Val) (ih pw fRaw : Int)
    (hv : aget s.vals a = some v) (hst : v.status ≠ 0) (hf : 0 ≤ fRaw) (hh : ih ≤ s.height)
    (hb : 0 < max (min (slashAmount pw fRaw) v.tokens) 0)
    (hle : max (min (slashAmount pw fRaw) v.tokens) 0 ≤ balOf s s.pool) :
    slash s a ih pw fRaw =
      (let burn := max (min (slashAmount pw fRaw) v.tokens) 0
       let v1 := { v with tokens := v.tokens - burn }
       let s1 := setStaked (setVal (delStaked s a v) a v1) a v1
       let s2 := { setBal s1 s1.pool (balOf s1 s1.pool - burn) with supply := s1.supply - burn }
       if v1.tokens < s.p.minStake then forceUnstake s2 a v1 else s2) := by
  unfold slash
  rw [if_neg (by omega), if_neg (by omega), hv]
  have : (v.status == 0) = false := by simpa using hst
  simp only [this, Bool.false_eq_true, if_false]
  rw [if_neg (by omega)]
  rw [burnFrom_ok _ _ _ (by
    rw [balOf_congr _ s (by simp)]; simpa using hle)]
  simp

/-! ### the recorded stake -/

theorem sum_nonneg_int (l : List Int) (h : ∀ x ∈ l, 0 ≤ x) : 0 ≤ l.sum := by
  induction l with
  | nil => simp
  | cons x rest ih =>
    have hx : 0 ≤ x := h x (by simp)
    have := ih (fun z hz => h z (by simp [hz]))
    simp only [List.sum_cons]; omega

theorem sum_ge_mem (l : List Int) (h : ∀ x ∈ l, 0 ≤ x) (y : Int) (hy : y ∈ l) : y ≤ l.sum := by
  induction l with
  | nil => simp at hy
  | cons x rest ih =>
    have hx : 0 ≤ x := h x (by simp)
    have hrest : 0 ≤ rest.sum := sum_nonneg_int _ (fun z hz => h z (by simp [hz]))
    simp only [List.sum_cons]
    simp at hy
    rcases hy with hy | hy
    · omega
    · have := ih (fun z hz => h z (by simp [hz])) hy
      omega

theorem tokens_le_stakeSum (s : State) (a : Addr) (v : Val) (htok : ∀ e ∈ s.vals, 0 ≤ e.2.tokens)
    (hv : aget s.vals a = some v) (hst : v.status ≠ 0) : v.tokens ≤ stakeSum s := by
  unfold stakeSum
  apply sum_ge_mem
  · intro x hx
    simp only [List.mem_map, List.mem_filter] at hx
    obtain ⟨e, ⟨he, _⟩, rfl⟩ := hx
    exact htok e he
  · simp only [List.mem_map, List.mem_filter]
    exact ⟨(a, v), ⟨aget_mem _ _ _ hv, by simpa using hst⟩, rfl⟩

/-- `slash` of a bonded validator with a positive burn, when the pool backs the stake -/
theorem slash_pos_spec (s : State) (a : Addr) (v : Val) (ih pw fRaw : Int) (hasc : KeysAsc s.bal)
    (hstake : v.tokens ≤ balOf s s.pool)
    (hv : aget s.vals a = some v) (hst : v.status ≠ 0) (hf : 0 ≤ fRaw) (hh : ih ≤ s.height)
    (hb : 0 < max (min (slashAmount pw fRaw) v.tokens) 0) :
    let s' := slash s a ih pw fRaw
    let burn := max (min (slashAmount pw fRaw) v.tokens) 0
    let rest := v.tokens - burn
    let total := if rest < s.p.minStake then v.tokens else burn
    s'.supply = s.supply - total ∧
    balOf s' s.pool = balOf s s.pool - total ∧
    (∀ b, b ≠ s.pool → balOf s' b = balOf s b) ∧
    (∀ b, b ≠ a → aget s'.vals b = aget s.vals b) ∧
    (∃ v', aget s'.vals a = some v' ∧ v'.jailed = v.jailed ∧
      (if rest < s.p.minStake then v'.tokens = 0 ∧ v'.status = 0 else v'.tokens = rest ∧ v'.status = v.status)) ∧
    KeysAsc s'.bal ∧ s'.pool = s.pool := by
  have hble : max (min (slashAmount pw fRaw) v.tokens) 0 ≤ v.tokens := by omega
  have hsl := slash_eq s a v ih pw fRaw hv hst hf hh hb (by omega)
  simp only [] at hsl
  dsimp only
  generalize slash s a ih pw fRaw = s' at hsl ⊢
  generalize max (min (slashAmount pw fRaw) v.tokens) 0 = burn at *
  generalize hv1 : ({ v with tokens := v.tokens - burn } : Val) = v1 at hsl
  have hv1t : v1.tokens = v.tokens - burn := by rw [← hv1]
  have hv1j : v1.jailed = v.jailed := by rw [← hv1]
  have hv1s : v1.status = v.status := by rw [← hv1]
  generalize hs1 : setStaked (setVal (delStaked s a v) a v1) a v1 = s1 at hsl
  have e1 : s1.bal = s.bal := by rw [← hs1]; simp
  have e2 : s1.supply = s.supply := by rw [← hs1]; simp
  have e3 : s1.vals = aset s.vals a v1 := by rw [← hs1]; simp
  have e4 : s1.pool = s.pool := by rw [← hs1]; simp
  have e5 : s1.p = s.p := by rw [← hs1]; simp
  have hasc1 : KeysAsc s1.bal := e1 ▸ hasc
  have hbal1 : ∀ b, balOf s1 b = balOf s b := balOf_congr _ _ e1
  generalize hs2 : ({ setBal s1 s1.pool (balOf s1 s1.pool - burn) with supply := s1.supply - burn } : State) = s2 at hsl
  have f1 : ∀ b, balOf s2 b = if b = s.pool then balOf s s.pool - burn else balOf s b := by
    intro b
    have : balOf s2 b = balOf (setBal s1 s1.pool (balOf s1 s1.pool - burn)) b := by rw [← hs2]; rfl
    rw [this, balOf_setBal _ hasc1, e4, hbal1, hbal1]
  have f2 : s2.supply = s.supply - burn := by rw [← hs2, ← e2]
  have f3 : s2.vals = aset s.vals a v1 := by rw [← hs2, ← e3]; rfl
  have f4 : s2.pool = s.pool := by rw [← hs2, ← e4]; rfl
  have f5 : s2.p = s.p := by rw [← hs2, ← e5]; rfl
  have f6 : KeysAsc s2.bal := by rw [← hs2]; exact setBal_asc _ hasc1 _ _
  by_cases hlt : v.tokens - burn < s.p.minStake
  · rw [if_pos hlt] at hsl
    obtain ⟨g1, g2, g3, g4, g5, _⟩ := forceUnstake_spec s2 a v1 f6 (by omega)
      (by rw [f4, f1, if_pos rfl, hv1t]; omega)
    rw [← hsl] at g1 g2 g3
    simp only [if_pos hlt]
    refine ⟨by rw [g1, f2, hv1t]; omega, by rw [g2, f4, if_pos rfl, f1, if_pos rfl, hv1t]; omega, ?_, ?_, ?_, hsl ▸ g4, by rw [← hsl] at g5; rw [g5, f4]⟩
    · intro b hb; rw [g2, f4, if_neg hb, f1, if_neg hb]
    · intro b hb; rw [g3, f3, aget_aset_ne _ _ _ _ (fun e => hb e.symm), aget_aset_ne _ _ _ _ (fun e => hb e.symm)]
    · exact ⟨{ v1 with tokens := 0, status := 0 }, by rw [g3]; exact aget_aset_self _ _ _, hv1j, rfl, rfl⟩
  · rw [if_neg hlt] at hsl
    simp only [if_neg hlt]
    rw [hsl]
    refine ⟨f2, by rw [f1, if_pos rfl], ?_, ?_, ?_, f6, f4⟩
    · intro b hb; rw [f1, if_neg hb]
    · intro b hb; rw [f3, aget_aset_ne _ _ _ _ (fun e => hb e.symm)]
    · exact ⟨v1, by rw [f3]; exact aget_aset_self _ _ _, hv1j, hv1t, hv1s⟩

theorem aset_same {α : Type} (l : List (Addr × α)) (k : Addr) (v : α) (hasc : KeysAsc l)
    (h : aget l k = some v) : aset l k v = l := by
  induction l with
  | nil => simp [aget] at h
  | cons x rest ih =>
    obtain ⟨k', v'⟩ := x
    rw [keysAsc_cons] at hasc
    simp only [aget] at h
    simp only [aset]
    split at h
    · rename_i h2
      have e : k' = k := by simpa using h2
      cases h
      subst e
      rw [if_neg (addr_lt_irrefl _)]
      simp
    · rename_i h2
      have hne : ¬ k' = k := by simpa using h2
      have hlt : k' < k := hasc.1 _ (aget_mem _ _ _ h)
      rw [if_neg (addr_lt_asymm hlt)]
      have : (k == k') = false := by simpa using fun e : k = k' => hne e.symm
      simp only [this, Bool.false_eq_true, if_false]
      rw [ih hasc.2 h]

/-- `slash` that burns nothing although it reaches the validator -/
theorem slash_zero_eq (s : State) (a : Addr) (v : Val) (ih pw fRaw : Int)
    (hv : aget s.vals a = some v) (hst : v.status ≠ 0) (hf : 0 ≤ fRaw) (hh : ih ≤ s.height)
    (hb : max (min (slashAmount pw fRaw) v.tokens) 0 ≤ 0) :
    slash s a ih pw fRaw = setStaked (setVal (delStaked s a v) a v) a v := by
  unfold slash
  rw [if_neg (by omega), if_neg (by omega), hv]
  have : (v.status == 0) = false := by simpa using hst
  simp only [this, Bool.false_eq_true, if_false]
  rw [if_pos hb]
  have h0 : max (min (slashAmount pw fRaw) v.tokens) 0 = 0 := by omega
  rw [h0]
  have : ({ v with tokens := v.tokens - 0 } : Val) = v := by cases v; simp
  rw [this]

/-- every way `slash` can go for a bonded validator whose stake the pool backs: some amount
`t ≤ tokens` leaves the stake, the pool and the supply -/
theorem slash_summary (s : State) (a : Addr) (v : Val) (ih pw fRaw : Int) (hasc : KeysAsc s.bal)
    (hstake : v.tokens ≤ balOf s s.pool) (h0 : 0 ≤ v.tokens)
    (hv : aget s.vals a = some v) (hst : v.status ≠ 0) :
    ∃ t v', 0 ≤ t ∧ t ≤ v.tokens ∧
      (slash s a ih pw fRaw).supply = s.supply - t ∧
      (∀ b, balOf (slash s a ih pw fRaw) b = if b = s.pool then balOf s s.pool - t else balOf s b) ∧
      KeysAsc (slash s a ih pw fRaw).bal ∧ (slash s a ih pw fRaw).pool = s.pool ∧
      (∀ b, b ≠ a → aget (slash s a ih pw fRaw).vals b = aget s.vals b) ∧
      aget (slash s a ih pw fRaw).vals a = some v' ∧ v'.jailed = v.jailed ∧ v'.tokens = v.tokens - t := by
  have hnoop : ∀ s' : State, s' = s → ∃ t v', 0 ≤ t ∧ t ≤ v.tokens ∧
      s'.supply = s.supply - t ∧
      (∀ b, balOf s' b = if b = s.pool then balOf s s.pool - t else balOf s b) ∧
      KeysAsc s'.bal ∧ s'.pool = s.pool ∧
      (∀ b, b ≠ a → aget s'.vals b = aget s.vals b) ∧
      aget s'.vals a = some v' ∧ v'.jailed = v.jailed ∧ v'.tokens = v.tokens - t := by
    intro s' e; subst e
    refine ⟨0, v, by omega, h0, by omega, ?_, hasc, rfl, fun _ _ => rfl, hv, rfl, by omega⟩
    intro b; split
    · rename_i e; subst e; omega
    · rfl
  by_cases hf : fRaw < 0
  · exact hnoop _ (by unfold slash; rw [if_pos hf])
  by_cases hh : ih > s.height
  · exact hnoop _ (by unfold slash; rw [if_neg hf, if_pos hh])
  by_cases hb : 0 < max (min (slashAmount pw fRaw) v.tokens) 0
  · have hs := slash_pos_spec s a v ih pw fRaw hasc hstake hv hst (by omega) (by omega) hb
    dsimp only at hs
    have hble : max (min (slashAmount pw fRaw) v.tokens) 0 ≤ v.tokens := by omega
    generalize max (min (slashAmount pw fRaw) v.tokens) 0 = burn at *
    generalize slash s a ih pw fRaw = s' at hs ⊢
    obtain ⟨c1, c2, c3, c4, ⟨v', c5, c6, c7⟩, c8, c9⟩ := hs
    by_cases hlt : v.tokens - burn < s.p.minStake
    · simp only [if_pos hlt] at c1 c2 c7
      refine ⟨v.tokens, v', h0, by omega, c1, ?_, c8, c9, c4, c5, c6, by rw [c7.1]; omega⟩
      intro b; split
      · rename_i e; subst e; exact c2
      · exact c3 b ‹_›
    · simp only [if_neg hlt] at c1 c2 c7
      refine ⟨burn, v', by omega, by omega, c1, ?_, c8, c9, c4, c5, c6, c7.1⟩
      intro b; split
      · rename_i e; subst e; exact c2
      · exact c3 b ‹_›
  · rw [slash_zero_eq s a v ih pw fRaw hv hst (by omega) (by omega) (by omega)]
    refine ⟨0, v, by omega, h0, by simp, ?_, by simpa using hasc, by simp, ?_, by simp [aget_aset_self], rfl, by omega⟩
    · intro b
      rw [balOf_congr _ s (by simp)]
      split
      · rename_i e; subst e; omega
      · rfl
    · intro b hb
      simp [aget_aset_ne _ _ _ _ (fun e => hb e.symm)]

theorem jail_bank (s s' : State) (a : Addr) (h : jail s a = some s') :
    s'.bal = s.bal ∧ s'.supply = s.supply := by
  unfold jail at h
  split at h
  · cases h
  · split at h
    · cases h
    · cases h; exact ⟨rfl, rfl⟩

theorem jail_or_id (s1 s2 : State) (a : Addr) (c : Bool) (v1 : Val)
    (h : (if c = true then jail s1 a else some s1) = some s2) (hv1 : aget s1.vals a = some v1) :
    s2.bal = s1.bal ∧ s2.supply = s1.supply ∧ s2.pool = s1.pool ∧
    (∀ b, b ≠ a → aget s2.vals b = aget s1.vals b) ∧
    ∃ v2, aget s2.vals a = some v2 ∧ v2.tokens = v1.tokens ∧ v2.status = v1.status ∧
      (v2.jailed = true ∨ (c = false ∧ v2.jailed = v1.jailed)) := by
  cases c with
  | false =>
    simp only [Bool.false_eq_true, if_false] at h
    cases h
    exact ⟨rfl, rfl, rfl, fun _ _ => rfl, v1, hv1, rfl, rfl, Or.inr ⟨rfl, rfl⟩⟩
  | true =>
    simp only [if_true] at h
    obtain ⟨v, hv, _, hvals⟩ := jail_vals _ _ _ h
    obtain ⟨hb, hs⟩ := jail_bank _ _ _ h
    rw [hv1] at hv; cases hv
    refine ⟨hb, hs, (jail_frame _ _ _ h).pool, ?_, { v1 with jailed := true }, ?_, rfl, rfl, Or.inl rfl⟩
    · intro b hb; rw [hvals, aget_aset_ne _ _ _ _ (fun e => hb e.symm)]
    · rw [hvals, aget_aset_self]

end Posmint.Chain.C
