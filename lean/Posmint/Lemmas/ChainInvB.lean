import Posmint.Model.ChainSpec
import Posmint.Lemmas.ChainFrame2
/-!
Preservation of the index / queue / previous-set components of `Inv` by every operation.

Layout: association lists and sums; the power index and unstaking queue as lists; bank frame
lemmas; the working bundles `Core` / `Backed` / `Big` and the transition relations `Evo` /
`Shrink` / `Grow`; per-function lemmas (slash, forceUnstake, jail, handleSignature,
handleDoubleSign, BeginBlock, message handlers, finishOne, unstakeMature, scanIndex,
updateValidators); finally `step_indexExact`, `step_queueExact`, `step_prevOK`.
-/
namespace Posmint.Chain

/-! All helper definitions and lemmas of this file live in the sub-namespace `Posmint.Chain.B`
(`open Posmint.Chain.B` to use them), so that they cannot clash with helpers of the sibling files. -/
namespace B

/-! ### sorted association lists -/

section alist
variable {α : Type}

theorem aget_aset (l : List (Addr × α)) (k q : Addr) (v : α) :
    aget (aset l k v) q = if k = q then some v else aget l q := by
  induction l with
  | nil => simp [aset, aget]
  | cons x rest ih =>
    obtain ⟨k', v'⟩ := x
    simp only [aset]
    split
    · simp [aget]
    · split
      · rename_i h; simp at h; subst h; simp only [aget]; by_cases h : k = q <;> simp [h]
      · rename_i h1 h2
        simp at h2
        simp only [aget, ih]
        by_cases h3 : k' = q
        · subst h3; simp [h2]
        · simp [h3]

theorem aget_aset_self (l : List (Addr × α)) (k : Addr) (v : α) : aget (aset l k v) k = some v := by
  simp [aget_aset]

theorem aget_aset_ne (l : List (Addr × α)) {k q : Addr} (v : α) (h : k ≠ q) :
    aget (aset l k v) q = aget l q := by
  simp [aget_aset, h]

theorem aget_some_mem {l : List (Addr × α)} {k : Addr} {v : α} (h : aget l k = some v) : (k, v) ∈ l := by
  induction l with
  | nil => simp [aget] at h
  | cons x rest ih =>
    obtain ⟨k', v'⟩ := x
    simp only [aget] at h
    split at h
    · rename_i h1; simp at h1; simp at h; subst h1; subst h; simp
    · exact List.mem_cons_of_mem _ (ih h)

theorem aget_none_of_lt {l : List (Addr × α)} {k : Addr} (h : ∀ e ∈ l, k < e.1) : aget l k = none := by
  induction l with
  | nil => rfl
  | cons x rest ih =>
    obtain ⟨k', v'⟩ := x
    have h1 := h (k', v') (by simp)
    simp only [aget]
    have : k' ≠ k := by intro h2; subst h2; exact String.lt_irrefl _ h1
    simp [this]
    exact ih (fun e he => h e (List.mem_cons_of_mem _ he))

theorem mem_aget {l : List (Addr × α)} (hl : KeysAsc l) {k : Addr} {v : α} (h : (k, v) ∈ l) : aget l k = some v := by
  induction l with
  | nil => simp at h
  | cons x rest ih =>
    obtain ⟨k', v'⟩ := x
    simp only [KeysAsc, List.pairwise_cons] at hl
    simp only [List.mem_cons] at h
    simp only [aget]
    rcases h with h | h
    · cases h; simp
    · have := hl.1 _ h
      have hne : k' ≠ k := by intro h2; subst h2; exact String.lt_irrefl _ this
      simp [hne]; exact ih hl.2 h

theorem aget_isSome_iff {l : List (Addr × α)} {k : Addr} : (aget l k).isSome = true ↔ ∃ v, (k, v) ∈ l := by
  induction l with
  | nil => simp [aget]
  | cons x rest ih =>
    obtain ⟨k', v'⟩ := x
    simp only [aget]
    split
    · rename_i h; simp at h; subst h; simp
    · rename_i h; simp at h
      rw [ih]
      constructor
      · rintro ⟨v, hv⟩; exact ⟨v, List.mem_cons_of_mem _ hv⟩
      · rintro ⟨v, hv⟩
        simp only [List.mem_cons, Prod.mk.injEq] at hv
        rcases hv with hv | hv
        · exact absurd hv.1.symm h
        · exact ⟨v, hv⟩

theorem mem_aset' {l : List (Addr × α)} {k : Addr} {v : α} {e : Addr × α} (h : e ∈ aset l k v) :
    e = (k, v) ∨ e ∈ l := by
  induction l with
  | nil => simp [aset] at h; exact Or.inl h
  | cons x rest ih =>
    obtain ⟨k', v'⟩ := x
    simp only [aset] at h
    split at h
    · simp only [List.mem_cons] at h ⊢
      rcases h with h | h | h
      · exact Or.inl h
      · exact Or.inr (Or.inl h)
      · exact Or.inr (Or.inr h)
    · split at h
      · simp only [List.mem_cons] at h ⊢
        rcases h with h | h
        · exact Or.inl h
        · exact Or.inr (Or.inr h)
      · simp only [List.mem_cons] at h ⊢
        rcases h with h | h
        · exact Or.inr (Or.inl h)
        · rcases ih h with h | h
          · exact Or.inl h
          · exact Or.inr (Or.inr h)

theorem forall_aset {l : List (Addr × α)} {k : Addr} {v : α} {P : Addr × α → Prop}
    (hl : ∀ e ∈ l, P e) (hv : P (k, v)) : ∀ e ∈ aset l k v, P e := by
  intro e he
  rcases mem_aset' he with h | h
  · subst h; exact hv
  · exact hl e h

theorem keysAsc_aset {l : List (Addr × α)} (hl : KeysAsc l) (k : Addr) (v : α) : KeysAsc (aset l k v) := by
  induction l with
  | nil => simp [aset, KeysAsc]
  | cons x rest ih =>
    obtain ⟨k', v'⟩ := x
    simp only [KeysAsc, List.pairwise_cons] at hl
    simp only [aset]
    split
    · rename_i h
      simp only [KeysAsc, List.pairwise_cons, List.mem_cons]
      refine ⟨?_, hl⟩
      intro e he
      rcases he with he | he
      · subst he; exact h
      · exact String.lt_trans h (hl.1 e he)
    · split
      · rename_i h1 h2
        simp at h2; subst h2
        simp only [KeysAsc, List.pairwise_cons]
        exact hl
      · rename_i h1 h2
        simp at h2
        simp only [KeysAsc, List.pairwise_cons]
        refine ⟨?_, ih hl.2⟩
        intro e he
        rcases mem_aset' he with he | he
        · subst he; show k' < k; grind
        · exact hl.1 e he

theorem mem_adel {l : List (Addr × α)} {k : Addr} {e : Addr × α} (h : e ∈ adel l k) : e ∈ l := by
  induction l with
  | nil => simp [adel] at h
  | cons x rest ih =>
    obtain ⟨k', v'⟩ := x
    simp only [adel] at h
    split at h
    · exact List.mem_cons_of_mem _ h
    · simp only [List.mem_cons] at h ⊢
      rcases h with h | h
      · exact Or.inl h
      · exact Or.inr (ih h)

theorem keysAsc_adel {l : List (Addr × α)} (hl : KeysAsc l) (k : Addr) : KeysAsc (adel l k) := by
  induction l with
  | nil => simp [adel, KeysAsc]
  | cons x rest ih =>
    obtain ⟨k', v'⟩ := x
    simp only [KeysAsc, List.pairwise_cons] at hl
    simp only [adel]
    split
    · exact hl.2
    · simp only [KeysAsc, List.pairwise_cons]
      exact ⟨fun e he => hl.1 e (mem_adel he), ih hl.2⟩

theorem aget_adel {l : List (Addr × α)} (hl : KeysAsc l) (k q : Addr) :
    aget (adel l k) q = if k = q then none else aget l q := by
  induction l with
  | nil => simp [adel, aget]
  | cons x rest ih =>
    obtain ⟨k', v'⟩ := x
    simp only [KeysAsc, List.pairwise_cons] at hl
    simp only [adel]
    split
    · rename_i h; simp at h; subst h
      split
      · rename_i h2; subst h2
        exact aget_none_of_lt hl.1
      · rename_i h2; simp [aget, h2]
    · rename_i h; simp at h
      simp only [aget, ih hl.2]
      by_cases h3 : k' = q
      · subst h3; simp [h]
      · simp [h3]

theorem aget_adel_self {l : List (Addr × α)} (hl : KeysAsc l) (k : Addr) : aget (adel l k) k = none := by
  simp [aget_adel hl]

theorem aget_adel_ne {l : List (Addr × α)} (hl : KeysAsc l) {k q : Addr} (h : k ≠ q) :
    aget (adel l k) q = aget l q := by
  simp [aget_adel hl, h]

/-- sorted association lists are determined by their lookup function -/
theorem keysAsc_ext {l1 l2 : List (Addr × α)} (h1 : KeysAsc l1) (h2 : KeysAsc l2)
    (h : ∀ k, aget l1 k = aget l2 k) : l1 = l2 := by
  induction l1 generalizing l2 with
  | nil =>
    cases l2 with
    | nil => rfl
    | cons y r2 => have := h y.1; simp [aget] at this
  | cons x r1 ih =>
    cases l2 with
    | nil => have := h x.1; simp [aget] at this
    | cons y r2 =>
      obtain ⟨k1, v1⟩ := x
      obtain ⟨k2, v2⟩ := y
      simp only [KeysAsc, List.pairwise_cons] at h1 h2
      have hk : k1 = k2 := by
        have a1 := h k1
        have a2 := h k2
        simp only [aget, beq_self_eq_true, if_true] at a1 a2
        by_cases hk : k1 = k2
        · exact hk
        · have hk' : ¬ k2 = k1 := fun h => hk h.symm
          simp [hk, hk'] at a1 a2
          have m1 := aget_some_mem a1.symm
          have m2 := aget_some_mem a2
          have := h2.1 _ m1
          have := h1.1 _ m2
          grind
      subst hk
      have hv : v1 = v2 := by
        have a1 := h k1
        simpa [aget] using a1
      subst hv
      congr 1
      apply ih h1.2 h2.2
      intro k
      have := h k
      simp only [aget] at this
      by_cases hk : k1 = k
      · subst hk
        rw [aget_none_of_lt h1.1, aget_none_of_lt h2.1]
      · simpa [hk] using this

end alist

/-! ### sums over association lists -/

def asum {α : Type} (f : α → Int) (l : List (Addr × α)) : Int := (l.map (fun e => f e.2)).sum

theorem asum_aset {α : Type} (f : α → Int) {l : List (Addr × α)} (hl : KeysAsc l) (k : Addr) (v : α) :
    asum f (aset l k v) = asum f l - (match aget l k with | some v0 => f v0 | none => 0) + f v := by
  induction l with
  | nil => simp [aset, asum, aget]
  | cons x rest ih =>
    obtain ⟨k', v'⟩ := x
    simp only [KeysAsc, List.pairwise_cons] at hl
    simp only [aset]
    split
    · rename_i h
      have : aget ((k', v') :: rest) k = none := by
        apply aget_none_of_lt
        intro e he
        simp only [List.mem_cons] at he
        rcases he with he | he
        · subst he; exact h
        · exact String.lt_trans h (hl.1 e he)
      rw [this]; simp [asum]; omega
    · split
      · rename_i h1 h2; simp at h2; subst h2
        simp [aget, asum]; omega
      · rename_i h1 h2; simp at h2
        have h3 : ¬ k' = k := fun h => h2 h.symm
        have := ih hl.2
        simp only [asum, List.map_cons, List.sum_cons] at this ⊢
        simp only [aget]
        simp [h3]
        rw [this]; omega

theorem asum_adel {α : Type} (f : α → Int) {l : List (Addr × α)} (hl : KeysAsc l) (k : Addr) :
    asum f (adel l k) = asum f l - (match aget l k with | some v0 => f v0 | none => 0) := by
  induction l with
  | nil => simp [adel, asum, aget]
  | cons x rest ih =>
    obtain ⟨k', v'⟩ := x
    simp only [KeysAsc, List.pairwise_cons] at hl
    simp only [adel]
    split
    · rename_i h; simp at h; subst h
      simp [aget, asum]; omega
    · rename_i h; simp at h
      have h3 : ¬ k' = k := fun h' => h h'.symm
      have := ih hl.2
      simp only [asum, List.map_cons, List.sum_cons] at this ⊢
      simp only [aget]
      simp [h3]
      rw [this]; omega

theorem asum_nonneg {α : Type} (f : α → Int) {l : List (Addr × α)} (h : ∀ e ∈ l, 0 ≤ f e.2) : 0 ≤ asum f l := by
  induction l with
  | nil => simp [asum]
  | cons x rest ih =>
    simp only [asum, List.map_cons, List.sum_cons]
    have h1 := h x (by simp)
    have h2 := ih (fun e he => h e (List.mem_cons_of_mem _ he))
    simp only [asum] at h2
    omega

theorem asum_ge_of_aget {α : Type} (f : α → Int) {l : List (Addr × α)} (h : ∀ e ∈ l, 0 ≤ f e.2)
    {k : Addr} {v : α} (hk : aget l k = some v) : f v ≤ asum f l := by
  induction l with
  | nil => simp [aget] at hk
  | cons x rest ih =>
    obtain ⟨k', v'⟩ := x
    simp only [asum, List.map_cons, List.sum_cons]
    have h1 := h (k', v') (by simp)
    have h2 := asum_nonneg f (fun e he => h e (List.mem_cons_of_mem _ he))
    simp only [asum] at h2
    simp only [aget] at hk
    split at hk
    · simp at hk; subst hk; simp at h1 ⊢; omega
    · have := ih (fun e he => h e (List.mem_cons_of_mem _ he)) hk
      simp only [asum] at this
      simp at h1; omega

/-! ### the power index: `idxLt` is a strict total order, `idxInsert` / `idxRemove` -/

theorem idxLt_iff (a b : Int × Addr) : idxLt a b = true ↔ (a.1 < b.1 ∨ (a.1 = b.1 ∧ b.2 < a.2)) := by
  simp [idxLt]

theorem idxLt_irrefl (a : Int × Addr) : idxLt a a = false := by
  simp [idxLt]

theorem idxLt_trans {a b c : Int × Addr} (h1 : idxLt a b = true) (h2 : idxLt b c = true) : idxLt a c = true := by
  rw [idxLt_iff] at *
  rcases h1 with h1 | ⟨h1, h1'⟩ <;> rcases h2 with h2 | ⟨h2, h2'⟩
  · left; omega
  · left; omega
  · left; omega
  · right; exact ⟨by omega, String.lt_trans h2' h1'⟩

theorem idxLt_asymm {a b : Int × Addr} (h1 : idxLt a b = true) : idxLt b a = false := by
  cases h : idxLt b a with
  | false => rfl
  | true => have := idxLt_trans h1 h; simp [idxLt_irrefl] at this

theorem idxLt_total {a b : Int × Addr} (h1 : idxLt a b = false) (h2 : a ≠ b) : idxLt b a = true := by
  obtain ⟨a1, a2⟩ := a
  obtain ⟨b1, b2⟩ := b
  have h1' : ¬ (idxLt (a1, a2) (b1, b2) = true) := by simp [h1]
  rw [idxLt_iff] at h1' ⊢
  simp only [ne_eq, Prod.mk.injEq, not_and] at h2
  simp only at h1' ⊢
  by_cases h : b1 < a1
  · exact Or.inl h
  · right
    have : a1 = b1 := by omega
    subst this
    refine ⟨rfl, ?_⟩
    have hne : a2 ≠ b2 := h2 rfl
    have : ¬ b2 < a2 := fun h => h1' (Or.inr ⟨rfl, h⟩)
    grind

theorem mem_idxInsert (l : List (Int × Addr)) (e x : Int × Addr) : x ∈ idxInsert l e ↔ x = e ∨ x ∈ l := by
  induction l with
  | nil => simp [idxInsert]
  | cons y rest ih =>
    simp only [idxInsert]
    split
    · simp
    · split
      · rename_i h1 h2; simp at h2; subst h2; simp
      · simp only [List.mem_cons, ih]
        constructor
        · rintro (h | h | h)
          · exact Or.inr (Or.inl h)
          · exact Or.inl h
          · exact Or.inr (Or.inr h)
        · rintro (h | h | h)
          · exact Or.inr (Or.inl h)
          · exact Or.inl h
          · exact Or.inr (Or.inr h)

theorem pairwise_idxInsert {l : List (Int × Addr)} (hl : l.Pairwise (fun x y => idxLt x y = true)) (e : Int × Addr) :
    (idxInsert l e).Pairwise (fun x y => idxLt x y = true) := by
  induction l with
  | nil => simp [idxInsert]
  | cons y rest ih =>
    simp only [List.pairwise_cons] at hl
    simp only [idxInsert]
    split
    · rename_i h
      simp only [List.pairwise_cons, List.mem_cons]
      refine ⟨?_, hl⟩
      rintro z (hz | hz)
      · subst hz; exact h
      · exact idxLt_trans h (hl.1 z hz)
    · split
      · simp only [List.pairwise_cons]; exact hl
      · rename_i h1 h2
        simp at h1 h2
        simp only [List.pairwise_cons]
        refine ⟨?_, ih hl.2⟩
        intro z hz
        rw [mem_idxInsert] at hz
        rcases hz with hz | hz
        · subst hz; exact idxLt_total h1 h2
        · exact hl.1 z hz

theorem mem_idxRemove (l : List (Int × Addr)) (e x : Int × Addr) : x ∈ idxRemove l e ↔ x ∈ l ∧ x ≠ e := by
  simp [idxRemove]

theorem pairwise_idxRemove {l : List (Int × Addr)} (hl : l.Pairwise (fun x y => idxLt x y = true)) (e : Int × Addr) :
    (idxRemove l e).Pairwise (fun x y => idxLt x y = true) :=
  List.Pairwise.filter _ hl

theorem idxRemove_of_not_mem {l : List (Int × Addr)} {e : Int × Addr} (h : e ∉ l) : idxRemove l e = l := by
  simp only [idxRemove, List.filter_eq_self]
  intro a ha
  simp; intro h2; subst h2; exact h ha

/-! ### the unstaking queue: `qGet` / `qSet` / `qDel` -/

theorem qGet_nil (t : Int) : qGet [] t = [] := rfl

theorem qGet_cons (t0 : Int) (l0 : List Addr) (rest : List (Int × List Addr)) (t : Int) :
    qGet ((t0, l0) :: rest) t = if t0 = t then l0 else qGet rest t := by
  simp only [qGet, List.find?_cons]
  by_cases h : t0 = t
  · simp [h]
  · have : (t0 == t) = false := by simp [h]
    simp [this, h]

theorem qGet_qSet (q : List (Int × List Addr)) (t t' : Int) (l : List Addr) :
    qGet (qSet q t l) t' = if t = t' then l else qGet q t' := by
  induction q with
  | nil => simp only [qSet, qGet_cons, qGet_nil]
  | cons x rest ih =>
    obtain ⟨t0, l0⟩ := x
    simp only [qSet]
    split
    · simp only [qGet_cons]
    · split
      · rename_i h1 h2; simp at h2; subst h2
        simp only [qGet_cons]
        by_cases h : t = t' <;> simp [h]
      · rename_i h1 h2; simp at h2
        simp only [qGet_cons, ih]
        by_cases h : t0 = t'
        · subst h; simp [h2]
        · simp [h]

theorem qGet_qDel (q : List (Int × List Addr)) (t t' : Int) :
    qGet (qDel q t) t' = if t = t' then [] else qGet q t' := by
  induction q with
  | nil => simp [qDel, qGet_nil]
  | cons x rest ih =>
    obtain ⟨t0, l0⟩ := x
    simp only [qDel, List.filter_cons] at ih ⊢
    by_cases h0 : t0 = t
    · subst h0
      simp only [bne_self_eq_false, Bool.false_eq_true, if_false]
      rw [ih, qGet_cons]
      by_cases h : t0 = t' <;> simp [h]
    · have : (t0 != t) = true := by simp [h0]
      simp only [this, if_true, qGet_cons, ih]
      by_cases h : t0 = t'
      · subst h; simp; intro h; exact absurd h.symm h0
      · simp [h]

theorem mem_qSet {q : List (Int × List Addr)} {t : Int} {l : List Addr} {e : Int × List Addr}
    (h : e ∈ qSet q t l) : e = (t, l) ∨ e ∈ q := by
  induction q with
  | nil => simp [qSet] at h; exact Or.inl h
  | cons x rest ih =>
    obtain ⟨t0, l0⟩ := x
    simp only [qSet] at h
    split at h
    · simp only [List.mem_cons] at h ⊢
      rcases h with h | h | h
      · exact Or.inl h
      · exact Or.inr (Or.inl h)
      · exact Or.inr (Or.inr h)
    · split at h
      · simp only [List.mem_cons] at h ⊢
        rcases h with h | h
        · exact Or.inl h
        · exact Or.inr (Or.inr h)
      · simp only [List.mem_cons] at h ⊢
        rcases h with h | h
        · exact Or.inr (Or.inl h)
        · rcases ih h with h | h
          · exact Or.inl h
          · exact Or.inr (Or.inr h)

theorem pairwise_qSet {q : List (Int × List Addr)} (hq : q.Pairwise (fun x y => x.1 < y.1)) (t : Int) (l : List Addr) :
    (qSet q t l).Pairwise (fun x y => x.1 < y.1) := by
  induction q with
  | nil => simp [qSet]
  | cons x rest ih =>
    obtain ⟨t0, l0⟩ := x
    simp only [List.pairwise_cons] at hq
    simp only [qSet]
    split
    · rename_i h
      simp only [List.pairwise_cons, List.mem_cons]
      refine ⟨?_, hq⟩
      rintro z (hz | hz)
      · subst hz; exact h
      · have := hq.1 z hz; simp at this ⊢; omega
    · split
      · rename_i h1 h2; simp at h2; subst h2
        simp only [List.pairwise_cons]; exact hq
      · rename_i h1 h2; simp at h2
        simp only [List.pairwise_cons]
        refine ⟨?_, ih hq.2⟩
        intro z hz
        rcases mem_qSet hz with hz | hz
        · subst hz; simp; omega
        · exact hq.1 z hz

theorem mem_qDel {q : List (Int × List Addr)} {t : Int} {e : Int × List Addr} (h : e ∈ qDel q t) : e ∈ q := by
  simp [qDel] at h; exact h.1

theorem pairwise_qDel {q : List (Int × List Addr)} (hq : q.Pairwise (fun x y => x.1 < y.1)) (t : Int) :
    (qDel q t).Pairwise (fun x y => x.1 < y.1) :=
  List.Pairwise.filter _ hq

/-- with distinct times, the slot found under a time is the entry itself -/
theorem qGet_of_mem {q : List (Int × List Addr)} (hq : q.Pairwise (fun x y => x.1 < y.1))
    {e : Int × List Addr} (he : e ∈ q) : qGet q e.1 = e.2 := by
  induction q with
  | nil => simp at he
  | cons x rest ih =>
    obtain ⟨t0, l0⟩ := x
    simp only [List.pairwise_cons] at hq
    simp only [List.mem_cons] at he
    rw [qGet_cons]
    rcases he with he | he
    · subst he; simp
    · have := hq.1 e he
      have hne : ¬ t0 = e.1 := by omega
      simp [hne]
      exact ih hq.2 he

theorem qGet_eq_nil_or_mem (q : List (Int × List Addr)) (t : Int) :
    qGet q t = [] ∨ (t, qGet q t) ∈ q := by
  induction q with
  | nil => simp [qGet_nil]
  | cons x rest ih =>
    obtain ⟨t0, l0⟩ := x
    rw [qGet_cons]
    by_cases h : t0 = t
    · subst h; simp
    · simp [h]
      rcases ih with ih | ih
      · exact Or.inl ih
      · exact Or.inr (Or.inr ih)

theorem qDel_of_qGet_nil {q : List (Int × List Addr)} (hne : ∀ e ∈ q, e.2 ≠ []) {t : Int} (h : qGet q t = []) :
    qDel q t = q := by
  induction q with
  | nil => rfl
  | cons x rest ih =>
    obtain ⟨t0, l0⟩ := x
    rw [qGet_cons] at h
    by_cases h0 : t0 = t
    · subst h0; simp at h; exact absurd h (hne (t0, l0) (by simp))
    · simp [h0] at h
      simp only [qDel, List.filter_cons]
      have : (t0 != t) = true := by simp [h0]
      simp only [this, if_true]
      congr 1
      exact ih (fun e he => hne e (List.mem_cons_of_mem _ he)) h

/-! ### bank operations touch only `bal` / `supply` -/

/-- `s'` differs from `s` at most in `bal` and `supply` (and the balances of the second denomination, which no
invariant of the staking coin mentions) -/
def BankOnly (s s' : State) : Prop := ∃ b sup b2 ac, s' = { s with bal := b, supply := sup, bal2 := b2, accts := ac }

theorem BankOnly.refl (s : State) : BankOnly s s := ⟨s.bal, s.supply, s.bal2, s.accts, rfl⟩

theorem BankOnly.trans {s1 s2 s3 : State} (h1 : BankOnly s1 s2) (h2 : BankOnly s2 s3) : BankOnly s1 s3 := by
  obtain ⟨b, sup, b2, ac, rfl⟩ := h1
  obtain ⟨b', sup', b2', ac', rfl⟩ := h2
  exact ⟨b', sup', b2', ac', rfl⟩

theorem setBal_bankOnly (s : State) (a : Addr) (x : Int) : BankOnly s (setBal s a x) := ⟨_, s.supply, s.bal2, s.accts, rfl⟩

theorem bal2_bankOnly (s : State) (b2 : List (Addr × Int)) : BankOnly s { s with bal2 := b2 } :=
  ⟨s.bal, s.supply, b2, s.accts, rfl⟩

theorem send2_getD_bankOnly (s : State) (src dst : Addr) (amt : Int) : BankOnly s ((send2 s src dst amt).getD s) :=
  ⟨s.bal, s.supply, _, s.accts, F2.send2_getD_frame s src dst amt⟩

theorem rewardFromFees2_bankOnly (s : State) : BankOnly s (rewardFromFees2 s) :=
  ⟨s.bal, s.supply, _, s.accts, F2.rewardFromFees2_frame s⟩

theorem send_bankOnly {s s' : State} {src dst : Addr} {amt : Int} (h : send s src dst amt = some s') : BankOnly s s' := by
  simp only [send] at h
  split at h
  · simp at h
  · simp at h; subst h; exact ⟨_, s.supply, s.bal2, _, rfl⟩

theorem mint_bankOnly (s : State) (acc : Addr) (amt : Int) : BankOnly s (mint s acc amt) := ⟨_, _, s.bal2, s.accts, rfl⟩

theorem burnFrom_bankOnly {s s' : State} {acc : Addr} {amt : Int} (h : burnFrom s acc amt = some s') : BankOnly s s' := by
  simp only [burnFrom] at h
  split at h
  · simp at h
  · simp at h; subst h; exact ⟨_, _, s.bal2, s.accts, rfl⟩

/-- the exact shape (no change of the second denomination) -/
theorem send_exact {s s' : State} {src dst : Addr} {amt : Int} (h : send s src dst amt = some s') :
    ∃ b sup ac, s' = { s with bal := b, supply := sup, accts := ac } := by
  simp only [send] at h
  split at h
  · simp at h
  · simp at h; subst h; exact ⟨_, s.supply, _, rfl⟩

theorem burnFrom_exact {s s' : State} {acc : Addr} {amt : Int} (h : burnFrom s acc amt = some s') :
    ∃ b sup, s' = { s with bal := b, supply := sup } := by
  simp only [burnFrom] at h
  split at h
  · simp at h
  · simp at h; subst h; exact ⟨_, _, rfl⟩

theorem getD_bankOnly {s : State} {o : Option State} (h : ∀ s', o = some s' → BankOnly s s') : BankOnly s (o.getD s) := by
  cases o with
  | none => exact BankOnly.refl s
  | some s' => exact h s' rfl

theorem send_getD_bankOnly (s : State) (src dst : Addr) (amt : Int) : BankOnly s ((send s src dst amt).getD s) :=
  getD_bankOnly fun _ h => send_bankOnly h

theorem burnFrom_getD_bankOnly (s : State) (acc : Addr) (amt : Int) : BankOnly s ((burnFrom s acc amt).getD s) :=
  getD_bankOnly fun _ h => burnFrom_bankOnly h

/-! ### balances -/

theorem balOf_setBal {s : State} (h : KeysAsc s.bal) (a b : Addr) (x : Int) :
    balOf (setBal s a x) b = if a = b then x else balOf s b := by
  simp only [balOf, setBal]
  split
  · rename_i hx; simp at hx; subst hx
    rw [aget_adel h]
    by_cases hab : a = b <;> simp [hab]
  · rw [aget_aset]
    by_cases hab : a = b <;> simp [hab]

theorem keysAsc_setBal {s : State} (h : KeysAsc s.bal) (a : Addr) (x : Int) : KeysAsc (setBal s a x).bal := by
  simp only [setBal]
  split
  · exact keysAsc_adel h a
  · exact keysAsc_aset h a x

theorem send_isSome {s : State} {src dst : Addr} {amt : Int} (h : amt ≤ balOf s src) : ∃ s', send s src dst amt = some s' := by
  simp only [send]
  have : ¬ balOf s src < amt := by omega
  simp [this]

theorem send_spec {s s' : State} {src dst : Addr} {amt : Int} (hb : KeysAsc s.bal) (h : send s src dst amt = some s') :
    amt ≤ balOf s src ∧ KeysAsc s'.bal ∧
    ∀ b, balOf s' b = balOf s b - (if src = b then amt else 0) + (if dst = b then amt else 0) := by
  simp only [send] at h
  split at h
  · simp at h
  · rename_i h1
    simp at h; subst h
    refine ⟨by omega, keysAsc_setBal (keysAsc_setBal hb _ _) _ _, ?_⟩
    intro b
    simp only [balOf_touch, balOf_setBal (keysAsc_setBal hb _ _), balOf_setBal hb]
    by_cases h1 : src = b <;> by_cases h2 : dst = b <;> by_cases h3 : src = dst <;> simp_all <;> omega

theorem burnFrom_isSome {s : State} {acc : Addr} {amt : Int} (h : amt ≤ balOf s acc) : ∃ s', burnFrom s acc amt = some s' := by
  simp only [burnFrom]
  have : ¬ balOf s acc < amt := by omega
  simp [this]

theorem burnFrom_spec {s s' : State} {acc : Addr} {amt : Int} (hb : KeysAsc s.bal) (h : burnFrom s acc amt = some s') :
    amt ≤ balOf s acc ∧ KeysAsc s'.bal ∧ ∀ b, balOf s' b = balOf s b - (if acc = b then amt else 0) := by
  simp only [burnFrom] at h
  split at h
  · simp at h
  · simp at h; subst h
    refine ⟨by omega, keysAsc_setBal hb _ _, ?_⟩
    intro b
    have := balOf_setBal hb acc b (balOf s acc - amt)
    simp only [balOf, setBal] at this ⊢
    rw [this]
    by_cases h1 : acc = b <;> simp [h1]

theorem mint_spec {s : State} (hb : KeysAsc s.bal) (acc : Addr) (amt : Int) :
    KeysAsc (mint s acc amt).bal ∧ ∀ b, balOf (mint s acc amt) b = balOf s b + (if acc = b then amt else 0) := by
  refine ⟨keysAsc_setBal hb _ _, ?_⟩
  intro b
  have := balOf_setBal hb acc b (balOf s acc + amt)
  simp only [balOf, setBal, mint] at this ⊢
  rw [this]
  by_cases h1 : acc = b <;> simp [h1]

/-! ### exactness of index and queue, at the level of the lists -/

def IdxEx (vals : List (Addr × Val)) (idx : List (Int × Addr)) : Prop :=
  (∀ pw a, (pw, a) ∈ idx ↔ ∃ v, aget vals a = some v ∧ v.status = 2 ∧ v.jailed = false ∧ pw = power v.tokens) ∧
  idx.Pairwise (fun x y => idxLt x y = true)

def QEx (vals : List (Addr × Val)) (queue : List (Int × List Addr)) : Prop :=
  (∀ t a, a ∈ qGet queue t ↔ ∃ v, aget vals a = some v ∧ v.status = 1 ∧ v.unstake = t) ∧
  queue.Pairwise (fun x y => x.1 < y.1) ∧ (∀ e ∈ queue, e.2 ≠ [] ∧ e.2.Nodup)

theorem indexExact_iff (s : State) : IndexExact s ↔ IdxEx s.vals s.idx := Iff.rfl
theorem queueExact_iff (s : State) : QueueExact s ↔ QEx s.vals s.queue := Iff.rfl

theorem IdxEx.update {vals : List (Addr × Val)} {idx idx' : List (Int × Addr)} (h : IdxEx vals idx)
    (a : Addr) (v1 : Val)
    (hp : idx'.Pairwise (fun x y => idxLt x y = true))
    (ha : ∀ pw, (pw, a) ∈ idx' ↔ (v1.status = 2 ∧ v1.jailed = false ∧ pw = power v1.tokens))
    (hb : ∀ pw b, b ≠ a → ((pw, b) ∈ idx' ↔ (pw, b) ∈ idx)) : IdxEx (aset vals a v1) idx' := by
  refine ⟨?_, hp⟩
  intro pw b
  by_cases hba : b = a
  · subst hba
    rw [ha, aget_aset_self]
    constructor
    · rintro ⟨h1, h2, h3⟩; exact ⟨v1, rfl, h1, h2, h3⟩
    · rintro ⟨v, hv, h1, h2, h3⟩; cases hv; exact ⟨h1, h2, h3⟩
  · rw [hb pw b hba, aget_aset_ne _ _ (fun h => hba h.symm)]
    exact h.1 pw b

theorem IdxEx.delete {vals : List (Addr × Val)} {idx : List (Int × Addr)} (hasc : KeysAsc vals) (h : IdxEx vals idx)
    (a : Addr) (hna : ∀ pw, (pw, a) ∉ idx) : IdxEx (adel vals a) idx := by
  refine ⟨?_, h.2⟩
  intro pw b
  by_cases hba : b = a
  · subst hba
    rw [aget_adel_self hasc]
    simp [hna]
  · rw [aget_adel_ne hasc (fun h => hba h.symm)]
    exact h.1 pw b

theorem QEx.update {vals : List (Addr × Val)} {q q' : List (Int × List Addr)} (h : QEx vals q)
    (a : Addr) (v1 : Val)
    (hp : q'.Pairwise (fun x y => x.1 < y.1)) (hn : ∀ e ∈ q', e.2 ≠ [] ∧ e.2.Nodup)
    (ha : ∀ t, a ∈ qGet q' t ↔ (v1.status = 1 ∧ v1.unstake = t))
    (hb : ∀ t b, b ≠ a → (b ∈ qGet q' t ↔ b ∈ qGet q t)) : QEx (aset vals a v1) q' := by
  refine ⟨?_, hp, hn⟩
  intro t b
  by_cases hba : b = a
  · subst hba
    rw [ha, aget_aset_self]
    constructor
    · rintro ⟨h1, h2⟩; exact ⟨v1, rfl, h1, h2⟩
    · rintro ⟨v, hv, h1, h2⟩; cases hv; exact ⟨h1, h2⟩
  · rw [hb t b hba, aget_aset_ne _ _ (fun h => hba h.symm)]
    exact h.1 t b

theorem QEx.delete {vals : List (Addr × Val)} {q q' : List (Int × List Addr)} (hasc : KeysAsc vals) (h : QEx vals q)
    (a : Addr)
    (hp : q'.Pairwise (fun x y => x.1 < y.1)) (hn : ∀ e ∈ q', e.2 ≠ [] ∧ e.2.Nodup)
    (ha : ∀ t, a ∉ qGet q' t)
    (hb : ∀ t b, b ≠ a → (b ∈ qGet q' t ↔ b ∈ qGet q t)) : QEx (adel vals a) q' := by
  refine ⟨?_, hp, hn⟩
  intro t b
  by_cases hba : b = a
  · subst hba
    rw [aget_adel_self hasc]
    simp [ha]
  · rw [hb t b hba, aget_adel_ne hasc (fun h => hba h.symm)]
    exact h.1 t b

/-- facts about the index entry of `a` -/
theorem IdxEx.mem_a {vals : List (Addr × Val)} {idx : List (Int × Addr)} (h : IdxEx vals idx) {a : Addr} {v : Val}
    (hv : aget vals a = some v) (pw : Int) :
    (pw, a) ∈ idx ↔ (v.status = 2 ∧ v.jailed = false ∧ pw = power v.tokens) := by
  rw [h.1, hv]
  constructor
  · rintro ⟨v', hv', h1⟩; cases hv'; exact h1
  · intro h1; exact ⟨v, rfl, h1⟩

theorem IdxEx.not_mem_none {vals : List (Addr × Val)} {idx : List (Int × Addr)} (h : IdxEx vals idx) {a : Addr}
    (hv : aget vals a = none) (pw : Int) : (pw, a) ∉ idx := by
  rw [h.1, hv]; simp

theorem QEx.mem_a {vals : List (Addr × Val)} {q : List (Int × List Addr)} (h : QEx vals q) {a : Addr} {v : Val}
    (hv : aget vals a = some v) (t : Int) : a ∈ qGet q t ↔ (v.status = 1 ∧ v.unstake = t) := by
  rw [h.1, hv]
  constructor
  · rintro ⟨v', hv', h1⟩; cases hv'; exact h1
  · intro h1; exact ⟨v, rfl, h1⟩

theorem QEx.not_mem_none {vals : List (Addr × Val)} {q : List (Int × List Addr)} (h : QEx vals q) {a : Addr}
    (hv : aget vals a = none) (t : Int) : a ∉ qGet q t := by
  rw [h.1, hv]; simp

/-! ### queue list operations -/

def qEnq (q : List (Int × List Addr)) (a : Addr) (t : Int) : List (Int × List Addr) := qSet q t (qGet q t ++ [a])

def qDeq (q : List (Int × List Addr)) (a : Addr) (t : Int) : List (Int × List Addr) :=
  if ((qGet q t).filter (· != a)).isEmpty then qDel q t else qSet q t ((qGet q t).filter (· != a))

theorem enqueue_eq (s : State) (a : Addr) (t : Int) : enqueue s a t = { s with queue := qEnq s.queue a t } := rfl
theorem dequeue_eq (s : State) (a : Addr) (t : Int) : dequeue s a t = { s with queue := qDeq s.queue a t } := rfl

theorem mem_qGet_qEnq (q : List (Int × List Addr)) (a b : Addr) (t t' : Int) :
    b ∈ qGet (qEnq q a t) t' ↔ (b ∈ qGet q t' ∨ (b = a ∧ t = t')) := by
  simp only [qEnq, qGet_qSet]
  by_cases h : t = t'
  · subst h; simp
  · simp [h]

theorem qEnq_struct {q : List (Int × List Addr)} (hp : q.Pairwise (fun x y => x.1 < y.1))
    (hn : ∀ e ∈ q, e.2 ≠ [] ∧ e.2.Nodup) {a : Addr} {t : Int} (ha : a ∉ qGet q t) :
    (qEnq q a t).Pairwise (fun x y => x.1 < y.1) ∧ ∀ e ∈ qEnq q a t, e.2 ≠ [] ∧ e.2.Nodup := by
  refine ⟨pairwise_qSet hp _ _, ?_⟩
  intro e he
  rcases mem_qSet he with he | he
  · subst he
    refine ⟨by simp, ?_⟩
    rcases qGet_eq_nil_or_mem q t with h | h
    · simp [h]
    · have := (hn _ h).2
      simp only at this
      rw [List.nodup_append]
      refine ⟨this, by simp, ?_⟩
      intro x hx y hy
      simp at hy; subst hy
      intro hxy; subst hxy; exact ha hx
  · exact hn e he

theorem mem_qGet_qDeq (q : List (Int × List Addr)) (a b : Addr) (t t' : Int) :
    b ∈ qGet (qDeq q a t) t' ↔ (b ∈ qGet q t' ∧ ¬ (b = a ∧ t = t')) := by
  simp only [qDeq]
  split
  · rename_i h
    simp only [List.isEmpty_iff, List.filter_eq_nil_iff] at h
    rw [qGet_qDel]
    by_cases h1 : t = t'
    · subst h1; simp
      intro hb
      have := h b hb; simpa using this
    · simp [h1]
  · rw [qGet_qSet]
    by_cases h1 : t = t'
    · subst h1; simp
    · simp [h1]

theorem qDeq_struct {q : List (Int × List Addr)} (hp : q.Pairwise (fun x y => x.1 < y.1))
    (hn : ∀ e ∈ q, e.2 ≠ [] ∧ e.2.Nodup) (a : Addr) (t : Int) :
    (qDeq q a t).Pairwise (fun x y => x.1 < y.1) ∧ ∀ e ∈ qDeq q a t, e.2 ≠ [] ∧ e.2.Nodup := by
  simp only [qDeq]
  split
  · exact ⟨pairwise_qDel hp _, fun e he => hn e (mem_qDel he)⟩
  · rename_i h
    refine ⟨pairwise_qSet hp _ _, ?_⟩
    intro e he
    rcases mem_qSet he with he | he
    · subst he
      refine ⟨by simpa [List.isEmpty_iff] using h, ?_⟩
      rcases qGet_eq_nil_or_mem q t with h' | h'
      · simp [h']
      · exact List.Nodup.sublist List.filter_sublist (hn _ h').2
    · exact hn e he

/-! ### index list operations relative to one address -/

abbrev IdxSorted (idx : List (Int × Addr)) : Prop := idx.Pairwise (fun x y => idxLt x y = true)

/-- what an index must satisfy after validator `a`'s record became `v1` -/
def IdxCond (idx idx' : List (Int × Addr)) (a : Addr) (v1 : Val) : Prop :=
  IdxSorted idx' ∧
  (∀ pw, (pw, a) ∈ idx' ↔ (v1.status = 2 ∧ v1.jailed = false ∧ pw = power v1.tokens)) ∧
  (∀ pw b, b ≠ a → ((pw, b) ∈ idx' ↔ (pw, b) ∈ idx))

/-- what a queue must satisfy after validator `a`'s record became `v1` -/
def QCond (q q' : List (Int × List Addr)) (a : Addr) (v1 : Val) : Prop :=
  q'.Pairwise (fun x y => x.1 < y.1) ∧ (∀ e ∈ q', e.2 ≠ [] ∧ e.2.Nodup) ∧
  (∀ t, a ∈ qGet q' t ↔ (v1.status = 1 ∧ v1.unstake = t)) ∧
  (∀ t b, b ≠ a → (b ∈ qGet q' t ↔ b ∈ qGet q t))

theorem idx_remove_props {idx : List (Int × Addr)} (hp : IdxSorted idx) {a : Addr} {pw0 : Int}
    (hk : ∀ pw, (pw, a) ∈ idx → pw = pw0) :
    IdxSorted (idxRemove idx (pw0, a)) ∧ (∀ pw, (pw, a) ∉ idxRemove idx (pw0, a)) ∧
    (∀ pw b, b ≠ a → ((pw, b) ∈ idxRemove idx (pw0, a) ↔ (pw, b) ∈ idx)) := by
  refine ⟨pairwise_idxRemove hp _, ?_, ?_⟩
  · intro pw h
    rw [mem_idxRemove] at h
    have := hk pw h.1
    subst this
    exact h.2 rfl
  · intro pw b hb
    rw [mem_idxRemove]
    constructor
    · exact fun h => h.1
    · intro h; refine ⟨h, ?_⟩
      intro h2; cases h2; exact hb rfl

theorem idx_insert_props {idx : List (Int × Addr)} (hp : IdxSorted idx) {a : Addr} (pw1 : Int)
    (hk : ∀ pw, (pw, a) ∉ idx) :
    IdxSorted (idxInsert idx (pw1, a)) ∧ (∀ pw, (pw, a) ∈ idxInsert idx (pw1, a) ↔ pw = pw1) ∧
    (∀ pw b, b ≠ a → ((pw, b) ∈ idxInsert idx (pw1, a) ↔ (pw, b) ∈ idx)) := by
  refine ⟨pairwise_idxInsert hp _, ?_, ?_⟩
  · intro pw
    rw [mem_idxInsert]
    constructor
    · rintro (h | h)
      · cases h; rfl
      · exact absurd h (hk pw)
    · intro h; subst h; exact Or.inl rfl
  · intro pw b hb
    rw [mem_idxInsert]
    constructor
    · rintro (h | h)
      · cases h; exact absurd rfl hb
      · exact h
    · exact fun h => Or.inr h

/-- `delStaked` with key power `pw0`, then `setStaked` with the record `v1` -/
theorem idxCond_reindex {idx : List (Int × Addr)} (hp : IdxSorted idx) {a : Addr} {pw0 : Int}
    (hk : ∀ pw, (pw, a) ∈ idx → pw = pw0) (v1 : Val) :
    IdxCond idx (if (v1.jailed || v1.status != 2) = true then idxRemove idx (pw0, a)
      else idxInsert (idxRemove idx (pw0, a)) (power v1.tokens, a)) a v1 := by
  obtain ⟨r1, r2, r3⟩ := idx_remove_props hp hk
  split
  · rename_i hc
    refine ⟨r1, ?_, r3⟩
    intro pw
    constructor
    · intro h; exact absurd h (r2 pw)
    · rintro ⟨h1, h2, _⟩; simp [h1, h2] at hc
  · rename_i hc
    obtain ⟨i1, i2, i3⟩ := idx_insert_props r1 (power v1.tokens) r2
    refine ⟨i1, ?_, ?_⟩
    · intro pw; rw [i2]
      simp at hc
      constructor
      · intro h; exact ⟨hc.2, hc.1, h⟩
      · exact fun h => h.2.2
    · intro pw b hb; rw [i3 pw b hb, r3 pw b hb]

/-- `setStaked` with the record `v1` when `a` has no entry -/
theorem idxCond_insert {idx : List (Int × Addr)} (hp : IdxSorted idx) {a : Addr}
    (hk : ∀ pw, (pw, a) ∉ idx) (v1 : Val) :
    IdxCond idx (if (v1.jailed || v1.status != 2) = true then idx
      else idxInsert idx (power v1.tokens, a)) a v1 := by
  split
  · rename_i hc
    refine ⟨hp, ?_, fun _ _ _ => Iff.rfl⟩
    intro pw
    constructor
    · intro h; exact absurd h (hk pw)
    · rintro ⟨h1, h2, _⟩; simp [h1, h2] at hc
  · rename_i hc
    obtain ⟨i1, i2, i3⟩ := idx_insert_props hp (power v1.tokens) hk
    refine ⟨i1, ?_, i3⟩
    intro pw; rw [i2]
    simp at hc
    constructor
    · intro h; exact ⟨hc.2, hc.1, h⟩
    · exact fun h => h.2.2

/-- `delStaked` only, the new record `v1` is not indexable -/
theorem idxCond_remove {idx : List (Int × Addr)} (hp : IdxSorted idx) {a : Addr} {pw0 : Int}
    (hk : ∀ pw, (pw, a) ∈ idx → pw = pw0) {v1 : Val} (hv1 : ¬ (v1.status = 2 ∧ v1.jailed = false)) :
    IdxCond idx (idxRemove idx (pw0, a)) a v1 := by
  obtain ⟨r1, r2, r3⟩ := idx_remove_props hp hk
  refine ⟨r1, ?_, r3⟩
  intro pw
  constructor
  · intro h; exact absurd h (r2 pw)
  · rintro ⟨h1, h2, _⟩; exact absurd ⟨h1, h2⟩ hv1

/-- the queue is left alone and the new record has the same queue profile -/
theorem qCond_same {vals : List (Addr × Val)} {q : List (Int × List Addr)} (h : QEx vals q) {a : Addr} {v1 : Val}
    (hq : ∀ t, a ∈ qGet q t ↔ (v1.status = 1 ∧ v1.unstake = t)) : QCond q q a v1 :=
  ⟨h.2.1, h.2.2, hq, fun _ _ _ => Iff.rfl⟩

theorem qCond_enq {vals : List (Addr × Val)} {q : List (Int × List Addr)} (h : QEx vals q) {a : Addr} {v1 : Val}
    (hno : ∀ t, a ∉ qGet q t) (h1 : v1.status = 1) : QCond q (qEnq q a v1.unstake) a v1 := by
  obtain ⟨s1, s2⟩ := qEnq_struct h.2.1 h.2.2 (hno v1.unstake)
  refine ⟨s1, s2, ?_, ?_⟩
  · intro t; rw [mem_qGet_qEnq]
    constructor
    · rintro (h | h)
      · exact absurd h (hno t)
      · exact ⟨h1, h.2⟩
    · intro h; exact Or.inr ⟨rfl, h.2⟩
  · intro t b hb; rw [mem_qGet_qEnq]
    constructor
    · rintro (h | h)
      · exact h
      · exact absurd h.1 hb
    · exact fun h => Or.inl h

theorem qCond_deq {vals : List (Addr × Val)} {q : List (Int × List Addr)} (h : QEx vals q) {a : Addr} {t0 : Int} {v1 : Val}
    (hin : ∀ t, a ∈ qGet q t → t = t0) (h1 : v1.status ≠ 1) : QCond q (qDeq q a t0) a v1 := by
  obtain ⟨s1, s2⟩ := qDeq_struct h.2.1 h.2.2 a t0
  refine ⟨s1, s2, ?_, ?_⟩
  · intro t; rw [mem_qGet_qDeq]
    constructor
    · rintro ⟨h2, h3⟩
      exact absurd ⟨rfl, (hin t h2).symm⟩ h3
    · intro h; exact absurd h.1 h1
  · intro t b hb; rw [mem_qGet_qDeq]
    constructor
    · exact fun h => h.1
    · intro h; exact ⟨h, fun h2 => hb h2.1⟩

/-! ### the core invariant: index and queue agree with the validator records -/

structure Core (s : State) : Prop where
  valsAsc : KeysAsc s.vals
  index : IndexExact s
  queue : QueueExact s

theorem Core.update {s s' : State} (h : Core s) (a : Addr) (v1 : Val) (hvals : s'.vals = aset s.vals a v1)
    (hi : IdxCond s.idx s'.idx a v1) (hq : QCond s.queue s'.queue a v1) : Core s' := by
  refine ⟨?_, ?_, ?_⟩
  · rw [hvals]; exact keysAsc_aset h.valsAsc _ _
  · rw [indexExact_iff, hvals]
    exact IdxEx.update h.index a v1 hi.1 hi.2.1 hi.2.2
  · rw [queueExact_iff, hvals]
    exact QEx.update h.queue a v1 hq.1 hq.2.1 hq.2.2.1 hq.2.2.2

theorem Core.of_eq {s s' : State} (h : Core s) (h1 : s'.vals = s.vals) (h2 : s'.idx = s.idx) (h3 : s'.queue = s.queue) :
    Core s' := by
  refine ⟨?_, ?_, ?_⟩
  · rw [h1]; exact h.valsAsc
  · rw [indexExact_iff, h1, h2]; exact h.index
  · rw [queueExact_iff, h1, h3]; exact h.queue

theorem Core.bankOnly {s s' : State} (h : Core s) (hb : BankOnly s s') : Core s' := by
  obtain ⟨b, sup, b2, ac, rfl⟩ := hb
  exact h.of_eq rfl rfl rfl

/-- facts about `a`'s entries, from the record -/
theorem Core.idx_key {s : State} (h : Core s) {a : Addr} {v : Val} (hv : aget s.vals a = some v) :
    ∀ pw, (pw, a) ∈ s.idx → pw = power v.tokens := by
  intro pw hm
  exact ((IdxEx.mem_a h.index hv pw).1 hm).2.2

theorem Core.idx_none {s : State} (h : Core s) {a : Addr} (hv : aget s.vals a = none) :
    ∀ pw, (pw, a) ∉ s.idx := fun pw => IdxEx.not_mem_none h.index hv pw

theorem Core.idx_not {s : State} (h : Core s) {a : Addr} {v : Val} (hv : aget s.vals a = some v)
    (hn : ¬ (v.status = 2 ∧ v.jailed = false)) : ∀ pw, (pw, a) ∉ s.idx := by
  intro pw hm
  have := (IdxEx.mem_a h.index hv pw).1 hm
  exact hn ⟨this.1, this.2.1⟩

theorem Core.q_mem {s : State} (h : Core s) {a : Addr} {v : Val} (hv : aget s.vals a = some v) (t : Int) :
    a ∈ qGet s.queue t ↔ (v.status = 1 ∧ v.unstake = t) := QEx.mem_a h.queue hv t

theorem Core.q_none {s : State} (h : Core s) {a : Addr} (hv : aget s.vals a = none) (t : Int) :
    a ∉ qGet s.queue t := QEx.not_mem_none h.queue hv t

/-! ### token accounting of the staking pool -/

def contrib (v : Val) : Int := if v.status != 0 then v.tokens else 0

def ocontrib : Option Val → Int
  | some v => contrib v
  | none => 0

theorem stakeSum_eq (s : State) : stakeSum s = asum contrib s.vals := by
  simp only [stakeSum, asum]
  induction s.vals with
  | nil => rfl
  | cons x rest ih =>
    simp only [List.filter_cons]
    split
    · rename_i h; simp only [List.map_cons, List.sum_cons, ih, contrib, h, if_true]
    · rename_i h; simp only [List.map_cons, List.sum_cons, ih, contrib, h]; simp

theorem stakeSum_aset {s : State} (hasc : KeysAsc s.vals) (a : Addr) (v1 : Val) (vals' : List (Addr × Val))
    (h : vals' = aset s.vals a v1) : asum contrib vals' = stakeSum s - ocontrib (aget s.vals a) + contrib v1 := by
  subst h
  rw [asum_aset contrib hasc, stakeSum_eq]
  cases aget s.vals a <;> rfl

structure Backed (s : State) : Prop where
  balAsc : KeysAsc s.bal
  tokNonneg : ∀ a v, aget s.vals a = some v → 0 ≤ v.tokens
  unstakedEmpty : UnstakedEmpty s
  pool : PoolBacks s

theorem contrib_nonneg_of {vals : List (Addr × Val)} (hasc : KeysAsc vals)
    (ht : ∀ a v, aget vals a = some v → 0 ≤ v.tokens) : ∀ e ∈ vals, 0 ≤ contrib e.2 := by
  intro e he
  have := ht e.1 e.2 (mem_aget hasc he)
  simp only [contrib]; split <;> omega

theorem Backed.contrib_le {s : State} (hasc : KeysAsc s.vals) (h : Backed s) {a : Addr} {v : Val}
    (hv : aget s.vals a = some v) : contrib v ≤ balOf s s.pool := by
  have h1 := asum_ge_of_aget contrib (contrib_nonneg_of hasc h.tokNonneg) hv
  have h2 := h.pool
  simp only [PoolBacks, stakeSum_eq] at h2
  omega

theorem Backed.update {s s' : State} (hasc : KeysAsc s.vals) (h : Backed s) (a : Addr) (v1 : Val)
    (hvals : s'.vals = aset s.vals a v1) (hbal : KeysAsc s'.bal) (ht : 0 ≤ v1.tokens)
    (hu : v1.status = 0 → v1.tokens = 0)
    (hsur : balOf s s.pool - ocontrib (aget s.vals a) + contrib v1 ≤ balOf s' s'.pool) : Backed s' := by
  refine ⟨hbal, ?_, ?_, ?_⟩
  · intro b v hv
    rw [hvals, aget_aset] at hv
    split at hv
    · cases hv; exact ht
    · exact h.tokNonneg b v hv
  · intro b v hv
    rw [hvals, aget_aset] at hv
    split at hv
    · cases hv; exact hu
    · exact h.unstakedEmpty b v hv
  · have := h.pool
    simp only [PoolBacks] at this ⊢
    rw [stakeSum_eq s', stakeSum_aset hasc a v1 s'.vals hvals]
    omega

theorem Backed.of_eq {s s' : State} (h : Backed s) (h1 : s'.vals = s.vals) (h2 : KeysAsc s'.bal)
    (h3 : balOf s s.pool ≤ balOf s' s'.pool) : Backed s' := by
  refine ⟨h2, ?_, ?_, ?_⟩
  · rw [h1]; exact h.tokNonneg
  · simp only [UnstakedEmpty]; rw [h1]; exact h.unstakedEmpty
  · have := h.pool
    simp only [PoolBacks, stakeSum] at this ⊢
    rw [h1]; omega

/-! ### tombstones -/

/-- the part of `SignOK` that the tombstone theorems need in intermediate states -/
def TombJ (s : State) : Prop :=
  ∀ a si, aget s.sign a = some si → si.tomb = true →
    si.jailedUntil = forever ∧ ∀ v, aget s.vals a = some v → v.jailed = true

structure Big (s : State) : Prop where
  core : Core s
  backed : Backed s
  tomb : TombJ s

/-! ### the shape of the slashing operations: only `vals`, `idx`, `queue`, `bal`, `supply` move -/

def ValsShape (s s' : State) : Prop :=
  ∃ vals idx queue bal sup bal2 ac,
    s' = { s with vals := vals, idx := idx, queue := queue, bal := bal, supply := sup, bal2 := bal2, accts := ac }

theorem ValsShape.refl (s : State) : ValsShape s s := ⟨_, _, _, _, _, _, _, rfl⟩

theorem ValsShape.trans {s1 s2 s3 : State} (h1 : ValsShape s1 s2) (h2 : ValsShape s2 s3) : ValsShape s1 s3 := by
  obtain ⟨_, _, _, _, _, _, _, rfl⟩ := h1
  obtain ⟨_, _, _, _, _, _, _, rfl⟩ := h2
  exact ⟨_, _, _, _, _, _, _, rfl⟩

theorem BankOnly.valsShape {s s' : State} (h : BankOnly s s') : ValsShape s s' := by
  obtain ⟨b, sup, b2, ac, rfl⟩ := h
  exact ⟨_, _, _, _, _, _, _, rfl⟩

/-- monotone relation between the records of one validator across BeginBlock processing -/
def VRel (v v' : Val) : Prop := (v.jailed = true → v'.jailed = true) ∧ (v'.status = v.status ∨ v'.status = 0)

theorem VRel.refl (v : Val) : VRel v v := ⟨id, Or.inl rfl⟩

theorem VRel.trans {v1 v2 v3 : Val} (h1 : VRel v1 v2) (h2 : VRel v2 v3) : VRel v1 v3 := by
  refine ⟨fun h => h2.1 (h1.1 h), ?_⟩
  rcases h1.2 with h | h <;> rcases h2.2 with h' | h'
  · exact Or.inl (h'.trans h)
  · exact Or.inr h'
  · exact Or.inr (h'.trans h)
  · exact Or.inr h'

/-- what BeginBlock processing may do to a state -/
structure Evo (s s' : State) : Prop where
  prev : s'.prev = s.prev
  p : s'.p = s.p
  pool : s'.pool = s.pool
  feeAcc : s'.feeAcc = s.feeAcc
  posAcc : s'.posAcc = s.posAcc
  daoAcc : s'.daoAcc = s.daoAcc
  keys : s'.keys = s.keys
  valsDom : ∀ a, (aget s'.vals a).isSome = (aget s.vals a).isSome
  valsRel : ∀ a v v', aget s.vals a = some v → aget s'.vals a = some v' → VRel v v'
  sign : ∀ a si, aget s.sign a = some si → si.tomb = true → si.jailedUntil = forever →
    ∃ si', aget s'.sign a = some si' ∧ si'.tomb = true ∧ si'.jailedUntil = forever

theorem Evo.refl (s : State) : Evo s s :=
  ⟨rfl, rfl, rfl, rfl, rfl, rfl, rfl, fun _ => rfl, fun a v v' h1 h2 => by rw [h1] at h2; cases h2; exact VRel.refl _,
   fun a si h1 h2 h3 => ⟨si, h1, h2, h3⟩⟩

theorem Evo.trans {s1 s2 s3 : State} (h1 : Evo s1 s2) (h2 : Evo s2 s3) : Evo s1 s3 := by
  refine ⟨h2.prev.trans h1.prev, h2.p.trans h1.p, h2.pool.trans h1.pool, h2.feeAcc.trans h1.feeAcc,
    h2.posAcc.trans h1.posAcc, h2.daoAcc.trans h1.daoAcc, h2.keys.trans h1.keys,
    fun a => (h2.valsDom a).trans (h1.valsDom a), ?_, ?_⟩
  · intro a v v'' hv hv''
    have := h1.valsDom a
    rw [hv] at this
    cases hv' : aget s2.vals a with
    | none => rw [hv'] at this; simp at this
    | some v' => exact (h1.valsRel a v v' hv hv').trans (h2.valsRel a v' v'' hv' hv'')
  · intro a si ha ht hf
    obtain ⟨si', ha', ht', hf'⟩ := h1.sign a si ha ht hf
    exact h2.sign a si' ha' ht' hf'

/-- a single record changes, everything else outside `idx`/`queue`/`bal`/`supply` is kept -/
theorem Evo.of_update {s s' : State} (hs : ValsShape s s') (a : Addr) (v v1 : Val) (hv : aget s.vals a = some v)
    (hvals : s'.vals = aset s.vals a v1) (hr : VRel v v1) : Evo s s' := by
  obtain ⟨_, _, _, _, _, _, _, rfl⟩ := hs
  refine ⟨rfl, rfl, rfl, rfl, rfl, rfl, rfl, ?_, ?_, fun a si h1 h2 h3 => ⟨si, h1, h2, h3⟩⟩
  · intro b
    simp only at hvals
    simp only [hvals, aget_aset]
    split
    · rename_i h; subst h; simp [hv]
    · rfl
  · intro b w w' hw hw'
    simp only at hvals
    simp only [hvals, aget_aset] at hw'
    split at hw'
    · rename_i h; subst h; rw [hv] at hw; cases hw; cases hw'; exact hr
    · rw [hw] at hw'; cases hw'; exact VRel.refl _

theorem Evo.of_same {s s' : State} (hs : ValsShape s s') (hvals : s'.vals = s.vals) : Evo s s' := by
  obtain ⟨_, _, _, _, _, _, _, rfl⟩ := hs
  simp only at hvals
  refine ⟨rfl, rfl, rfl, rfl, rfl, rfl, rfl, ?_, ?_, fun a si h1 h2 h3 => ⟨si, h1, h2, h3⟩⟩
  · intro b; simp only [hvals]
  · intro b w w' hw hw'
    simp only [hvals] at hw'
    rw [hw] at hw'; cases hw'; exact VRel.refl _

theorem Evo.bankOnly {s s' : State} (h : BankOnly s s') : Evo s s' := by
  apply Evo.of_same h.valsShape
  obtain ⟨b, sup, b2, ac, rfl⟩ := h
  rfl

theorem TombJ.of_evo {s s' : State} (h : TombJ s) (he : Evo s s') (hsign : s'.sign = s.sign) : TombJ s' := by
  intro a si hsi ht
  rw [hsign] at hsi
  obtain ⟨h1, h2⟩ := h a si hsi ht
  refine ⟨h1, ?_⟩
  intro v' hv'
  have hd := he.valsDom a
  rw [hv'] at hd
  cases hv : aget s.vals a with
  | none => rw [hv] at hd; simp at hd
  | some v => exact (he.valsRel a v v' hv hv').1 (h2 v hv)

theorem ValsShape.sign {s s' : State} (h : ValsShape s s') : s'.sign = s.sign := by
  obtain ⟨_, _, _, _, _, _, _, rfl⟩ := h; rfl

theorem ValsShape.p {s s' : State} (h : ValsShape s s') : s'.p = s.p := by
  obtain ⟨_, _, _, _, _, _, _, rfl⟩ := h; rfl

theorem ValsShape.pool {s s' : State} (h : ValsShape s s') : s'.pool = s.pool := by
  obtain ⟨_, _, _, _, _, _, _, rfl⟩ := h; rfl

/-! ### `reindex`: the record of `a` is replaced and the index follows -/

def reindex (s : State) (a : Addr) (v v1 : Val) : State := setStaked (setVal (delStaked s a v) a v1) a v1

theorem reindex_eq (s : State) (a : Addr) (v v1 : Val) :
    reindex s a v v1 =
      { s with
        vals := aset s.vals a v1,
        idx := if (v1.jailed || v1.status != 2) = true then idxRemove s.idx (power v.tokens, a)
               else idxInsert (idxRemove s.idx (power v.tokens, a)) (power v1.tokens, a) } := by
  simp only [reindex, setStaked, setVal, delStaked]
  split <;> rfl

theorem reindex_core {s : State} (h : Core s) {a : Addr} {v v1 : Val} (hv : aget s.vals a = some v)
    (hst : v1.status = v.status) (hun : v1.unstake = v.unstake) : Core (reindex s a v v1) := by
  apply h.update a v1 (by rw [reindex_eq])
  · rw [reindex_eq]; exact idxCond_reindex h.index.2 (h.idx_key hv) v1
  · rw [reindex_eq]; apply qCond_same h.queue
    intro t; rw [h.q_mem hv, hst, hun]

theorem balOf_congr {s s' : State} (h : s'.bal = s.bal) (x : Addr) : balOf s' x = balOf s x := by
  simp only [balOf, h]

/-! ### `forceUnstake` -/

theorem forceUnstake_eq (s : State) (a : Addr) (v : Val) :
    ∃ b sup, forceUnstake s a v =
      { s with
        vals := aset s.vals a { v with tokens := 0, status := 0 },
        idx := idxRemove s.idx (power v.tokens, a),
        queue := if v.status = 1 then qDeq s.queue a v.unstake else s.queue,
        bal := b, supply := sup } := by
  simp only [forceUnstake, setVal]
  generalize hs2 : (if (v.status == 1) = true then dequeue (delStaked s a v) a v.unstake else delStaked s a v) = s2
  have e2 : s2 = { s with idx := idxRemove s.idx (power v.tokens, a),
                          queue := if v.status = 1 then qDeq s.queue a v.unstake else s.queue } := by
    subst hs2
    by_cases h1 : v.status = 1 <;> simp [h1, dequeue_eq, delStaked]
  have h3 : ∃ b sup, (if v.tokens > 0 then (burnFrom s2 s2.pool v.tokens).getD s2 else s2) =
      { s2 with bal := b, supply := sup } := by
    split
    · cases hb : burnFrom s2 s2.pool v.tokens with
      | none => exact ⟨s2.bal, s2.supply, rfl⟩
      | some s3 =>
        simp only [burnFrom] at hb
        split at hb
        · simp at hb
        · simp at hb; subst hb; exact ⟨_, _, rfl⟩
    · exact ⟨s2.bal, s2.supply, rfl⟩
  obtain ⟨b, sup, h3⟩ := h3
  rw [h3, e2]
  exact ⟨b, sup, rfl⟩

theorem forceUnstake_shape (s : State) (a : Addr) (v : Val) : ValsShape s (forceUnstake s a v) := by
  obtain ⟨b, sup, h⟩ := forceUnstake_eq s a v
  rw [h]; exact ⟨_, _, _, _, _, _, _, rfl⟩

theorem forceUnstake_vals (s : State) (a : Addr) (v : Val) :
    (forceUnstake s a v).vals = aset s.vals a { v with tokens := 0, status := 0 } := by
  obtain ⟨b, sup, h⟩ := forceUnstake_eq s a v
  rw [h]

theorem forceUnstake_idx (s : State) (a : Addr) (v : Val) :
    (forceUnstake s a v).idx = idxRemove s.idx (power v.tokens, a) := by
  obtain ⟨b, sup, h⟩ := forceUnstake_eq s a v
  rw [h]

theorem forceUnstake_queue (s : State) (a : Addr) (v : Val) :
    (forceUnstake s a v).queue = if v.status = 1 then qDeq s.queue a v.unstake else s.queue := by
  obtain ⟨b, sup, h⟩ := forceUnstake_eq s a v
  rw [h]

theorem forceUnstake_core {s : State} (h : Core s) {a : Addr} {v : Val} (hv : aget s.vals a = some v) :
    Core (forceUnstake s a v) := by
  apply h.update a { v with tokens := 0, status := 0 } (forceUnstake_vals s a v)
  · rw [forceUnstake_idx]
    exact idxCond_remove h.index.2 (h.idx_key hv) (by simp)
  · rw [forceUnstake_queue]
    split
    · rename_i h1
      apply qCond_deq h.queue
      · intro t ht; exact ((h.q_mem hv t).1 ht).2.symm
      · simp
    · rename_i h1
      apply qCond_same h.queue
      intro t; rw [h.q_mem hv]
      constructor
      · intro h2; exact absurd h2.1 h1
      · intro h2; simp at h2

theorem forceUnstake_bal {s : State} (hb : KeysAsc s.bal) (a : Addr) (v : Val) (ht : 0 ≤ v.tokens) :
    KeysAsc (forceUnstake s a v).bal ∧ (forceUnstake s a v).pool = s.pool ∧
    balOf s s.pool - v.tokens ≤ balOf (forceUnstake s a v) s.pool ∧
    (v.tokens = 0 → balOf (forceUnstake s a v) s.pool = balOf s s.pool) := by
  simp only [forceUnstake, setVal]
  generalize hs2 : (if (v.status == 1) = true then dequeue (delStaked s a v) a v.unstake else delStaked s a v) = s2
  have e1 : s2.bal = s.bal := by subst hs2; split <;> rfl
  have e2 : s2.pool = s.pool := by subst hs2; split <;> rfl
  have hb2 : KeysAsc s2.bal := by rw [e1]; exact hb
  have e3 : balOf s2 s.pool = balOf s s.pool := balOf_congr e1 _
  split
  · rename_i hpos
    cases hbf : burnFrom s2 s2.pool v.tokens with
    | none =>
      simp only [Option.getD_none]
      refine ⟨hb2, e2, ?_, ?_⟩
      · show balOf s s.pool - v.tokens ≤ balOf s2 s.pool
        rw [e3]; omega
      · intro h0; exact e3
    | some s3 =>
      simp only [Option.getD_some]
      obtain ⟨_, h2, h3⟩ := burnFrom_spec hb2 hbf
      have e4 : s3.pool = s2.pool := by obtain ⟨b, sup, b2, ac, rfl⟩ := burnFrom_bankOnly hbf; rfl
      refine ⟨h2, e4.trans e2, ?_, ?_⟩
      · have := h3 s.pool
        rw [if_pos e2, e3] at this
        show balOf s s.pool - v.tokens ≤ balOf s3 s.pool
        omega
      · intro h0; omega
  · refine ⟨hb2, e2, ?_, fun _ => e3⟩
    show balOf s s.pool - v.tokens ≤ balOf s2 s.pool
    rw [e3]; omega

theorem forceUnstake_backed {s : State} (hc : Core s) (h : Backed s) {a : Addr} {v : Val} (hv : aget s.vals a = some v) :
    Backed (forceUnstake s a v) := by
  have ht := h.tokNonneg a v hv
  obtain ⟨b1, b2, b3, b4⟩ := forceUnstake_bal h.balAsc a v ht
  apply h.update hc.valsAsc a { v with tokens := 0, status := 0 } (forceUnstake_vals s a v) b1
  · simp
  · simp
  · rw [hv, b2]
    simp only [ocontrib, contrib]
    by_cases h0 : v.status = 0
    · have := h.unstakedEmpty a v hv h0
      simp [h0]; rw [b4 this]; omega
    · simp [h0]; omega

theorem forceUnstake_evo {s : State} {a : Addr} {v : Val} (hv : aget s.vals a = some v) :
    Evo s (forceUnstake s a v) :=
  Evo.of_update (forceUnstake_shape s a v) a v _ hv (forceUnstake_vals s a v) ⟨fun h => h, Or.inr rfl⟩

theorem forceUnstake_big {s : State} (h : Big s) {a : Addr} {v : Val} (hv : aget s.vals a = some v) :
    Big (forceUnstake s a v) :=
  ⟨forceUnstake_core h.core hv, forceUnstake_backed h.core h.backed hv,
   h.tomb.of_evo (forceUnstake_evo hv) (forceUnstake_shape s a v).sign⟩

/-! ### `jail` -/

theorem jail_eq {s s' : State} {a : Addr} (h : jail s a = some s') :
    ∃ v, aget s.vals a = some v ∧ v.jailed = false ∧
      s' = { s with vals := aset s.vals a { v with jailed := true }, idx := idxRemove s.idx (power v.tokens, a) } := by
  simp only [jail] at h
  split at h
  · simp at h
  · rename_i v hv
    split at h
    · simp at h
    · rename_i hj
      simp at h hj
      exact ⟨v, hv, hj, h.symm⟩

theorem jail_isSome {s : State} {a : Addr} {v : Val} (hv : aget s.vals a = some v) (hj : v.jailed = false) :
    ∃ s', jail s a = some s' := by
  simp [jail, hv, hj]

theorem jail_big {s s' : State} {a : Addr} (h : Big s) (hj : jail s a = some s') :
    Big s' ∧ Evo s s' ∧ ValsShape s s' ∧ ∃ v, aget s.vals a = some v ∧ aget s'.vals a = some { v with jailed := true } := by
  obtain ⟨v, hv, hnj, hs'⟩ := jail_eq hj
  have hsh : ValsShape s s' := by rw [hs']; exact ⟨_, _, _, _, _, _, _, rfl⟩
  have hvals : s'.vals = aset s.vals a { v with jailed := true } := by rw [hs']
  have hidx : s'.idx = idxRemove s.idx (power v.tokens, a) := by rw [hs']
  have hq : s'.queue = s.queue := by rw [hs']
  have hbal : s'.bal = s.bal := by rw [hs']
  have hevo : Evo s s' := Evo.of_update hsh a v _ hv hvals ⟨fun _ => rfl, Or.inl rfl⟩
  refine ⟨⟨?_, ?_, h.tomb.of_evo hevo hsh.sign⟩, hevo, hsh, v, hv, by simp [hvals, aget_aset]⟩
  · apply h.core.update a { v with jailed := true } hvals
    · rw [hidx]; exact idxCond_remove h.core.index.2 (h.core.idx_key hv) (by simp)
    · rw [hq]; apply qCond_same h.core.queue
      intro t; rw [h.core.q_mem hv]
  · apply h.backed.update h.core.valsAsc a { v with jailed := true } hvals (by rw [hbal]; exact h.backed.balAsc)
    · exact h.backed.tokNonneg a v hv
    · exact h.backed.unstakedEmpty a v hv
    · rw [hv, hsh.pool, balOf_congr hbal]; simp only [ocontrib, contrib]; omega

theorem _root_.Posmint.Chain.MinStakeOK.update {s s' : State} (h : MinStakeOK s) (a : Addr) (v1 : Val)
    (hvals : s'.vals = aset s.vals a v1) (hp : s'.p = s.p)
    (h1 : v1.status ≠ 0 → s.p.minStake ≤ v1.tokens) : MinStakeOK s' := by
  intro b w hw hst
  rw [hvals, aget_aset] at hw
  rw [hp]
  split at hw
  · cases hw; exact h1 hst
  · exact h b w hw hst

theorem _root_.Posmint.Chain.MinStakeOK.of_eq {s s' : State} (h : MinStakeOK s) (hvals : s'.vals = s.vals) (hp : s'.p = s.p) :
    MinStakeOK s' := by
  intro b w hw hst
  rw [hvals] at hw; rw [hp]; exact h b w hw hst

theorem BankOnly.vals {s s' : State} (h : BankOnly s s') : s'.vals = s.vals := by
  obtain ⟨b, sup, b2, ac, rfl⟩ := h; rfl

theorem BankOnly.pool {s s' : State} (h : BankOnly s s') : s'.pool = s.pool := by
  obtain ⟨b, sup, b2, ac, rfl⟩ := h; rfl

theorem BankOnly.p {s s' : State} (h : BankOnly s s') : s'.p = s.p := by
  obtain ⟨b, sup, b2, ac, rfl⟩ := h; rfl

theorem BankOnly.sign {s s' : State} (h : BankOnly s s') : s'.sign = s.sign := by
  obtain ⟨b, sup, b2, ac, rfl⟩ := h; rfl

/-- the first phase of `slash` followed by the burn of the slashed coins -/
theorem slash_phase {s : State} (h : Big s) {a : Addr} {v : Val} (hv : aget s.vals a = some v)
    (hst : v.status ≠ 0) (burn : Int) (hb0 : 0 ≤ burn) (hb1 : burn ≤ v.tokens) :
    let v1 : Val := { v with tokens := v.tokens - burn }
    let s1 := setStaked (setVal (delStaked s a v) a v1) a v1
    Big s1 ∧ Evo s s1 ∧ ValsShape s s1 ∧ s1.vals = aset s.vals a v1 ∧ burn ≤ balOf s1 s1.pool ∧
    ∀ s2, burnFrom s1 s1.pool burn = some s2 →
      Big s2 ∧ Evo s s2 ∧ ValsShape s s2 ∧ s2.vals = aset s.vals a v1 := by
  intro v1 s1
  have hs1 : s1 = reindex s a v v1 := rfl
  have hvals : s1.vals = aset s.vals a v1 := by rw [hs1, reindex_eq]
  have hbal : s1.bal = s.bal := by rw [hs1, reindex_eq]
  have hsh : ValsShape s s1 := by rw [hs1, reindex_eq]; exact ⟨_, _, _, _, _, _, _, rfl⟩
  have hevo : Evo s s1 := Evo.of_update hsh a v v1 hv hvals ⟨fun h => h, Or.inl rfl⟩
  have hc1 : Core s1 := reindex_core h.core hv rfl rfl
  have hcon : contrib v = v.tokens := by simp [contrib, hst]
  have hcon1 : contrib v1 = v.tokens - burn := by simp [contrib, v1, hst]
  have hb1' : Backed s1 := by
    apply h.backed.update h.core.valsAsc a v1 hvals (by rw [hbal]; exact h.backed.balAsc)
    · show 0 ≤ v.tokens - burn; omega
    · intro h0; exact absurd h0 hst
    · rw [hv, hsh.pool, balOf_congr hbal]; simp only [ocontrib, hcon, hcon1]; omega
  have hle : burn ≤ balOf s1 s1.pool := by
    have := h.backed.contrib_le h.core.valsAsc hv
    rw [hsh.pool, balOf_congr hbal]; omega
  refine ⟨⟨hc1, hb1', h.tomb.of_evo hevo hsh.sign⟩, hevo, hsh, hvals, hle, ?_⟩
  intro s2 hbf
  have hbo := burnFrom_bankOnly hbf
  obtain ⟨_, k2, k3⟩ := burnFrom_spec hb1'.balAsc hbf
  have hvals2 : s2.vals = aset s.vals a v1 := by rw [hbo.vals, hvals]
  have hsh2 : ValsShape s s2 := hsh.trans hbo.valsShape
  have hevo2 : Evo s s2 := hevo.trans (Evo.bankOnly hbo)
  refine ⟨⟨hc1.bankOnly hbo, ?_, h.tomb.of_evo hevo2 hsh2.sign⟩, hevo2, hsh2, hvals2⟩
  apply h.backed.update h.core.valsAsc a v1 hvals2 k2
  · show 0 ≤ v.tokens - burn; omega
  · intro h0; exact absurd h0 hst
  · have := k3 s1.pool
    rw [if_pos rfl, hsh.pool, balOf_congr hbal] at this
    rw [hv, hsh2.pool, this]; simp only [ocontrib, hcon, hcon1]; omega

theorem slash_big {s : State} (h : Big s) (a : Addr) (ih pw f : Int) :
    Big (slash s a ih pw f) ∧ Evo s (slash s a ih pw f) ∧ ValsShape s (slash s a ih pw f) ∧
    (MinStakeOK s → MinStakeOK (slash s a ih pw f)) := by
  have triv : Big s ∧ Evo s s ∧ ValsShape s s ∧ (MinStakeOK s → MinStakeOK s) :=
    ⟨h, Evo.refl s, ValsShape.refl s, id⟩
  simp only [slash]
  split
  · exact triv
  split
  · exact triv
  split
  · exact triv
  rename_i v hv
  split
  · exact triv
  rename_i hst
  have hst' : v.status ≠ 0 := by simpa using hst
  have ht := h.backed.tokNonneg a v hv
  generalize hburn : max (min (slashAmount pw f) v.tokens) 0 = burn
  have hb0 : 0 ≤ burn := by omega
  have hb1 : burn ≤ v.tokens := by omega
  obtain ⟨k1, k2, k3, k4, k5, k6⟩ := slash_phase h hv hst' burn hb0 hb1
  split
  · rename_i hle
    refine ⟨k1, k2, k3, ?_⟩
    intro hm
    apply hm.update a _ k4 k3.p
    intro _
    have := hm a v hv hst'
    show s.p.minStake ≤ v.tokens - burn
    omega
  split
  · rename_i hbf
    obtain ⟨s2, hs2⟩ := burnFrom_isSome k5
    rw [hs2] at hbf; cases hbf
  rename_i s2 hbf
  obtain ⟨j1, j2, j3, j4⟩ := k6 s2 hbf
  split
  · rename_i hlt
    have hv2 : aget s2.vals a = some { v with tokens := v.tokens - burn } := by rw [j4, aget_aset_self]
    refine ⟨forceUnstake_big j1 hv2, j2.trans (forceUnstake_evo hv2), j3.trans (forceUnstake_shape _ _ _), ?_⟩
    intro hm
    apply hm.update a { v with tokens := 0, status := 0 }
    · rw [forceUnstake_vals, j4]
      apply keysAsc_ext (keysAsc_aset (keysAsc_aset h.core.valsAsc _ _) _ _) (keysAsc_aset h.core.valsAsc _ _)
      intro k; simp only [aget_aset]; split <;> rfl
    · exact (j3.trans (forceUnstake_shape _ _ _)).p
    · intro h0; simp at h0
  · rename_i hlt
    refine ⟨j1, j2, j3, ?_⟩
    intro hm
    apply hm.update a _ j4 j3.p
    intro _
    rw [j3.p] at hlt
    show s.p.minStake ≤ v.tokens - burn
    omega

theorem Big.of_eq {s s' : State} (h : Big s) (h1 : s'.vals = s.vals) (h2 : s'.idx = s.idx) (h3 : s'.queue = s.queue)
    (h4 : s'.bal = s.bal) (h5 : s'.pool = s.pool) (h6 : s'.sign = s.sign) : Big s' := by
  refine ⟨h.core.of_eq h1 h2 h3, h.backed.of_eq h1 (by rw [h4]; exact h.backed.balAsc) ?_, ?_⟩
  · rw [h5, balOf_congr h4]; exact Int.le_refl _
  · intro a si hsi ht
    rw [h6] at hsi; rw [h1]; exact h.tomb a si hsi ht

theorem Big.setSign {s s' : State} (h : Big s) (a : Addr) (si' : Sign)
    (h1 : s'.vals = s.vals) (h2 : s'.idx = s.idx) (h3 : s'.queue = s.queue)
    (h4 : s'.bal = s.bal) (h5 : s'.pool = s.pool) (h6 : s'.sign = aset s.sign a si')
    (ht : si'.tomb = true → si'.jailedUntil = forever ∧ ∀ v, aget s.vals a = some v → v.jailed = true) : Big s' := by
  refine ⟨h.core.of_eq h1 h2 h3, h.backed.of_eq h1 (by rw [h4]; exact h.backed.balAsc) ?_, ?_⟩
  · rw [h5, balOf_congr h4]; exact Int.le_refl _
  · intro b si hsi htb
    rw [h6, aget_aset] at hsi; rw [h1]
    split at hsi
    · rename_i hab; subst hab; cases hsi; exact ht htb
    · exact h.tomb b si hsi htb

theorem Evo.setSign {s s' : State} (a : Addr) (si' : Sign)
    (hprev : s'.prev = s.prev) (hp : s'.p = s.p) (hpool : s'.pool = s.pool) (hfee : s'.feeAcc = s.feeAcc)
    (hpos : s'.posAcc = s.posAcc) (hdao : s'.daoAcc = s.daoAcc) (hkeys : s'.keys = s.keys)
    (h1 : s'.vals = s.vals) (h6 : s'.sign = aset s.sign a si')
    (ht : ∀ si, aget s.sign a = some si → si.tomb = true → si.jailedUntil = forever →
      si'.tomb = true ∧ si'.jailedUntil = forever) : Evo s s' := by
  refine ⟨hprev, hp, hpool, hfee, hpos, hdao, hkeys, fun b => by rw [h1], ?_, ?_⟩
  · intro b v v' hv hv'
    rw [h1, hv] at hv'; cases hv'; exact VRel.refl _
  · intro b si hsi htb hf
    rw [h6, aget_aset]
    split
    · rename_i hab; subst hab
      obtain ⟨k1, k2⟩ := ht si hsi htb hf
      exact ⟨si', rfl, k1, k2⟩
    · exact ⟨si, hsi, htb, hf⟩

theorem Evo.of_fields {s s' : State}
    (hprev : s'.prev = s.prev) (hp : s'.p = s.p) (hpool : s'.pool = s.pool) (hfee : s'.feeAcc = s.feeAcc)
    (hpos : s'.posAcc = s.posAcc) (hdao : s'.daoAcc = s.daoAcc) (hkeys : s'.keys = s.keys)
    (h1 : s'.vals = s.vals) (h6 : s'.sign = s.sign) : Evo s s' := by
  refine ⟨hprev, hp, hpool, hfee, hpos, hdao, hkeys, fun b => by rw [h1], ?_, ?_⟩
  · intro b v v' hv hv'
    rw [h1, hv] at hv'; cases hv'; exact VRel.refl _
  · intro b si hsi htb hf
    rw [h6]; exact ⟨si, hsi, htb, hf⟩

theorem handleSignature_cases {s s' : State} {a : Addr} {pw : Int} {signed : Bool}
    (hs : handleSignature s a pw signed = some s') :
    ∃ si mb, aget s.sign a = some si ∧
      ((∃ si1, s' = { s with missedBits := mb, sign := aset s.sign a si1 } ∧ si1.tomb = si.tomb ∧
          si1.jailedUntil = si.jailedUntil) ∨
       (∃ v s3 si2 mb', aget s.vals a = some v ∧ v.jailed = false ∧
          jail (slash { s with missedBits := mb } a (s.height - 1 - 1) pw s.p.sfDown) a = some s3 ∧
          s' = { s3 with missedBits := mb', sign := aset s3.sign a si2 } ∧ si2.tomb = si.tomb)) := by
  simp only [handleSignature] at hs
  split at hs
  · simp at hs
  split at hs
  · simp at hs
  rename_i si hsi
  split at hs
  · simp at hs
  generalize hbc : (if (!bitGet s.missedBits a (si.offset.tmod s.p.window) && !signed) = true then _ else _ :
    List ((Addr × Int) × Bool) × Int) = bc at hs
  split at hs
  · split at hs
    · rename_i v hv
      split at hs
      · rename_i hj
        split at hs
        · simp at hs
        · rename_i s3 hjl
          simp only [Option.some.injEq] at hs
          exact ⟨si, _, hsi, Or.inr ⟨v, s3, _, _, hv, by simpa using hj, hjl, hs.symm, rfl⟩⟩
      · simp only [Option.some.injEq] at hs
        exact ⟨si, _, hsi, Or.inl ⟨_, hs.symm, rfl, rfl⟩⟩
    · simp only [Option.some.injEq] at hs
      exact ⟨si, _, hsi, Or.inl ⟨_, hs.symm, rfl, rfl⟩⟩
  · simp only [Option.some.injEq] at hs
    exact ⟨si, _, hsi, Or.inl ⟨_, hs.symm, rfl, rfl⟩⟩

theorem handleSignature_big {s s' : State} (h : Big s) {a : Addr} {pw : Int} {signed : Bool}
    (hs : handleSignature s a pw signed = some s') :
    Big s' ∧ Evo s s' ∧ (MinStakeOK s → MinStakeOK s') := by
  obtain ⟨si, mb, hsi, hc⟩ := handleSignature_cases hs
  rcases hc with ⟨si1, rfl, ht, hj⟩ | ⟨v, s3, si2, mb', hv, hnj, hjl, rfl, ht⟩
  · refine ⟨h.setSign a si1 rfl rfl rfl rfl rfl rfl ?_, Evo.setSign a si1 rfl rfl rfl rfl rfl rfl rfl rfl rfl ?_,
      fun hm => hm.of_eq rfl rfl⟩
    · intro htb; rw [ht] at htb; rw [hj]; exact h.tomb a si hsi htb
    · intro si0 hsi0 htb hf
      rw [hsi] at hsi0; cases hsi0
      exact ⟨ht.trans htb, hj.trans hf⟩
  · have h0 : Big { s with missedBits := mb } := h.of_eq rfl rfl rfl rfl rfl rfl
    have e0 : Evo s { s with missedBits := mb } := Evo.of_fields rfl rfl rfl rfl rfl rfl rfl rfl rfl
    obtain ⟨k1, k2, k3, k4⟩ := slash_big h0 a (s.height - 1 - 1) pw s.p.sfDown
    obtain ⟨j1, j2, j3, w, hw, hw'⟩ := jail_big k1 hjl
    have hnt : si.tomb = false := by
      cases htb : si.tomb with
      | false => rfl
      | true => have := (h.tomb a si hsi htb).2 v hv; rw [hnj] at this; cases this
    have hsign3 : s3.sign = s.sign := j3.sign.trans k3.sign
    refine ⟨j1.setSign a si2 rfl rfl rfl rfl rfl rfl ?_,
      (e0.trans (k2.trans j2)).trans (Evo.setSign a si2 rfl rfl rfl rfl rfl rfl rfl rfl rfl ?_), ?_⟩
    · intro htb; rw [ht, hnt] at htb; cases htb
    · intro si0 hsi0 htb hf
      rw [hsign3, hsi] at hsi0; cases hsi0
      rw [hnt] at htb; cases htb
    · intro hm
      have hm2 := k4 (hm.of_eq rfl rfl)
      obtain ⟨v0, hv0, _, hs3⟩ := jail_eq hjl
      have : MinStakeOK s3 := by
        apply hm2.update a { v0 with jailed := true } (by rw [hs3]) (by rw [hs3])
        intro hst; exact hm2 a v0 hv0 hst
      exact this.of_eq rfl rfl

theorem handleDoubleSign_cases {s s' : State} {a : Addr} {ih et pw : Int}
    (hs : handleDoubleSign s a ih et pw = some s') :
    (s.time - et > s.p.maxAge ∧ s' = s) ∨
    (¬ s.time - et > s.p.maxAge ∧ ∃ v si s2 v2, aget s.vals a = some v ∧ aget s.sign a = some si ∧ si.tomb = false ∧
      v.status ≠ 0 ∧
      (if v.jailed = false then jail (slash s a (ih - 1) pw s.p.sfDouble) a else some (slash s a (ih - 1) pw s.p.sfDouble)) = some s2 ∧
      aget s2.vals a = some v2 ∧
      s' = { forceUnstake s2 a v2 with
             sign := aset (forceUnstake s2 a v2).sign a { si with tomb := true, jailedUntil := forever } }) := by
  simp only [handleDoubleSign] at hs
  split at hs
  · simp at hs
  split at hs
  · rename_i h; simp at hs; exact Or.inl ⟨h, hs.symm⟩
  rename_i hage
  split at hs
  · simp at hs
  rename_i v hv
  split at hs
  · simp at hs
  rename_i hst
  split at hs
  · simp at hs
  rename_i si hsi
  split at hs
  · simp at hs
  rename_i htomb
  split at hs
  · simp at hs
  split at hs
  · simp at hs
  rename_i s2 hs2
  split at hs
  · simp at hs
  rename_i v2 hv2
  simp only [Option.some.injEq] at hs
  refine Or.inr ⟨hage, v, si, s2, v2, hv, hsi, by simpa using htomb, by simpa using hst, ?_, hv2, hs.symm⟩
  rw [← hs2]
  cases v.jailed <;> simp

theorem handleDoubleSign_big {s s' : State} (h : Big s) {a : Addr} {ih et pw : Int}
    (hs : handleDoubleSign s a ih et pw = some s') :
    Big s' ∧ Evo s s' ∧ (MinStakeOK s → MinStakeOK s') := by
  rcases handleDoubleSign_cases hs with ⟨_, rfl⟩ | ⟨_, v, si, s2, v2, hv, hsi, hnt, hst, hs2, hv2, rfl⟩
  · exact ⟨h, Evo.refl _, id⟩
  obtain ⟨k1, k2, k3, k4⟩ := slash_big h a (ih - 1) pw s.p.sfDouble
  -- the state after the optional jailing
  have key : Big s2 ∧ Evo s s2 ∧ s2.sign = s.sign ∧ (MinStakeOK s → MinStakeOK s2) ∧ v2.jailed = true := by
    split at hs2
    · rename_i hnj
      obtain ⟨j1, j2, j3, w, hw, hw'⟩ := jail_big k1 hs2
      refine ⟨j1, k2.trans j2, j3.sign.trans k3.sign, ?_, ?_⟩
      · intro hm
        have hm2 := k4 hm
        obtain ⟨v0, hv0, _, hs3⟩ := jail_eq hs2
        apply hm2.update a { v0 with jailed := true } (by rw [hs3]) (by rw [hs3])
        intro hst; exact hm2 a v0 hv0 hst
      · rw [hv2] at hw'; cases hw'; rfl
    · rename_i hj
      simp only [Option.some.injEq] at hs2
      subst hs2
      refine ⟨k1, k2, k3.sign, k4, ?_⟩
      have hj' : v.jailed = true := by simpa using hj
      exact (k2.valsRel a v v2 hv hv2).1 hj'
  obtain ⟨b1, b2, b3, b4, b5⟩ := key
  have f1 := forceUnstake_big b1 hv2
  have f2 := forceUnstake_evo (s := s2) hv2
  have f3 := forceUnstake_shape s2 a v2
  refine ⟨f1.setSign a _ rfl rfl rfl rfl rfl rfl ?_,
    (b2.trans f2).trans (Evo.setSign a _ rfl rfl rfl rfl rfl rfl rfl rfl rfl ?_), ?_⟩
  · intro _
    refine ⟨rfl, ?_⟩
    intro w hw
    rw [forceUnstake_vals, aget_aset_self] at hw
    cases hw; exact b5
  · intro si0 hsi0 htb hf
    exact ⟨rfl, rfl⟩
  · intro hm
    have hm2 := b4 hm
    have : MinStakeOK (forceUnstake s2 a v2) := by
      apply hm2.update a _ (forceUnstake_vals s2 a v2) f3.p
      intro h0; simp at h0
    exact this.of_eq rfl rfl

/-! ### folds -/

theorem foldl_bind_none {α : Type} (f : State → α → Option State) (l : List α) :
    l.foldl (fun (st? : Option State) x => st?.bind fun st => f st x) none = none := by
  induction l with
  | nil => rfl
  | cons x rest ih => simpa using ih

/-- a property and a transitive relation are carried through a fold of partial steps -/
theorem foldl_bind_inv {α : Type} (P : State → Prop) (R : State → State → Prop)
    (hrefl : ∀ s, R s s) (htrans : ∀ s1 s2 s3, R s1 s2 → R s2 s3 → R s1 s3)
    (f : State → α → Option State) (l : List α)
    (hstep : ∀ st x st', x ∈ l → P st → f st x = some st' → P st' ∧ R st st')
    (s s' : State) (hP : P s)
    (hf : l.foldl (fun (st? : Option State) x => st?.bind fun st => f st x) (some s) = some s') :
    P s' ∧ R s s' := by
  induction l generalizing s with
  | nil => simp at hf; subst hf; exact ⟨hP, hrefl _⟩
  | cons x rest ih =>
    simp only [List.foldl_cons, Option.bind_some] at hf
    cases hx : f s x with
    | none => rw [hx, foldl_bind_none] at hf; cases hf
    | some s1 =>
      rw [hx] at hf
      obtain ⟨p1, r1⟩ := hstep s x s1 (by simp) hP hx
      obtain ⟨p2, r2⟩ := ih (fun st y st' hy => hstep st y st' (List.mem_cons_of_mem _ hy)) s1 p1 hf
      exact ⟨p2, htrans _ _ _ r1 r2⟩

/-- the bundle carried through BeginBlock -/
def BigM (m : Bool) (s : State) : Prop := Big s ∧ (m = true → MinStakeOK s)

theorem foldl_inv {α : Type} (P : State → Prop) (R : State → State → Prop)
    (hrefl : ∀ s, R s s) (htrans : ∀ s1 s2 s3, R s1 s2 → R s2 s3 → R s1 s3)
    (f : State → α → State) (l : List α)
    (hstep : ∀ st x, x ∈ l → P st → P (f st x) ∧ R st (f st x))
    (s : State) (hP : P s) : P (l.foldl f s) ∧ R s (l.foldl f s) := by
  induction l generalizing s with
  | nil => exact ⟨hP, hrefl _⟩
  | cons x rest ih =>
    simp only [List.foldl_cons]
    obtain ⟨p1, r1⟩ := hstep s x (by simp) hP
    obtain ⟨p2, r2⟩ := ih (fun st y hy => hstep st y (List.mem_cons_of_mem _ hy)) (f s x) p1
    exact ⟨p2, htrans _ _ _ r1 r2⟩

theorem Big.bankOnly {s s' : State} (h : Big s) (hb : BankOnly s s') (hasc : KeysAsc s'.bal)
    (hpool : balOf s s.pool ≤ balOf s' s.pool) : Big s' := by
  refine ⟨h.core.bankOnly hb, h.backed.of_eq hb.vals hasc (by rw [hb.pool]; exact hpool), ?_⟩
  exact h.tomb.of_evo (Evo.bankOnly hb) hb.sign

/-- the property carried through BeginBlock: the invariant bundle, and the minimum stake if it held before -/
def BigP (m : Prop) (s : State) : Prop := Big s ∧ (m → MinStakeOK s)

theorem BigP.bankOnly {m : Prop} {s s' : State} (h : BigP m s) (hb : BankOnly s s') (hasc : KeysAsc s'.bal)
    (hpool : balOf s s.pool ≤ balOf s' s.pool) : BigP m s' :=
  ⟨h.1.bankOnly hb hasc hpool, fun hm => (h.2 hm).of_eq hb.vals hb.p⟩

/-! ### `rewardFromFees` -/

theorem rewardFromFees_bankOnly (s : State) : BankOnly s (rewardFromFees s) := by
  simp only [rewardFromFees]
  split
  · exact BankOnly.refl s
  · rename_i s1 h1
    have b1 := send_bankOnly h1
    split
    · exact b1.trans (send_getD_bankOnly _ _ _ _)
    · exact b1

theorem rewardFromFees_bal {s : State} (hb : KeysAsc s.bal) (h1 : s.pool ≠ s.feeAcc) (h2 : s.pool ≠ s.posAcc)
    (h3 : 0 ≤ balOf s s.feeAcc) :
    KeysAsc (rewardFromFees s).bal ∧ balOf s s.pool ≤ balOf (rewardFromFees s) s.pool := by
  simp only [rewardFromFees]
  split
  · exact ⟨hb, Int.le_refl _⟩
  · rename_i s1 hs1
    obtain ⟨_, k2, k3⟩ := send_spec hb hs1
    have b1 := send_bankOnly hs1
    have e1 : balOf s1 s.pool = balOf s s.pool := by
      rw [k3 s.pool, if_neg (fun h => h1 h.symm), if_neg (fun h => h2 h.symm)]; omega
    split
    · cases hs2 : send s1 s1.posAcc s.proposer (balOf s s.feeAcc) with
      | none => simp only [Option.getD_none]; exact ⟨k2, by omega⟩
      | some s2 =>
        simp only [Option.getD_some]
        obtain ⟨_, j2, j3⟩ := send_spec k2 hs2
        refine ⟨j2, ?_⟩
        have hpos : s1.posAcc = s.posAcc := by obtain ⟨b, sup, b2, ac, rfl⟩ := b1; rfl
        rw [j3 s.pool, hpos, if_neg (fun h => h2 h.symm), e1]
        split <;> omega
    · exact ⟨k2, by omega⟩

/-! ### `mintAwards` -/

theorem mintAwards_step_bankOnly (st : State) (e : Addr × Int) :
    BankOnly st ((send (mint st st.pool e.2) (mint st st.pool e.2).pool e.1 e.2).getD (mint st st.pool e.2)) :=
  (mint_bankOnly _ _ _).trans (send_getD_bankOnly _ _ _ _)

theorem mintAwards_step_bal {st : State} (hb : KeysAsc st.bal) (e : Addr × Int) (he : 0 ≤ e.2) :
    KeysAsc ((send (mint st st.pool e.2) (mint st st.pool e.2).pool e.1 e.2).getD (mint st st.pool e.2)).bal ∧
    balOf st st.pool ≤
      balOf ((send (mint st st.pool e.2) (mint st st.pool e.2).pool e.1 e.2).getD (mint st st.pool e.2)) st.pool := by
  obtain ⟨m1, m2⟩ := mint_spec hb st.pool e.2
  have hp : (mint st st.pool e.2).pool = st.pool := rfl
  cases hs : send (mint st st.pool e.2) (mint st st.pool e.2).pool e.1 e.2 with
  | none =>
    simp only [Option.getD_none]
    refine ⟨m1, ?_⟩
    rw [m2 st.pool, if_pos rfl]; omega
  | some s2 =>
    simp only [Option.getD_some]
    obtain ⟨_, j2, j3⟩ := send_spec m1 hs
    refine ⟨j2, ?_⟩
    rw [j3 st.pool, hp, if_pos rfl, m2 st.pool, if_pos rfl]
    split <;> omega

theorem mintAwards_big {m : Prop} {s s' : State} (h : BigP m s) (hs : mintAwards s = some s') :
    BigP m s' ∧ Evo s s' := by
  simp only [mintAwards] at hs
  split at hs
  · simp at hs
  rename_i hneg
  simp only [Option.some.injEq] at hs
  have hnn : ∀ e ∈ s.awards, 0 ≤ e.2 := by
    intro e he
    simp only [List.any_eq_true, not_exists, not_and] at hneg
    have := hneg e he
    simpa using this
  have := foldl_inv (BigP m) Evo Evo.refl (fun _ _ _ => Evo.trans)
    (fun st e => (send (mint st st.pool e.2) (mint st st.pool e.2).pool e.1 e.2).getD (mint st st.pool e.2))
    s.awards
    (fun st e he hP => by
      have hb := mintAwards_step_bankOnly st e
      obtain ⟨k1, k2⟩ := mintAwards_step_bal hP.1.backed.balAsc e (hnn e he)
      exact ⟨hP.bankOnly hb k1 k2, Evo.bankOnly hb⟩) s h
  obtain ⟨p1, r1⟩ := this
  subst hs
  exact ⟨⟨p1.1.of_eq rfl rfl rfl rfl rfl rfl, fun hm => (p1.2 hm).of_eq rfl rfl⟩,
    r1.trans (Evo.of_fields rfl rfl rfl rfl rfl rfl rfl rfl rfl)⟩

/-! ### `burnValidators` -/

def burnOne (st : State) (e : Addr × Int) : Option State :=
  match aget st.vals e.1 with
  | none => none
  | some v =>
    if v.status == 2 && !Arith.isInt64 (power v.tokens) then none
    else some (slash st e.1 st.height (if v.status == 2 then power v.tokens else 0) e.2)

theorem burnValidators_eq (s : State) :
    burnValidators s =
      (s.burns.foldl (fun (st? : Option State) e => st?.bind fun st => burnOne st e) (some s)).map
        fun st => { st with burns := [] } := by
  simp only [burnValidators]
  congr 2
  funext st? e
  cases st? with
  | none => rfl
  | some st => simp only [Option.bind_some, burnOne]; rfl

theorem burnValidators_big {m : Prop} {s s' : State} (h : BigP m s) (hs : burnValidators s = some s') :
    BigP m s' ∧ Evo s s' := by
  rw [burnValidators_eq] at hs
  cases hf : s.burns.foldl (fun (st? : Option State) e => st?.bind fun st => burnOne st e) (some s) with
  | none => rw [hf] at hs; simp at hs
  | some s1 =>
    rw [hf] at hs
    simp only [Option.map_some, Option.some.injEq] at hs
    have := foldl_bind_inv (BigP m) Evo Evo.refl (fun _ _ _ => Evo.trans) burnOne s.burns
      (fun st e st' _ hP hst => by
        simp only [burnOne] at hst
        split at hst
        · simp at hst
        · split at hst
          · simp at hst
          simp only [Option.some.injEq] at hst
          subst hst
          obtain ⟨k1, k2, k3, k4⟩ := slash_big hP.1 e.1 st.height _ e.2
          exact ⟨⟨k1, fun hm => k4 (hP.2 hm)⟩, k2⟩) s s1 h hf
    obtain ⟨p1, r1⟩ := this
    subst hs
    exact ⟨⟨p1.1.of_eq rfl rfl rfl rfl rfl rfl, fun hm => (p1.2 hm).of_eq rfl rfl⟩,
      r1.trans (Evo.of_fields rfl rfl rfl rfl rfl rfl rfl rfl rfl)⟩

/-! ### `beginBlock` -/

theorem beginBlock_big {s s' : State} (h : Big s) (h1 : s.pool ≠ s.feeAcc) (h2 : s.pool ≠ s.posAcc)
    (h3 : 0 ≤ balOf s s.feeAcc) {time : Int} {proposer : Addr} {votes : List Vote} {evs : List Evidence}
    (hs : beginBlock s time proposer votes evs = some s') :
    Big s' ∧ Evo s s' ∧ (MinStakeOK s → MinStakeOK s') := by
  simp only [beginBlock] at hs
  generalize hs1 : (if s.height + 1 > 1 then rewardFromFees2 (rewardFromFees _) else _ : State) = s1 at hs
  have p1 : BigP (MinStakeOK s) s1 ∧ Evo s s1 := by
    have p0 : BigP (MinStakeOK s) { s with height := s.height + 1, time := time } :=
      ⟨h.of_eq rfl rfl rfl rfl rfl rfl, fun hm => hm.of_eq rfl rfl⟩
    have e0 : Evo s { s with height := s.height + 1, time := time } :=
      Evo.of_fields rfl rfl rfl rfl rfl rfl rfl rfl rfl
    subst hs1
    split
    · obtain ⟨k1, k2⟩ := rewardFromFees_bal (s := { s with height := s.height + 1, time := time })
        p0.1.backed.balAsc h1 h2 h3
      have hb := (rewardFromFees_bankOnly { s with height := s.height + 1, time := time }).trans
        (rewardFromFees2_bankOnly _)
      exact ⟨p0.bankOnly hb (by rw [F2.bal_rewardFromFees2]; exact k1)
          (by rw [F2.balOf_rewardFromFees2]; exact k2), e0.trans (Evo.bankOnly hb)⟩
    · exact ⟨p0, e0⟩
  obtain ⟨p1, e1⟩ := p1
  split at hs
  · simp at hs
  rename_i s3 hs3
  cases hma : mintAwards s1 with
  | none => rw [hma] at hs3; simp at hs3
  | some s2 =>
    rw [hma] at hs3
    simp only [Option.bind_some] at hs3
    obtain ⟨p2, e2⟩ := mintAwards_big p1 hma
    obtain ⟨p3, e3⟩ := burnValidators_big p2 hs3
    have p4 : BigP (MinStakeOK s) { s3 with proposer := proposer } :=
      ⟨p3.1.of_eq rfl rfl rfl rfl rfl rfl, fun hm => (p3.2 hm).of_eq rfl rfl⟩
    have e4 : Evo s3 { s3 with proposer := proposer } := Evo.of_fields rfl rfl rfl rfl rfl rfl rfl rfl rfl
    generalize ({ s3 with proposer := proposer } : State) = s4 at hs p4 e4
    cases hv : votes.foldl (fun (st? : Option State) v => st?.bind fun st => handleSignature st v.addr v.power v.signed) (some s4) with
    | none => rw [hv, foldl_bind_none] at hs; cases hs
    | some s5 =>
      rw [hv] at hs
      obtain ⟨p5, e5⟩ := foldl_bind_inv (BigP (MinStakeOK s)) Evo Evo.refl (fun _ _ _ => Evo.trans)
        (fun st (v : Vote) => handleSignature st v.addr v.power v.signed) votes
        (fun st v st' _ hP hst => by
          obtain ⟨k1, k2, k3⟩ := handleSignature_big hP.1 hst
          exact ⟨⟨k1, fun hm => k3 (hP.2 hm)⟩, k2⟩) s4 s5 p4 hv
      obtain ⟨p6, e6⟩ := foldl_bind_inv (BigP (MinStakeOK s)) Evo Evo.refl (fun _ _ _ => Evo.trans)
        (fun st (e : Evidence) => handleDoubleSign st e.addr e.height e.time e.power) evs
        (fun st v st' _ hP hst => by
          obtain ⟨k1, k2, k3⟩ := handleDoubleSign_big hP.1 hst
          exact ⟨⟨k1, fun hm => k3 (hP.2 hm)⟩, k2⟩) s5 s' p5 hs
      exact ⟨p6.1, ((((e1.trans e2).trans e3).trans e4).trans e5).trans e6, p6.2⟩

/-! ### message handlers: explicit shape of the resulting state -/

theorem applyParam_shape (s : State) (key val : String) :
    ∃ p ac d u, applyParam s key val = { s with p := p, acl := ac, daoOwner := d, upgrade := u } := by
  unfold applyParam
  repeat' split
  all_goals exact ⟨_, _, _, _, rfl⟩

def defaultVal : Val := { status := 0, jailed := false, tokens := 0, unstake := 0 }

theorem send_eq {s s' : State} {src dst : Addr} {amt : Int} (h : send s src dst amt = some s') :
    ∃ b ac, s' = { s with bal := b, accts := ac } := by
  simp only [send] at h
  split at h
  · simp at h
  · simp at h; subst h; exact ⟨_, _, rfl⟩

theorem setStaked_setVal_eq (s : State) (a : Addr) (v1 : Val) :
    setStaked (setVal s a v1) a v1 =
      { s with vals := aset s.vals a v1,
               idx := if (v1.jailed || v1.status != 2) = true then s.idx else idxInsert s.idx (power v1.tokens, a) } := by
  simp only [setStaked, setVal]
  split <;> rfl

/-- the part of the stake handler after the status / tombstone guards (a verbatim copy, see `handle_stake_eq`) -/
def stakeTail (s : State) (k : Nat) (amt : Int) : Option State :=
  let a := keyAddr s k
  let v := (aget s.vals a).getD { status := 0, jailed := false, tokens := 0, unstake := 0 }
  if amt < s.p.minStake then none
  else if balOf s a < amt then none
  else
    let s0 := { s with rel := if s.rel.contains a then s.rel else a :: s.rel }
    match send s0 a s0.pool amt with
    | none => none
    | some s1 =>
      let v1 := { v with tokens := v.tokens + amt, status := 2 }
      if !v1.jailed && !Arith.isInt64 (power v1.tokens) then none else
      let s2 := setStaked (setVal s1 a v1) a v1
      some (if (aget s2.sign a).isSome then s2
            else { s2 with sign := aset s2.sign a { start := s.height, offset := 0, missed := 0, jailedUntil := 0, tomb := false } })

theorem handle_stake_eq (s : State) (k : Nat) (amt : Int) :
    handle s (.stake k amt) =
      if (s.keys.lookup k).isNone then none
      else if ((aget s.vals (keyAddr s k)).getD defaultVal).status != 0 then none
      else if (match aget s.sign (keyAddr s k) with | some si => si.tomb | none => false) then none
      else stakeTail s k amt := rfl

theorem stakeTail_shape {s s' : State} {k : Nat} {amt : Int} (h : stakeTail s k amt = some s') :
    let a := keyAddr s k
    let v := (aget s.vals a).getD defaultVal
    let v1 : Val := { v with tokens := v.tokens + amt, status := 2 }
    s.p.minStake ≤ amt ∧
    ∃ b rel' sg acc, s' = { s with bal := b, rel := rel', sign := sg, vals := aset s.vals a v1,
                                   idx := if (v1.jailed || v1.status != 2) = true then s.idx
                                          else idxInsert s.idx (power v1.tokens, a), accts := acc } ∧
      (sg = s.sign ∨ (aget s.sign a = none ∧ ∃ si, sg = aset s.sign a si ∧ si.tomb = false)) := by
  intro a v v1
  simp only [stakeTail] at h
  split at h
  · simp at h
  rename_i hmin
  split at h
  · simp at h
  split at h
  · simp at h
  rename_i s1 hs1
  split at h
  · simp at h
  obtain ⟨b, acc, hb⟩ := send_eq hs1
  refine ⟨by omega, ?_⟩
  simp only [Option.some.injEq] at h
  rw [setStaked_setVal_eq] at h
  subst hb
  by_cases hsg : (aget s.sign (keyAddr s k)).isSome = true
  · rw [if_pos hsg] at h
    exact ⟨b, (if s.rel.contains (keyAddr s k) then s.rel else keyAddr s k :: s.rel), s.sign, acc, h.symm, Or.inl rfl⟩
  · rw [if_neg hsg] at h
    refine ⟨b, (if s.rel.contains (keyAddr s k) then s.rel else keyAddr s k :: s.rel),
      aset s.sign (keyAddr s k) { start := s.height, offset := 0, missed := 0, jailedUntil := 0, tomb := false },
      acc, h.symm, Or.inr ⟨?_, _, rfl, rfl⟩⟩
    simpa using hsg

theorem handle_stake_shape {s s' : State} {k : Nat} {amt : Int} (h : handle s (.stake k amt) = some s') :
    let a := keyAddr s k
    let v := (aget s.vals a).getD defaultVal
    let v1 : Val := { v with tokens := v.tokens + amt, status := 2 }
    (s.keys.lookup k).isSome = true ∧ v.status = 0 ∧ s.p.minStake ≤ amt ∧
    (∀ si, aget s.sign a = some si → si.tomb = false) ∧
    ∃ b rel' sg acc, s' = { s with bal := b, rel := rel', sign := sg, vals := aset s.vals a v1,
                                   idx := if (v1.jailed || v1.status != 2) = true then s.idx
                                          else idxInsert s.idx (power v1.tokens, a), accts := acc } ∧
      (sg = s.sign ∨ (aget s.sign a = none ∧ ∃ si, sg = aset s.sign a si ∧ si.tomb = false)) := by
  intro a v v1
  rw [handle_stake_eq] at h
  split at h
  · simp at h
  rename_i hk
  split at h
  · simp at h
  rename_i hst
  have hk' : (s.keys.lookup k).isSome = true := by
    cases hl : s.keys.lookup k with
    | none => rw [hl] at hk; simp at hk
    | some x => rfl
  have hst' : v.status = 0 := by simpa using hst
  have htail : stakeTail s k amt = some s' ∧ (∀ si, aget s.sign (keyAddr s k) = some si → si.tomb = false) := by
    cases hsg0 : aget s.sign (keyAddr s k) with
    | none =>
      simp only [hsg0, Bool.false_eq_true, if_false] at h
      exact ⟨h, fun si hsi => by cases hsi⟩
    | some si =>
      simp only [hsg0] at h
      split at h
      · simp at h
      rename_i htomb
      exact ⟨h, fun si' hsi => by cases hsi; simpa using htomb⟩
  obtain ⟨k1, k2⟩ := stakeTail_shape htail.1
  exact ⟨hk', hst', k1, htail.2, k2⟩

theorem handle_unstake_shape {s s' : State} {a : Addr} (h : handle s (.unstake a) = some s') :
    ∃ v, aget s.vals a = some v ∧ v.status = 2 ∧ s.p.minStake ≤ v.tokens ∧
      s' = { s with vals := aset s.vals a { v with status := 1, unstake := s.time + s.p.unstakingTime },
                    idx := idxRemove s.idx (power v.tokens, a),
                    queue := qEnq s.queue a (s.time + s.p.unstakingTime) } := by
  simp only [handle] at h
  split at h
  · simp at h
  rename_i v hv
  split at h
  · simp at h
  rename_i hst
  split at h
  · simp at h
  rename_i hmin
  split at h
  · simp at h
  simp only [Option.some.injEq] at h
  exact ⟨v, hv, by simpa using hst, by omega, h.symm⟩

theorem handle_unjail_shape {s s' : State} {a : Addr} (h : handle s (.unjail a) = some s') :
    ∃ v si, aget s.vals a = some v ∧ aget s.sign a = some si ∧ v.jailed = true ∧ s.p.minStake ≤ v.tokens ∧
      si.tomb = false ∧ si.jailedUntil ≠ forever ∧ si.jailedUntil ≤ s.time ∧
      s' = { s with vals := aset s.vals a { v with jailed := false },
                    idx := if v.status = 2 then idxInsert s.idx (power v.tokens, a) else s.idx } := by
  simp only [handle] at h
  split at h
  · simp at h
  rename_i v hv
  split at h
  · simp at h
  rename_i hmin
  split at h
  · simp at h
  rename_i hj
  split at h
  · simp at h
  rename_i si hsi
  split at h
  · simp at h
  rename_i htomb
  split at h
  · simp at h
  rename_i hju
  split at h
  · simp at h
  simp only [Option.some.injEq] at h
  simp only [Bool.or_eq_true, beq_iff_eq, decide_eq_true_eq, not_or, Int.not_lt] at hju
  refine ⟨v, si, hv, hsi, by simpa using hj, by omega, by simpa using htomb, hju.1, hju.2, ?_⟩
  rw [← h]
  simp only [setStaked, setVal]
  by_cases h2 : v.status = 2 <;> simp [h2]

/-- a successful unjail of a staked validator passed the power-index key guard -/
theorem handle_unjail_int64 {s s' : State} {a : Addr} {v : Val} (h : handle s (.unjail a) = some s')
    (hv : aget s.vals a = some v) (hst : v.status = 2) : Arith.isInt64 (power v.tokens) = true := by
  simp only [handle, hv] at h
  repeat' (split at h)
  all_goals first
    | (simp at h; done)
    | (rename_i hg
       simp only [hst, beq_self_eq_true, Bool.true_and, Bool.not_eq_true', Bool.not_eq_false] at hg
       simpa using hg)

theorem handle_unjail_none_of {s : State} {a : Addr}
    (h : ∀ v si, aget s.vals a = some v → aget s.sign a = some si → si.tomb = true) :
    handle s (.unjail a) = none := by
  cases hh : handle s (.unjail a) with
  | none => rfl
  | some s' =>
    obtain ⟨v, si, hv, hsi, _, _, ht, _⟩ := handle_unjail_shape hh
    rw [h v si hv hsi] at ht; cases ht

/-- messages that do not touch validators -/
theorem handle_other_shape {s s' : State} {m : Msg} (h : handle s m = some s')
    (hm : (∀ k amt, m ≠ .stake k amt) ∧ (∀ a, m ≠ .unstake a) ∧ (∀ a, m ≠ .unjail a)) :
    ∃ b sup p ac d u acc,
      s' = { s with bal := b, supply := sup, p := p, acl := ac, daoOwner := d, upgrade := u, accts := acc } := by
  cases m with
  | stake k amt => exact absurd rfl (hm.1 k amt)
  | unstake a => exact absurd rfl (hm.2.1 a)
  | unjail a => exact absurd rfl (hm.2.2 a)
  | send src dst amt =>
    simp only [handle] at h
    obtain ⟨b, sup, acc, rfl⟩ := send_exact h
    exact ⟨_, _, _, _, _, _, _, rfl⟩
  | changeParam src key val =>
    simp only [handle] at h
    split at h
    · simp at h
    · split at h
      · simp at h
      · simp only [Option.some.injEq] at h
        obtain ⟨p, ac, d, u, hp⟩ := applyParam_shape s key val
        rw [hp] at h; subst h
        exact ⟨_, _, _, _, _, _, _, rfl⟩
  | daoTransfer src dst amt =>
    simp only [handle] at h
    split at h
    · simp at h
    · split at h
      · simp at h
      · obtain ⟨b, sup, acc, rfl⟩ := send_exact h
        exact ⟨_, _, _, _, _, _, _, rfl⟩
  | daoBurn src amt =>
    simp only [handle] at h
    split at h
    · simp at h
    · split at h
      · simp at h
      · obtain ⟨b, sup, rfl⟩ := burnFrom_exact h
        exact ⟨_, _, _, _, _, _, _, rfl⟩
  | upgrade src hh ver =>
    simp only [handle] at h
    split at h
    · simp at h
    · split at h
      · simp at h
      · simp only [Option.some.injEq] at h; subst h
        exact ⟨_, _, _, _, _, _, _, rfl⟩

/-- growth: the validator set only grows and `prev` is untouched -/
structure Grow (s s' : State) : Prop where
  prev : s'.prev = s.prev
  dom : ∀ a, (aget s.vals a).isSome = true → (aget s'.vals a).isSome = true

theorem Grow.of_eq {s s' : State} (h1 : s'.prev = s.prev) (h2 : s'.vals = s.vals) : Grow s s' :=
  ⟨h1, fun a h => by rw [h2]; exact h⟩

theorem Grow.of_aset {s s' : State} (h1 : s'.prev = s.prev) {a : Addr} {v1 : Val} (h2 : s'.vals = aset s.vals a v1) :
    Grow s s' := by
  refine ⟨h1, fun b h => ?_⟩
  rw [h2, aget_aset]; split
  · rfl
  · exact h

theorem Evo.grow {s s' : State} (h : Evo s s') : Grow s s' :=
  ⟨h.prev, fun a ha => by rw [h.valsDom a]; exact ha⟩

theorem handle_core {s s' : State} {m : Msg} (hc : Core s) (h : handle s m = some s') :
    Core s' ∧ Grow s s' := by
  by_cases hm : (∀ k amt, m ≠ .stake k amt) ∧ (∀ a, m ≠ .unstake a) ∧ (∀ a, m ≠ .unjail a)
  · obtain ⟨b, sup, p, ac, d, u, acc, rfl⟩ := handle_other_shape h hm
    exact ⟨hc.of_eq rfl rfl rfl, Grow.of_eq rfl rfl⟩
  · cases m with
    | stake k amt =>
      obtain ⟨hk, hst, hmin, _, b, rel', sg, acc, rfl, _⟩ := handle_stake_shape h
      refine ⟨?_, Grow.of_aset rfl rfl⟩
      apply hc.update (keyAddr s k) _ rfl
      · have hno : ∀ pw, (pw, keyAddr s k) ∉ s.idx := by
          cases hv : aget s.vals (keyAddr s k) with
          | none => exact hc.idx_none hv
          | some v =>
            apply hc.idx_not hv
            rw [hv] at hst; simp only [Option.getD_some] at hst
            intro h2; omega
        exact idxCond_insert hc.index.2 hno _
      · apply qCond_same hc.queue
        intro t
        constructor
        · intro hmem
          cases hv : aget s.vals (keyAddr s k) with
          | none => exact absurd hmem (hc.q_none hv t)
          | some v =>
            have := (hc.q_mem hv t).1 hmem
            rw [hv] at hst; simp only [Option.getD_some] at hst
            omega
        · intro h2; simp at h2
    | unstake a =>
      obtain ⟨v, hv, hst, hmin, rfl⟩ := handle_unstake_shape h
      refine ⟨?_, Grow.of_aset rfl rfl⟩
      apply hc.update a _ rfl
      · exact idxCond_remove hc.index.2 (hc.idx_key hv) (by simp)
      · have hno : ∀ t, a ∉ qGet s.queue t := by
          intro t hmem
          have := (hc.q_mem hv t).1 hmem
          omega
        exact qCond_enq hc.queue (v1 := { v with status := 1, unstake := s.time + s.p.unstakingTime }) hno rfl
    | unjail a =>
      obtain ⟨v, si, hv, hsi, hj, hmin, _, _, _, rfl⟩ := handle_unjail_shape h
      refine ⟨?_, Grow.of_aset rfl rfl⟩
      apply hc.update a _ rfl
      · have hno : ∀ pw, (pw, a) ∉ s.idx := hc.idx_not hv (by simp [hj])
        have := idxCond_insert hc.index.2 hno { v with jailed := false }
        simp only at this ⊢
        by_cases h2 : v.status = 2
        · simpa [h2] using this
        · simpa [h2] using this
      · apply qCond_same hc.queue
        intro t; exact hc.q_mem hv t
    | send src dst amt => exact absurd (by simp) hm
    | changeParam src key val => exact absurd (by simp) hm
    | daoTransfer src dst amt => exact absurd (by simp) hm
    | daoBurn src amt => exact absurd (by simp) hm
    | upgrade src hh ver => exact absurd (by simp) hm

theorem runTx_cases (s : State) (mode : Mode) (t : Tx) :
    (runTx s mode t).1 = s ∨
    (mode = .deliver ∧ ∃ s0, BankOnly s s0 ∧
      ((runTx s mode t).1 = s0 ∧ (runTx s mode t).2 = false ∧ handle s0 t.msg = none ∨
       (runTx s mode t).2 = true ∧ handle s0 t.msg = some (runTx s mode t).1)) := by
  simp only [runTx]
  split
  · exact Or.inl rfl
  split
  · exact Or.inl rfl
  split
  · exact Or.inl rfl
  cases mode with
  | check => exact Or.inl rfl
  | simulate => exact Or.inl rfl
  | deliver =>
    right
    refine ⟨rfl, _, (send_getD_bankOnly s (t.msg.signer s) s.feeAcc t.feeEff).trans
      (send2_getD_bankOnly _ (t.msg.signer s) s.feeAcc t.fee2), ?_⟩
    simp only
    split
    · rename_i s' hs'; exact Or.inr ⟨rfl, hs'⟩
    · rename_i hn; exact Or.inl ⟨rfl, rfl, hn⟩

theorem runTx_core {s : State} (hc : Core s) (mode : Mode) (t : Tx) :
    Core (runTx s mode t).1 ∧ Grow s (runTx s mode t).1 := by
  rcases runTx_cases s mode t with h | ⟨_, s0, hb, h | h⟩
  · rw [h]; exact ⟨hc, Grow.of_eq rfl rfl⟩
  · rw [h.1]; exact ⟨hc.bankOnly hb, (Evo.bankOnly hb).grow⟩
  · obtain ⟨k1, k2⟩ := handle_core (hc.bankOnly hb) h.2
    have g := (Evo.bankOnly hb).grow
    exact ⟨k1, ⟨k2.prev.trans g.prev, fun a ha => k2.dom a (g.dom a ha)⟩⟩

/-! ### EndBlock: maturity -/

/-- what the maturity processing may do to a state -/
structure Shrink (s s' : State) : Prop where
  shape : ∃ vals queue bal acc, s' = { s with vals := vals, queue := queue, bal := bal, accts := acc }
  sub : ∀ b w, aget s'.vals b = some w → aget s.vals b = some w
  keep : ∀ b w, aget s.vals b = some w → w.status ≠ 1 → aget s'.vals b = some w

theorem Shrink.refl (s : State) : Shrink s s := ⟨⟨_, _, _, _, rfl⟩, fun _ _ h => h, fun _ _ h _ => h⟩

theorem Shrink.trans {s1 s2 s3 : State} (h1 : Shrink s1 s2) (h2 : Shrink s2 s3) : Shrink s1 s3 := by
  refine ⟨?_, fun b w h => h1.sub b w (h2.sub b w h), fun b w h hs => h2.keep b w (h1.keep b w h hs) hs⟩
  obtain ⟨_, _, _, _, rfl⟩ := h1.shape
  obtain ⟨_, _, _, _, rfl⟩ := h2.shape
  exact ⟨_, _, _, _, rfl⟩

theorem Shrink.pool {s s' : State} (h : Shrink s s') : s'.pool = s.pool := by
  obtain ⟨_, _, _, _, rfl⟩ := h.shape; rfl
theorem Shrink.prev {s s' : State} (h : Shrink s s') : s'.prev = s.prev := by
  obtain ⟨_, _, _, _, rfl⟩ := h.shape; rfl
theorem Shrink.idx {s s' : State} (h : Shrink s s') : s'.idx = s.idx := by
  obtain ⟨_, _, _, _, rfl⟩ := h.shape; rfl
theorem Shrink.time {s s' : State} (h : Shrink s s') : s'.time = s.time := by
  obtain ⟨_, _, _, _, rfl⟩ := h.shape; rfl
theorem Shrink.p {s s' : State} (h : Shrink s s') : s'.p = s.p := by
  obtain ⟨_, _, _, _, rfl⟩ := h.shape; rfl
theorem Shrink.sign {s s' : State} (h : Shrink s s') : s'.sign = s.sign := by
  obtain ⟨_, _, _, _, rfl⟩ := h.shape; rfl
theorem Shrink.supply {s s' : State} (h : Shrink s s') : s'.supply = s.supply := by
  obtain ⟨_, _, _, _, rfl⟩ := h.shape; rfl

theorem finishOne_cases {x x' : State} {a : Addr} (h : finishOne x a = some x') :
    (x' = x ∧ ∀ v, aget x.vals a = some v → v.status ≠ 1) ∨
    (∃ v s2, aget x.vals a = some v ∧ v.status = 1 ∧ Posmint.Arith.isInt64 v.tokens = true ∧
      send (dequeue x a v.unstake) x.pool a v.tokens = some s2 ∧ x' = { s2 with vals := adel s2.vals a }) := by
  simp only [finishOne] at h
  split at h
  · rename_i hv
    simp at h; left; refine ⟨h.symm, ?_⟩
    intro v hv'; rw [hv] at hv'; cases hv'
  · rename_i v hv
    split at h
    · rename_i hst
      simp at h; left; refine ⟨h.symm, ?_⟩
      intro v' hv'; rw [hv] at hv'; cases hv'; simpa using hst
    · rename_i hst
      split at h
      · simp at h
      · rename_i h64
        split at h
        · simp at h
        · rename_i s2 hs2
          simp only [Option.some.injEq] at h
          right
          exact ⟨v, s2, hv, by simpa using hst, by simpa using h64, hs2, h.symm⟩

theorem finishOne_spec {x x' : State} {a : Addr} (hc : Core x) (hb : Backed x) (h : finishOne x a = some x') :
    Core x' ∧ Backed x' ∧ Shrink x x' ∧ (∀ w, aget x'.vals a = some w → w.status ≠ 1) ∧
    (x' = x ∨ ∃ v, aget x.vals a = some v ∧ v.status = 1 ∧ x'.vals = adel x.vals a ∧
      ∀ b, balOf x' b = balOf x b - (if x.pool = b then v.tokens else 0) + (if a = b then v.tokens else 0)) := by
  rcases finishOne_cases h with ⟨rfl, hn⟩ | ⟨v, s2, hv, hst, h64, hs2, hx'⟩
  · exact ⟨hc, hb, Shrink.refl _, hn, Or.inl rfl⟩
  obtain ⟨b, acc, hb2⟩ := send_eq hs2
  have hbal0 : (dequeue x a v.unstake).bal = x.bal := rfl
  obtain ⟨k1, k2, k3⟩ := send_spec (s := dequeue x a v.unstake) hb.balAsc hs2
  have hvals : x'.vals = adel x.vals a := by rw [hx', hb2]; rfl
  have hq : x'.queue = qDeq x.queue a v.unstake := by rw [hx', hb2]; rfl
  have hidx : x'.idx = x.idx := by rw [hx', hb2]; rfl
  have hpool : x'.pool = x.pool := by rw [hx', hb2]; rfl
  have hbal' : x'.bal = s2.bal := by rw [hx']
  have hshape : ∃ vals queue bal acc, x' = { x with vals := vals, queue := queue, bal := bal, accts := acc } := by
    rw [hx', hb2]; exact ⟨_, _, _, _, rfl⟩
  have hbalE : ∀ c, balOf x' c =
      balOf x c - (if x.pool = c then v.tokens else 0) + (if a = c then v.tokens else 0) := by
    intro c
    have := k3 c
    rw [balOf_congr hbal0] at this
    rw [balOf_congr hbal']
    exact this
  have hsub : ∀ c w, aget (adel x.vals a) c = some w → aget x.vals c = some w := by
    intro c w hw
    rw [aget_adel hc.valsAsc] at hw
    split at hw
    · cases hw
    · exact hw
  refine ⟨⟨?_, ?_, ?_⟩, ⟨?_, ?_, ?_, ?_⟩, ⟨?_, ?_, ?_⟩, ?_, Or.inr ⟨v, hv, hst, hvals, hbalE⟩⟩
  · rw [hvals]; exact keysAsc_adel hc.valsAsc a
  · rw [indexExact_iff, hvals, hidx]
    apply IdxEx.delete hc.valsAsc hc.index
    exact hc.idx_not hv (by omega)
  · rw [queueExact_iff, hvals, hq]
    obtain ⟨s1, s2'⟩ := qDeq_struct hc.queue.2.1 hc.queue.2.2 a v.unstake
    apply QEx.delete hc.valsAsc hc.queue a s1 s2'
    · intro t hmem
      rw [mem_qGet_qDeq] at hmem
      have := ((hc.q_mem hv t).1 hmem.1).2
      exact hmem.2 ⟨rfl, this⟩
    · intro t c hca
      rw [mem_qGet_qDeq]
      constructor
      · exact fun h => h.1
      · intro h; exact ⟨h, fun h2 => hca h2.1⟩
  · rw [hbal']; exact k2
  · intro c w hw; rw [hvals] at hw; exact hb.tokNonneg c w (hsub c w hw)
  · intro c w hw; rw [hvals] at hw; exact hb.unstakedEmpty c w (hsub c w hw)
  · have hp := hb.pool
    simp only [PoolBacks] at hp ⊢
    rw [stakeSum_eq, hvals, asum_adel contrib hc.valsAsc, hv, hpool, hbalE, ← stakeSum_eq]
    have hcon : contrib v = v.tokens := by simp [contrib, hst]
    have ht := hb.tokNonneg a v hv
    simp only [hcon, if_true]
    split <;> omega
  · exact hshape
  · intro c w hw; rw [hvals] at hw; exact hsub c w hw
  · intro c w hw hs
    rw [hvals, aget_adel hc.valsAsc]
    split
    · rename_i hac; subst hac; rw [hv] at hw; cases hw; exact absurd hst hs
    · exact hw
  · intro w hw; rw [hvals, aget_adel_self hc.valsAsc] at hw; cases hw

/-! ### folds that remember what was done for every element -/

theorem foldl_bind_inv' {α : Type} (P : State → Prop) (R : State → State → Prop) (Post : α → State → Prop)
    (hrefl : ∀ s, R s s) (htrans : ∀ s1 s2 s3, R s1 s2 → R s2 s3 → R s1 s3)
    (hpers : ∀ x st st', Post x st → R st st' → Post x st')
    (f : State → α → Option State) (l : List α)
    (hstep : ∀ st x st', x ∈ l → P st → f st x = some st' → P st' ∧ R st st' ∧ Post x st')
    (s s' : State) (hP : P s)
    (hf : l.foldl (fun (st? : Option State) x => st?.bind fun st => f st x) (some s) = some s') :
    P s' ∧ R s s' ∧ ∀ x ∈ l, Post x s' := by
  induction l generalizing s with
  | nil => simp at hf; subst hf; exact ⟨hP, hrefl _, by simp⟩
  | cons x rest ih =>
    simp only [List.foldl_cons, Option.bind_some] at hf
    cases hx : f s x with
    | none => rw [hx, foldl_bind_none] at hf; cases hf
    | some s1 =>
      rw [hx] at hf
      obtain ⟨p1, r1, q1⟩ := hstep s x s1 (by simp) hP hx
      obtain ⟨p2, r2, q2⟩ := ih (fun st y st' hy => hstep st y st' (List.mem_cons_of_mem _ hy)) s1 p1 hf
      refine ⟨p2, htrans _ _ _ r1 r2, ?_⟩
      intro y hy
      simp only [List.mem_cons] at hy
      rcases hy with rfl | hy
      · exact hpers _ _ _ q1 r2
      · exact q2 y hy

theorem foldl_bind_isSome {α : Type} (P : State → Prop) (f : State → α → Option State) (l : List α)
    (hstep : ∀ st x, x ∈ l → P st → ∃ st', f st x = some st' ∧ P st') (s : State) (hP : P s) :
    ∃ s', l.foldl (fun (st? : Option State) x => st?.bind fun st => f st x) (some s) = some s' ∧ P s' := by
  induction l generalizing s with
  | nil => exact ⟨s, rfl, hP⟩
  | cons x rest ih =>
    simp only [List.foldl_cons, Option.bind_some]
    obtain ⟨s1, h1, p1⟩ := hstep s x (by simp) hP
    rw [h1]
    exact ih (fun st y hy => hstep st y (List.mem_cons_of_mem _ hy)) s1 p1

/-! ### `unstakeMature` -/

/-- processing of one queue slot -/
def procSlot (st : State) (slot : Int × List Addr) : Option State :=
  (slot.2.foldl (fun (x? : Option State) a => x?.bind fun x => finishOne x a) (some st)).map
    fun x => { x with queue := qDel x.queue slot.1 }

theorem unstakeMature_eq (s : State) :
    unstakeMature s = (s.queue.filter (fun e => e.1 ≤ s.time)).foldl
      (fun (st? : Option State) slot => st?.bind fun st => procSlot st slot) (some s) := rfl

def NotUnstaking (st : State) (b : Addr) : Prop := ∀ w, aget st.vals b = some w → w.status ≠ 1

theorem NotUnstaking.pers {b : Addr} {st st' : State} (h : NotUnstaking st b) (hs : Shrink st st') :
    NotUnstaking st' b := fun w hw => h w (hs.sub b w hw)

/-- The master invariant lemma for the maturity pass. `Q` is any extra property that is carried
by every `finishOne` on a mature queued address and does not depend on the queue. -/
theorem unstakeMature_inv {s s' : State} (hc : Core s) (hb : Backed s) (Q : State → Prop) (hQ0 : Q s)
    (hQfin : ∀ x b x', Core x → Backed x → Shrink s x → Q x →
      (∃ t l, (t, l) ∈ s.queue ∧ t ≤ s.time ∧ b ∈ l) → finishOne x b = some x' → Q x')
    (h : unstakeMature s = some s') :
    Core s' ∧ Backed s' ∧ Shrink s s' ∧ Q s' ∧
    ∀ slot ∈ s.queue.filter (fun e => e.1 ≤ s.time), ∀ b ∈ slot.2, NotUnstaking s' b := by
  rw [unstakeMature_eq] at h
  have := foldl_bind_inv' (fun st => Core st ∧ Backed st ∧ Shrink s st ∧ Q st) Shrink
    (fun (slot : Int × List Addr) st => ∀ b ∈ slot.2, NotUnstaking st b)
    Shrink.refl (fun _ _ _ => Shrink.trans) (fun slot st st' hp hr b hb => (hp b hb).pers hr)
    procSlot (s.queue.filter (fun e => e.1 ≤ s.time))
    (fun st slot st' hslot hP hst => by
      obtain ⟨c0, b0, sh0, q0⟩ := hP
      simp only [List.mem_filter, decide_eq_true_eq] at hslot
      simp only [procSlot] at hst
      cases hin : slot.2.foldl (fun (x? : Option State) a => x?.bind fun x => finishOne x a) (some st) with
      | none => rw [hin] at hst; simp at hst
      | some x =>
        rw [hin] at hst
        simp only [Option.map_some, Option.some.injEq] at hst
        obtain ⟨⟨c1, b1, sh1, q1⟩, r1, post1⟩ :=
          foldl_bind_inv' (fun st => Core st ∧ Backed st ∧ Shrink s st ∧ Q st) Shrink
            (fun (b : Addr) st => NotUnstaking st b)
            Shrink.refl (fun _ _ _ => Shrink.trans) (fun b st st' hp hr => hp.pers hr)
            finishOne slot.2
            (fun y b y' hb hP hy => by
              obtain ⟨cy, by', shy, qy⟩ := hP
              obtain ⟨k1, k2, k3, k4, _⟩ := finishOne_spec cy by' hy
              exact ⟨⟨k1, k2, shy.trans k3, hQfin y b y' cy by' shy qy ⟨slot.1, slot.2, hslot.1, hslot.2, hb⟩ hy⟩, k3, k4⟩)
            st x ⟨c0, b0, sh0, q0⟩ hin
        -- the slot is now empty, so deleting it changes nothing
        have hempty : qGet x.queue slot.1 = [] := by
          cases hq : qGet x.queue slot.1 with
          | nil => rfl
          | cons b rest =>
            exfalso
            have hbm : b ∈ qGet x.queue slot.1 := by rw [hq]; simp
            obtain ⟨w, hw, hw1, hw2⟩ := (c1.queue.1 slot.1 b).1 hbm
            have hws := sh1.sub b w hw
            have : b ∈ qGet s.queue slot.1 := (hc.queue.1 slot.1 b).2 ⟨w, hws, hw1, hw2⟩
            rw [qGet_of_mem hc.queue.2.1 hslot.1] at this
            exact post1 b this w hw hw1
        have hqd : qDel x.queue slot.1 = x.queue := qDel_of_qGet_nil (fun e he => (c1.queue.2.2 e he).1) hempty
        have hxe : st' = x := by
          rw [← hst, hqd]
        rw [hxe]
        exact ⟨⟨c1, b1, sh1, q1⟩, r1, post1⟩)
    s s' ⟨hc, hb, Shrink.refl s, hQ0⟩ h
  obtain ⟨⟨k1, k2, k3, k4⟩, _, k5⟩ := this
  exact ⟨k1, k2, k3, k4, k5⟩

/-! ### EndBlock: the scan of the power index -/

def EntryOK (s : State) (e : Int × Addr) : Prop :=
  ∃ v, aget s.vals e.2 = some v ∧ v.status = 2 ∧ v.jailed = false ∧ e.1 = power v.tokens

theorem scan_spec (s : State) (l : List (Int × Addr)) (hl : ∀ e ∈ l, EntryOK s e)
    (count : Nat) (ups prev rem : List (Addr × Int)) (tot : Int)
    (r : List (Addr × Int) × List (Addr × Int) × List (Addr × Int) × Int)
    (h : scanIndex s l count ups prev rem tot = some r) :
    ∃ W : List (Addr × Int),
      r.1 = W.reverse ++ ups ∧
      r.2.1 = W.foldl (fun m e => aset m e.1 e.2) prev ∧
      r.2.2.1 = ((l.take (s.p.maxVals.toNat - count)).map (·.2)).foldl (fun m k => adel m k) rem ∧
      (W.map (·.1)).Sublist ((l.take (s.p.maxVals.toNat - count)).map (·.2)) ∧
      (∀ e ∈ W, (e.2, e.1) ∈ l.take (s.p.maxVals.toNat - count) ∧ aget s.prev e.1 ≠ some e.2) ∧
      (∀ e ∈ l.take (s.p.maxVals.toNat - count), (e.2, e.1) ∈ W ∨ aget s.prev e.2 = some e.1) ∧
      (∀ e ∈ l.take (s.p.maxVals.toNat - count), e.1 ≠ 0) := by
  induction l generalizing count ups prev rem tot with
  | nil =>
    simp only [scanIndex, Option.some.injEq] at h
    subst h
    exact ⟨[], by simp⟩
  | cons e rest ih =>
    obtain ⟨pw0, a⟩ := e
    simp only [scanIndex] at h
    split at h
    · rename_i hge
      simp only [Option.some.injEq] at h
      subst h
      have : s.p.maxVals.toNat - count = 0 := by omega
      rw [this]
      exact ⟨[], by simp⟩
    · rename_i hge
      obtain ⟨v, hv, hst, hj, hpw⟩ := hl (pw0, a) (by simp)
      simp only at hv hpw
      rw [hv] at h
      simp only [hj, Bool.false_eq_true, if_false, hst, beq_self_eq_true, if_true] at h
      split at h
      · simp at h
      rename_i hp0
      have hn : s.p.maxVals.toNat - count = (s.p.maxVals.toNat - (count + 1)) + 1 := by omega
      rw [hn, List.take_succ_cons]
      have hl' : ∀ e ∈ rest, EntryOK s e := fun e he => hl e (List.mem_cons_of_mem _ he)
      have hp0' : pw0 ≠ 0 := by rw [hpw]; simpa using hp0
      by_cases hch : aget s.prev a = some (power v.tokens)
      · -- unchanged
        have h' : scanIndex s rest (count + 1) ups prev (adel rem a) (tot + power v.tokens) = some r := by
          rw [hch] at h; simpa using h
        clear h
        obtain ⟨W, w1, w2, w3, w4, w5, w6, w7⟩ := ih hl' _ _ _ _ _ h'
        refine ⟨W, w1, w2, ?_, ?_, ?_, ?_, ?_⟩
        · simpa using w3
        · simp only [List.map_cons]; exact List.Sublist.cons _ w4
        · intro e he; exact ⟨List.mem_cons_of_mem _ (w5 e he).1, (w5 e he).2⟩
        · intro e he
          simp only [List.mem_cons] at he
          rcases he with rfl | he
          · right; rw [hpw]; exact hch
          · exact w6 e he
        · intro e he
          simp only [List.mem_cons] at he
          rcases he with rfl | he
          · exact hp0'
          · exact w7 e he
      · -- changed
        have h' : scanIndex s rest (count + 1) ((a, power v.tokens) :: ups) (aset prev a (power v.tokens))
            (adel rem a) (tot + power v.tokens) = some r := by
          cases hq : aget s.prev a with
          | none => rw [hq] at h; simpa using h
          | some pw =>
            rw [hq] at h hch
            have hne : pw ≠ power v.tokens := by intro e; apply hch; rw [e]
            simpa [hne] using h
        clear h
        obtain ⟨W, w1, w2, w3, w4, w5, w6, w7⟩ := ih hl' _ _ _ _ _ h'
        refine ⟨(a, power v.tokens) :: W, ?_, ?_, ?_, ?_, ?_, ?_, ?_⟩
        · rw [w1]; simp
        · rw [w2]; rfl
        · simpa using w3
        · simp only [List.map_cons]; exact List.Sublist.cons_cons _ w4
        · intro e he
          simp only [List.mem_cons] at he
          rcases he with rfl | he
          · refine ⟨?_, hch⟩
            rw [← hpw]; simp
          · exact ⟨List.mem_cons_of_mem _ (w5 e he).1, (w5 e he).2⟩
        · intro e he
          simp only [List.mem_cons] at he
          rcases he with rfl | he
          · left; rw [hpw]; simp
          · rcases w6 e he with h1 | h1
            · exact Or.inl (List.mem_cons_of_mem _ h1)
            · exact Or.inr h1
        · intro e he
          simp only [List.mem_cons] at he
          rcases he with rfl | he
          · exact hp0'
          · exact w7 e he

/-- the scan does not fail when every visited entry has non-zero power -/
theorem scan_isSome (s : State) (l : List (Int × Addr)) (hl : ∀ e ∈ l, EntryOK s e) (hnz : ∀ e ∈ l, e.1 ≠ 0)
    (count : Nat) (ups prev rem : List (Addr × Int)) (tot : Int) :
    (scanIndex s l count ups prev rem tot).isSome = true := by
  induction l generalizing count ups prev rem tot with
  | nil => simp [scanIndex]
  | cons e rest ih =>
    obtain ⟨pw0, a⟩ := e
    simp only [scanIndex]
    split
    · rfl
    · obtain ⟨v, hv, hst, hj, hpw⟩ := hl (pw0, a) (by simp)
      simp only at hv hpw
      rw [hv]
      have hp0 : ¬ (power v.tokens == 0) = true := by
        have := hnz (pw0, a) (by simp)
        simp only at this
        rw [hpw] at this; simpa using this
      simp only [hj, Bool.false_eq_true, if_false, hp0]
      exact ih (fun e he => hl e (List.mem_cons_of_mem _ he)) (fun e he => hnz e (List.mem_cons_of_mem _ he)) _ _ _ _ _

/-! ### lookups in folds of `aset` / `adel` -/

theorem keysAsc_foldl_aset {W : List (Addr × Int)} {m : List (Addr × Int)} (hm : KeysAsc m) :
    KeysAsc (W.foldl (fun m e => aset m e.1 e.2) m) := by
  induction W generalizing m with
  | nil => exact hm
  | cons e W ih => exact ih (keysAsc_aset hm _ _)

theorem aget_foldl_aset_not_mem {W : List (Addr × Int)} {m : List (Addr × Int)} {a : Addr}
    (h : a ∉ W.map (·.1)) : aget (W.foldl (fun m e => aset m e.1 e.2) m) a = aget m a := by
  induction W generalizing m with
  | nil => rfl
  | cons e W ih =>
    simp only [List.map_cons, List.mem_cons, not_or] at h
    simp only [List.foldl_cons]
    rw [ih h.2, aget_aset_ne _ _ (fun h' => h.1 h'.symm)]

theorem aget_foldl_aset_mem {W : List (Addr × Int)} {m : List (Addr × Int)} {a : Addr} {pw : Int}
    (hnd : (W.map (·.1)).Nodup) (h : (a, pw) ∈ W) : aget (W.foldl (fun m e => aset m e.1 e.2) m) a = some pw := by
  induction W generalizing m with
  | nil => simp at h
  | cons e W ih =>
    simp only [List.map_cons, List.nodup_cons] at hnd
    simp only [List.foldl_cons]
    simp only [List.mem_cons] at h
    rcases h with rfl | h
    · rw [aget_foldl_aset_not_mem hnd.1, aget_aset_self]
    · exact ih hnd.2 h

theorem keysAsc_foldl_adel {K : List Addr} {m : List (Addr × Int)} (hm : KeysAsc m) :
    KeysAsc (K.foldl (fun m k => adel m k) m) := by
  induction K generalizing m with
  | nil => exact hm
  | cons k K ih => exact ih (keysAsc_adel hm _)

theorem aget_foldl_adel {K : List Addr} {m : List (Addr × Int)} (hm : KeysAsc m) (a : Addr) :
    aget (K.foldl (fun m k => adel m k) m) a = if a ∈ K then none else aget m a := by
  induction K generalizing m with
  | nil => simp
  | cons k K ih =>
    simp only [List.foldl_cons, List.mem_cons]
    rw [ih (keysAsc_adel hm _), aget_adel hm]
    by_cases h1 : a ∈ K
    · simp [h1]
    · by_cases h2 : k = a
      · subst h2; simp
      · have : ¬ a = k := fun h => h2 h.symm
        simp [h1, h2, this]

theorem mem_keys_iff {m : List (Addr × Int)} {a : Addr} : a ∈ m.map (·.1) ↔ (aget m a).isSome = true := by
  rw [aget_isSome_iff]
  simp only [List.mem_map]
  constructor
  · rintro ⟨e, he, rfl⟩; exact ⟨e.2, he⟩
  · rintro ⟨v, hv⟩; exact ⟨(a, v), hv, rfl⟩

/-! ### facts about the power index from `IndexExact` -/

theorem idx_entryOK {s : State} (h : IndexExact s) : ∀ e ∈ s.idx, EntryOK s e := by
  intro e he
  obtain ⟨pw, a⟩ := e
  exact (h.1 pw a).1 he

theorem idx_unique {s : State} (h : IndexExact s) {pw pw' : Int} {a : Addr}
    (h1 : (pw, a) ∈ s.idx) (h2 : (pw', a) ∈ s.idx) : pw = pw' := by
  obtain ⟨v, hv, _, _, e1⟩ := (h.1 pw a).1 h1
  obtain ⟨v', hv', _, _, e2⟩ := (h.1 pw' a).1 h2
  rw [hv] at hv'; cases hv'; rw [e1, e2]

theorem idx_addr_nodup {s : State} (h : IndexExact s) : (s.idx.map (·.2)).Nodup := by
  rw [List.nodup_iff_pairwise_ne, List.pairwise_map]
  apply List.Pairwise.imp_of_mem _ h.2
  intro x y hx hy hlt heq
  obtain ⟨p1, a1⟩ := x
  obtain ⟨p2, a2⟩ := y
  simp only at heq
  subst heq
  have := idx_unique h hx hy
  subst this
  rw [idxLt_irrefl] at hlt
  cases hlt

/-- the entries visited by the scan -/
def visited (s : State) : List (Int × Addr) := s.idx.reverse.take s.p.maxVals.toNat

theorem visited_sub {s : State} : ∀ e ∈ visited s, e ∈ s.idx := by
  intro e he
  have := List.mem_of_mem_take he
  simpa using this

theorem visited_nodup {s : State} (h : IndexExact s) : ((visited s).map (·.2)).Nodup := by
  have h1 : ((visited s).map (·.2)).Sublist (s.idx.reverse.map (·.2)) := (List.take_sublist _ _).map _
  apply List.Nodup.sublist h1
  rw [List.map_reverse]
  rw [List.nodup_iff_pairwise_ne, List.pairwise_reverse]
  exact List.Pairwise.imp (fun h => Ne.symm h) (idx_addr_nodup h)

theorem visited_unique {s : State} (h : IndexExact s) {pw pw' : Int} {a : Addr}
    (h1 : (pw, a) ∈ visited s) (h2 : (pw', a) ∈ visited s) : pw = pw' :=
  idx_unique h (visited_sub _ h1) (visited_sub _ h2)

theorem target_eq (s : State) :
    target s = ((visited s).map fun e => (e.2, e.1)).foldl (fun m e => aset m e.1 e.2) [] := rfl

theorem keysAsc_target (s : State) : KeysAsc (target s) := by
  rw [target_eq]; exact keysAsc_foldl_aset (by simp [KeysAsc])

theorem aget_target {s : State} (h : IndexExact s) (a : Addr) (pw : Int) :
    aget (target s) a = some pw ↔ (pw, a) ∈ visited s := by
  rw [target_eq]
  have hnd : (((visited s).map fun e => (e.2, e.1)).map (·.1)).Nodup := by
    rw [List.map_map]; exact visited_nodup h
  constructor
  · intro hg
    by_cases hm : a ∈ ((visited s).map fun e => (e.2, e.1)).map (·.1)
    · simp only [List.map_map, List.mem_map, Function.comp] at hm
      obtain ⟨e, he, rfl⟩ := hm
      have : (e.2, e.1) ∈ (visited s).map fun e => (e.2, e.1) := List.mem_map.2 ⟨e, he, rfl⟩
      rw [aget_foldl_aset_mem hnd this] at hg
      cases hg; exact he
    · rw [aget_foldl_aset_not_mem hm] at hg
      simp [aget] at hg
  · intro hm
    have : (a, pw) ∈ (visited s).map fun e => (e.2, e.1) := List.mem_map.2 ⟨(pw, a), hm, rfl⟩
    exact aget_foldl_aset_mem hnd this

theorem power_nonneg {t : Int} (h : 0 ≤ t) : 0 ≤ power t := by
  simp only [power, powerReduction]
  exact Int.tdiv_nonneg h (by decide)

theorem foldl_updates_split (W : List (Addr × Int)) (R : List (Addr × Int)) (m : List (Addr × Int))
    (hW : ∀ e ∈ W, e.2 ≠ 0) :
    (W ++ R.map (fun e => (e.1, (0 : Int)))).foldl (fun m u => if u.2 == 0 then adel m u.1 else aset m u.1 u.2) m =
      R.foldl (fun p e => adel p e.1) (W.foldl (fun m e => aset m e.1 e.2) m) := by
  rw [List.foldl_append]
  have h1 : ∀ m, W.foldl (fun m u => if u.2 == 0 then adel m u.1 else aset m u.1 u.2) m =
      W.foldl (fun m e => aset m e.1 e.2) m := by
    induction W with
    | nil => intro m; rfl
    | cons e W ih =>
      intro m
      have he := hW e (by simp)
      simp only [List.foldl_cons]
      have : (e.2 == 0) = false := by simpa using he
      simp only [this, Bool.false_eq_true, if_false]
      exact ih (fun e he => hW e (List.mem_cons_of_mem _ he)) _
  rw [h1]
  generalize W.foldl (fun m e => aset m e.1 e.2) m = m'
  induction R generalizing m' with
  | nil => rfl
  | cons e R ih => simp only [List.map_cons, List.foldl_cons, beq_self_eq_true, if_true]; exact ih _

/-- The validator-set update: shape of the new state, the new `prev` map as a lookup function,
and applicability of the update batch. Needs only the index invariant, a sorted `prev`, and
non-negative stakes. -/
theorem update_spec {s s' : State} {ups : List (Addr × Int)} (hidx : IndexExact s) (hprev : KeysAsc s.prev)
    (htok : ∀ a v, aget s.vals a = some v → 0 ≤ v.tokens)
    (hupd : updateValidators s = some (s', ups)) :
    (∃ pv pt, s' = { s with prev := pv, prevTot := pt }) ∧ KeysAsc s'.prev ∧
    (∀ a pw, aget s'.prev a = some pw ↔ (pw, a) ∈ visited s) ∧
    (∀ e ∈ visited s, 0 < e.1) ∧
    applyUpdates s.prev ups = some s'.prev := by
  simp only [updateValidators] at hupd
  split at hupd
  · simp at hupd
  rename_i upsRev prev1 remaining tot hscan
  split at hupd
  · simp at hupd
  rename_i hrem
  simp only [Option.some.injEq, Prod.mk.injEq] at hupd
  obtain ⟨hs', hups⟩ := hupd
  have hl : ∀ e ∈ s.idx.reverse, EntryOK s e := fun e he => idx_entryOK hidx e (by simpa using he)
  obtain ⟨W, w1, w2, w3, w4, w5, w6, w7⟩ := scan_spec s s.idx.reverse hl 0 [] s.prev s.prev 0 _ hscan
  simp only [List.append_nil, Nat.sub_zero] at w1 w2 w3 w4 w5 w6 w7
  change ∀ e ∈ visited s, _ at w6
  change ∀ e ∈ visited s, _ at w7
  change ∀ e ∈ W, (e.2, e.1) ∈ visited s ∧ _ at w5
  change (W.map (·.1)).Sublist ((visited s).map (·.2)) at w4
  change remaining = ((visited s).map (·.2)).foldl _ s.prev at w3
  have hWrev : upsRev.reverse = W := by rw [w1]; simp
  have hvnd := visited_nodup hidx
  have hWnd : (W.map (·.1)).Nodup := List.Nodup.sublist w4 hvnd
  have hremAsc : KeysAsc remaining := by rw [w3]; exact keysAsc_foldl_adel hprev
  have hp1Asc : KeysAsc prev1 := by rw [w2]; exact keysAsc_foldl_aset hprev
  -- lookups
  have hrem_get : ∀ a, aget remaining a = if a ∈ (visited s).map (·.2) then none else aget s.prev a := by
    intro a; rw [w3]; exact aget_foldl_adel hprev a
  have hprev2 : s'.prev = (remaining.map (·.1)).foldl (fun m k => adel m k) prev1 := by
    rw [← hs', List.foldl_map]
  have hp2_get : ∀ a, aget s'.prev a = if a ∈ remaining.map (·.1) then none else aget prev1 a := by
    intro a; rw [hprev2]; exact aget_foldl_adel hp1Asc a
  have hpos : ∀ e ∈ visited s, 0 < e.1 := by
    intro e he
    obtain ⟨v, hv, _, _, hpw⟩ := hl e (by have := visited_sub e he; simpa using this)
    have h1 := power_nonneg (htok _ v hv)
    have h2 := w7 e he
    omega
  have hchar : ∀ a pw, aget s'.prev a = some pw ↔ (pw, a) ∈ visited s := by
    intro a pw
    rw [hp2_get]
    have hmem : a ∈ remaining.map (·.1) ↔ (a ∉ (visited s).map (·.2) ∧ (aget s.prev a).isSome = true) := by
      rw [mem_keys_iff, hrem_get]
      by_cases hv : a ∈ (visited s).map (·.2)
      · simp [hv]
      · simp [hv]
    by_cases hr : a ∈ remaining.map (·.1)
    · rw [if_pos hr]
      constructor
      · intro h; cases h
      · intro hm
        exact absurd (List.mem_map.2 ⟨(pw, a), hm, rfl⟩) (hmem.1 hr).1
    rw [if_neg hr]
    constructor
    · intro hg
      by_cases hW : a ∈ W.map (·.1)
      · obtain ⟨e, he, rfl⟩ := List.mem_map.1 hW
        have : aget prev1 e.1 = some e.2 := by rw [w2]; exact aget_foldl_aset_mem hWnd he
        rw [this] at hg; cases hg
        exact (w5 e he).1
      · have hp1 : aget prev1 a = aget s.prev a := by rw [w2]; exact aget_foldl_aset_not_mem hW
        rw [hp1] at hg
        by_cases hv : a ∈ (visited s).map (·.2)
        · obtain ⟨e, he, rfl⟩ := List.mem_map.1 hv
          rcases w6 e he with h1 | h1
          · exact absurd (List.mem_map.2 ⟨(e.2, e.1), h1, rfl⟩) hW
          · rw [h1] at hg; cases hg; exact he
        · exact absurd (hmem.2 ⟨hv, by rw [hg]; rfl⟩) hr
    · intro hm
      rcases w6 (pw, a) hm with h1 | h1
      · rw [w2]; exact aget_foldl_aset_mem hWnd h1
      · by_cases hW : a ∈ W.map (·.1)
        · obtain ⟨e, he, rfl⟩ := List.mem_map.1 hW
          have := visited_unique hidx (w5 e he).1 hm
          rw [← this] at h1
          exact absurd h1 (w5 e he).2
        · rw [w2, aget_foldl_aset_not_mem hW]; exact h1
  refine ⟨⟨_, _, hs'.symm⟩, ?_, hchar, hpos, ?_⟩
  · rw [hprev2]; exact keysAsc_foldl_adel hp1Asc
  · -- the batch applies
    rw [← hups, hWrev]
    have hWpos : ∀ e ∈ W, 0 < e.2 := fun e he => hpos (e.2, e.1) (w5 e he).1
    have hremsub : ∀ e ∈ remaining, (aget s.prev e.1).isSome = true ∧ e.1 ∉ (visited s).map (·.2) := by
      intro e he
      have h1 := mem_aget hremAsc (k := e.1) (v := e.2) he
      rw [hrem_get] at h1
      split at h1
      · cases h1
      · rename_i hn; exact ⟨by rw [h1]; rfl, hn⟩
    simp only [applyUpdates]
    have c1 : ((W ++ remaining.map (fun e => (e.1, (0 : Int)))).map (·.1)).Nodup := by
      rw [List.map_append, List.map_map]
      rw [List.nodup_append]
      refine ⟨hWnd, ?_, ?_⟩
      · have : (remaining.map ((fun x => x.1) ∘ fun e => (e.1, (0 : Int)))) = remaining.map (·.1) := rfl
        rw [this]
        have := hremAsc
        simp only [KeysAsc] at this
        rw [List.nodup_iff_pairwise_ne, List.pairwise_map]
        exact this.imp (fun h => String.ne_of_lt h)
      · intro x hx y hy hxy
        subst hxy
        have hxv : x ∈ (visited s).map (·.2) := w4.subset hx
        simp only [List.mem_map, Function.comp] at hy
        obtain ⟨e, he, rfl⟩ := hy
        exact (hremsub e he).2 hxv
    have c2 : (W ++ remaining.map (fun e => (e.1, (0 : Int)))).any (fun u => decide (u.2 < 0)) = false := by
      rw [List.any_eq_false]
      intro u hu
      simp only [List.mem_append, List.mem_map] at hu
      rcases hu with hu | ⟨e, he, rfl⟩
      · have := hWpos u hu; simp; omega
      · simp
    have c3 : (W ++ remaining.map (fun e => (e.1, (0 : Int)))).any
        (fun u => u.2 == 0 && (aget s.prev u.1).isNone) = false := by
      rw [List.any_eq_false]
      intro u hu
      simp only [List.mem_append, List.mem_map] at hu
      rcases hu with hu | ⟨e, he, rfl⟩
      · have := hWpos u hu
        have : (u.2 == 0) = false := by simp; omega
        simp [this]
      · have := (hremsub e he).1
        cases hq : aget s.prev e.1 with
        | none => rw [hq] at this; cases this
        | some x => simp
    simp only [c1, decide_true, Bool.not_true, Bool.false_eq_true, if_false, c2, c3, Option.some.injEq]
    rw [foldl_updates_split W remaining s.prev (fun e he => by have := hWpos e he; omega), ← w2, ← hs']

theorem option_ext {α : Type} {o1 o2 : Option α} (h : ∀ x, o1 = some x ↔ o2 = some x) : o1 = o2 := by
  cases o1 with
  | none =>
    cases o2 with
    | none => rfl
    | some y => exact absurd ((h y).2 rfl) (by simp)
  | some x => exact ((h x).1 rfl).symm

/-- the update batch applies to the old `prev` and the new `prev` map is the target set (needs only
the index invariant, a sorted `prev` and non-negative stakes) -/
theorem prev_eq_target {s s' : State} {ups : List (Addr × Int)} (hidx : IndexExact s) (hprev : KeysAsc s.prev)
    (htok : ∀ a v, aget s.vals a = some v → 0 ≤ v.tokens)
    (he : updateValidators s = some (s', ups)) :
    applyUpdates s.prev ups = some s'.prev ∧ s'.prev = target s := by
  obtain ⟨_, hasc, hchar, _, happ⟩ := update_spec hidx hprev htok he
  refine ⟨happ, keysAsc_ext hasc (keysAsc_target s) ?_⟩
  intro k
  apply option_ext
  intro pw
  rw [hchar, aget_target hidx]

theorem power_ne_zero {t : Int} (h : powerReduction ≤ t) : power t ≠ 0 := by
  simp only [power, powerReduction] at *
  rw [Int.tdiv_eq_ediv_of_nonneg (by omega)]
  omega

theorem mem_foldl_adel {K : List Addr} {m : List (Addr × Int)} {e : Addr × Int}
    (h : e ∈ K.foldl (fun m k => adel m k) m) : e ∈ m := by
  induction K generalizing m with
  | nil => exact h
  | cons k K ih => exact mem_adel (ih h)

/-- the update does not halt when the index is exact, every indexed validator has non-zero power
and every member of `prev` has a record -/
theorem update_isSome {s : State} (hidx : IndexExact s)
    (hp : ∀ a v, aget s.vals a = some v → v.status = 2 → v.jailed = false → powerReduction ≤ v.tokens)
    (hprev : ∀ e ∈ s.prev, (aget s.vals e.1).isSome = true) :
    (updateValidators s).isSome = true := by
  have hl : ∀ e ∈ s.idx.reverse, EntryOK s e := fun e he => idx_entryOK hidx e (by simpa using he)
  have hnz : ∀ e ∈ s.idx.reverse, e.1 ≠ 0 := by
    intro e he
    obtain ⟨v, hv, h2, h3, h4⟩ := hl e he
    rw [h4]; exact power_ne_zero (hp _ v hv h2 h3)
  have hsome := scan_isSome s s.idx.reverse hl hnz 0 [] s.prev s.prev 0
  simp only [updateValidators]
  cases hscan : scanIndex s s.idx.reverse 0 [] s.prev s.prev 0 with
  | none => rw [hscan] at hsome; cases hsome
  | some r =>
    obtain ⟨upsRev, prev1, remaining, tot⟩ := r
    obtain ⟨W, _, _, w3, _⟩ := scan_spec s s.idx.reverse hl 0 [] s.prev s.prev 0 _ hscan
    simp only at w3
    have hany : (remaining.any fun e => (aget s.vals e.1).isNone) = false := by
      rw [List.any_eq_false]
      intro e he
      rw [w3] at he
      have := hprev e (mem_foldl_adel he)
      cases hq : aget s.vals e.1 with
      | none => rw [hq] at this; cases this
      | some v => simp
    simp only [hany, Bool.false_eq_true, if_false, Option.isSome_some]


/-! ### the maturity pass does not halt -/

/-- the accounting half of `finishOne_spec`, which needs only sorted records -/
theorem finishOne_backed {x x' : State} {a : Addr} (hasc : KeysAsc x.vals) (hb : Backed x)
    (h : finishOne x a = some x') :
    KeysAsc x'.vals ∧ Backed x' ∧ (∀ c w, aget x'.vals c = some w → aget x.vals c = some w) := by
  rcases finishOne_cases h with ⟨rfl, hn⟩ | ⟨v, s2, hv, hst, h64, hs2, hx'⟩
  · exact ⟨hasc, hb, fun _ _ h => h⟩
  obtain ⟨b, acc, hb2⟩ := send_eq hs2
  have hbal0 : (dequeue x a v.unstake).bal = x.bal := rfl
  obtain ⟨k1, k2, k3⟩ := send_spec (s := dequeue x a v.unstake) hb.balAsc hs2
  have hvals : x'.vals = adel x.vals a := by rw [hx', hb2]; rfl
  have hpool : x'.pool = x.pool := by rw [hx', hb2]; rfl
  have hbal' : x'.bal = s2.bal := by rw [hx']
  have hbalE : ∀ c, balOf x' c =
      balOf x c - (if x.pool = c then v.tokens else 0) + (if a = c then v.tokens else 0) := by
    intro c
    have := k3 c
    rw [balOf_congr hbal0] at this
    rw [balOf_congr hbal']
    exact this
  have hsub : ∀ c w, aget (adel x.vals a) c = some w → aget x.vals c = some w := by
    intro c w hw
    rw [aget_adel hasc] at hw
    split at hw
    · cases hw
    · exact hw
  refine ⟨?_, ⟨?_, ?_, ?_, ?_⟩, ?_⟩
  · rw [hvals]; exact keysAsc_adel hasc a
  · rw [hbal']; exact k2
  · intro c w hw; rw [hvals] at hw; exact hb.tokNonneg c w (hsub c w hw)
  · intro c w hw; rw [hvals] at hw; exact hb.unstakedEmpty c w (hsub c w hw)
  · have hp := hb.pool
    simp only [PoolBacks] at hp ⊢
    rw [stakeSum_eq, hvals, asum_adel contrib hasc, hv, hpool, hbalE, ← stakeSum_eq]
    have hcon : contrib v = v.tokens := by simp [contrib, hst]
    have ht := hb.tokNonneg a v hv
    simp only [hcon, if_true]
    split <;> omega
  · intro c w hw; rw [hvals] at hw; exact hsub c w hw

theorem finishOne_isSome {x : State} {b : Addr} (hasc : KeysAsc x.vals) (hb : Backed x)
    (h64 : ∀ w, aget x.vals b = some w → Posmint.Arith.isInt64 w.tokens = true) :
    ∃ x', finishOne x b = some x' := by
  simp only [finishOne]
  cases hv : aget x.vals b with
  | none => exact ⟨x, rfl⟩
  | some w =>
    simp only
    by_cases hst : w.status = 1
    · have h1 : ¬ (w.status != 1) = true := by simp [hst]
      have h2 : ¬ (!Posmint.Arith.isInt64 w.tokens) = true := by simp [h64 w hv]
      simp only [h1, h2]
      have hle : w.tokens ≤ balOf (dequeue x b w.unstake) (dequeue x b w.unstake).pool := by
        have := hb.contrib_le hasc hv
        simp only [contrib, hst] at this
        exact this
      obtain ⟨s2, hs2⟩ := send_isSome (s := dequeue x b w.unstake) (dst := b) hle
      simp only [hs2]
      exact ⟨_, rfl⟩
    · have h1 : (w.status != 1) = true := by simp [hst]
      simp only [h1, if_true]
      exact ⟨x, rfl⟩

theorem unstakeMature_isSome {s : State} (hasc : KeysAsc s.vals) (hb : Backed s)
    (h64 : ∀ a v, aget s.vals a = some v → Posmint.Arith.isInt64 v.tokens = true) :
    ∃ s', unstakeMature s = some s' := by
  rw [unstakeMature_eq]
  let P : State → Prop := fun st => KeysAsc st.vals ∧ Backed st ∧ ∀ c w, aget st.vals c = some w → aget s.vals c = some w
  have hfin : ∀ st b, P st → ∃ st', finishOne st b = some st' ∧ P st' := by
    intro st b hP
    obtain ⟨c, bk, sh⟩ := hP
    obtain ⟨st', hst'⟩ := finishOne_isSome (b := b) c bk (fun w hw => h64 b w (sh b w hw))
    obtain ⟨k1, k2, k3⟩ := finishOne_backed c bk hst'
    exact ⟨st', hst', k1, k2, fun c w hw => sh c w (k3 c w hw)⟩
  obtain ⟨s', h1, _⟩ := foldl_bind_isSome P procSlot (s.queue.filter (fun e => e.1 ≤ s.time))
    (fun st slot _ hP => by
      obtain ⟨x, hx, px⟩ := foldl_bind_isSome P finishOne slot.2 (fun y b _ hy => hfin y b hy) st hP
      refine ⟨{ x with queue := qDel x.queue slot.1 }, ?_, ?_⟩
      · simp only [procSlot, hx, Option.map_some]
      · obtain ⟨c, bk, sh⟩ := px
        exact ⟨c, bk.of_eq rfl bk.balAsc (Int.le_refl _), sh⟩)
    s ⟨hasc, hb, fun _ _ h => h⟩
  exact ⟨s', h1⟩

/-! ### from the full invariant to the working bundles -/

theorem _root_.Posmint.Chain.Inv.core {s : State} (h : Inv s) : Core s := ⟨h.wf.valsAsc, h.index, h.queue⟩

theorem _root_.Posmint.Chain.Inv.backed {s : State} (h : Inv s) : Backed s :=
  ⟨h.wf.balAsc, fun a v hv => h.wf.tokNonneg (a, v) (aget_some_mem hv), h.unstakedEmpty, h.pool⟩

theorem _root_.Posmint.Chain.Inv.tombJ {s : State} (h : Inv s) : TombJ s := by
  intro a si hsi ht
  obtain ⟨h1, h2⟩ := h.sign.2 a si hsi ht
  exact ⟨h1, fun v hv => (h2 v hv).1⟩

theorem _root_.Posmint.Chain.Inv.big {s : State} (h : Inv s) : Big s := ⟨h.core, h.backed, h.tombJ⟩

theorem balOf_nonneg {s : State} (h : ∀ e ∈ s.bal, 0 < e.2) (a : Addr) : 0 ≤ balOf s a := by
  simp only [balOf]
  cases hq : aget s.bal a with
  | none => simp
  | some x => have := h (a, x) (aget_some_mem hq); simp at this ⊢; omega

theorem _root_.Posmint.Chain.PrevOK.grow {s s' : State} (h : PrevOK s) (hg : Grow s s') : PrevOK s' := by
  obtain ⟨h1, h2, h3⟩ := h
  refine ⟨?_, ?_, ?_⟩
  · rw [hg.prev]; exact h1
  · rw [hg.prev]; exact h2
  · rw [hg.prev]; intro e he; exact hg.dom _ (h3 e he)

theorem beginBlock_inv {s s' : State} (h : Inv s) {time : Int} {proposer : Addr} {votes : List Vote}
    {evs : List Evidence} (hs : beginBlock s time proposer votes evs = some s') :
    Big s' ∧ Evo s s' ∧ (MinStakeOK s → MinStakeOK s') :=
  beginBlock_big h.big h.wf.modsDistinct.1 h.wf.modsDistinct.2.1 (balOf_nonneg h.wf.balPos _) hs

/-- the state after the validator-set update, before maturity processing -/
theorem updateValidators_mid {s s1 : State} {ups : List (Addr × Int)} (h : Inv s)
    (hu : updateValidators s = some (s1, ups)) :
    Core s1 ∧ Backed s1 ∧ s1.vals = s.vals ∧ s1.bal = s.bal ∧ s1.time = s.time ∧ s1.queue = s.queue ∧
    s1.pool = s.pool ∧ s1.idx = s.idx ∧ s1.sign = s.sign ∧ s1.p = s.p ∧ s1.supply = s.supply := by
  obtain ⟨⟨pv, pt, hs1⟩, _⟩ := update_spec h.index h.prevOK.1 h.backed.tokNonneg hu
  subst hs1
  exact ⟨h.core.of_eq rfl rfl rfl, h.backed.of_eq rfl h.wf.balAsc (Int.le_refl _), rfl, rfl, rfl, rfl, rfl, rfl, rfl,
    rfl, rfl⟩

theorem endBlock_cases {s s' : State} {ups : List (Addr × Int)} (he : endBlock s = some (s', ups)) :
    ∃ s1, updateValidators s = some (s1, ups) ∧ unstakeMature s1 = some s' := by
  simp only [endBlock] at he
  split at he
  · simp at he
  rename_i s1 ups1 hu
  cases hm : unstakeMature s1 with
  | none => rw [hm] at he; simp at he
  | some s2 =>
    rw [hm] at he
    simp only [Option.map_some, Option.some.injEq, Prod.mk.injEq] at he
    obtain ⟨rfl, rfl⟩ := he
    exact ⟨s1, hu, hm⟩

theorem endBlock_inv {s s' : State} {ups : List (Addr × Int)} (h : Inv s) (he : endBlock s = some (s', ups)) :
    Core s' ∧ Backed s' ∧ PrevOK s' := by
  obtain ⟨s1, hu, hm⟩ := endBlock_cases he
  obtain ⟨c1, b1, hvals, _⟩ := updateValidators_mid h hu
  obtain ⟨_, hasc, hchar, hpos, _⟩ := update_spec h.index h.prevOK.1 h.backed.tokNonneg hu
  obtain ⟨c2, b2, sh, _, _⟩ := unstakeMature_inv c1 b1 (fun _ => True) trivial (fun _ _ _ _ _ _ _ _ _ => trivial) hm
  refine ⟨c2, b2, ?_, ?_, ?_⟩
  · rw [sh.prev]; exact hasc
  · rw [sh.prev]; intro e he
    have := (hchar e.1 e.2).1 (mem_aget hasc he)
    exact hpos _ this
  · rw [sh.prev]; intro e he
    have hm := (hchar e.1 e.2).1 (mem_aget hasc he)
    obtain ⟨v, hv, hst, _, _⟩ := idx_entryOK h.index _ (visited_sub _ hm)
    simp only at hv
    rw [sh.keep e.1 v (by rw [hvals]; exact hv) (by omega)]
    rfl

/-- all three components at once -/
theorem step_core_prev (s : State) (op : Op) (r : State × List (Addr × Int) × Bool)
    (h : Inv s) (hs : step s op = some r) : Core r.1 ∧ PrevOK r.1 := by
  cases op with
  | «begin» time proposer votes evs =>
    simp only [step] at hs
    cases hb : beginBlock s time proposer votes evs with
    | none => rw [hb] at hs; simp at hs
    | some s' =>
      rw [hb] at hs
      simp only [Option.map_some, Option.some.injEq] at hs
      subst hs
      obtain ⟨k1, k2, _⟩ := beginBlock_inv h hb
      exact ⟨k1.core, h.prevOK.grow k2.grow⟩
  | endBlock =>
    simp only [step] at hs
    cases hb : endBlock s with
    | none => rw [hb] at hs; simp at hs
    | some r' =>
      rw [hb] at hs
      simp only [Option.map_some, Option.some.injEq] at hs
      subst hs
      obtain ⟨k1, _, k3⟩ := endBlock_inv (s' := r'.1) (ups := r'.2) h hb
      exact ⟨k1, k3⟩
  | commit =>
    simp only [step, Option.some.injEq] at hs
    subst hs
    exact ⟨h.core.of_eq rfl rfl rfl, h.prevOK.grow (Grow.of_eq rfl rfl)⟩
  | award a amt =>
    simp only [step, Option.some.injEq] at hs
    subst hs
    exact ⟨h.core.of_eq rfl rfl rfl, h.prevOK.grow (Grow.of_eq rfl rfl)⟩
  | burn a raw =>
    simp only [step, Option.some.injEq] at hs
    subst hs
    exact ⟨h.core.of_eq rfl rfl rfl, h.prevOK.grow (Grow.of_eq rfl rfl)⟩
  | tx mode t =>
    simp only [step, Option.some.injEq] at hs
    subst hs
    obtain ⟨k1, k2⟩ := runTx_core h.core mode t
    show Core (if mode == .deliver then _ else _) ∧ PrevOK (if mode == .deliver then _ else _)
    split
    · exact ⟨k1.of_eq rfl rfl rfl, h.prevOK.grow ⟨k2.prev, k2.dom⟩⟩
    · exact ⟨k1, h.prevOK.grow k2⟩

end B
open B

theorem step_indexExact (s : State) (op : Op) (r : State × List (Addr × Int) × Bool)
    (h : Inv s) (hs : step s op = some r) : IndexExact r.1 := (step_core_prev s op r h hs).1.index

theorem step_queueExact (s : State) (op : Op) (r : State × List (Addr × Int) × Bool)
    (h : Inv s) (hs : step s op = some r) : QueueExact r.1 := (step_core_prev s op r h hs).1.queue

theorem step_prevOK (s : State) (op : Op) (r : State × List (Addr × Int) × Bool)
    (h : Inv s) (hs : step s op = some r) : PrevOK r.1 := (step_core_prev s op r h hs).2

end Posmint.Chain
