import Posmint.Model.ChainSpec
/-!
The account set as a frame: `touch` changes `accts` and nothing else, and neither `WF` nor `Inv` mentions
`accts` / `keyed`.  `AcctLe s s'`: every account of `s` exists in `s'` and the keyed accounts are the same.
-/
namespace Posmint.Chain

@[simp] theorem bal_touch (s : State) (a : Addr) : (touch s a).bal = s.bal := rfl
@[simp] theorem supply_touch (s : State) (a : Addr) : (touch s a).supply = s.supply := rfl
@[simp] theorem vals_touch (s : State) (a : Addr) : (touch s a).vals = s.vals := rfl
@[simp] theorem idx_touch (s : State) (a : Addr) : (touch s a).idx = s.idx := rfl
@[simp] theorem prev_touch (s : State) (a : Addr) : (touch s a).prev = s.prev := rfl
@[simp] theorem prevTot_touch (s : State) (a : Addr) : (touch s a).prevTot = s.prevTot := rfl
@[simp] theorem queue_touch (s : State) (a : Addr) : (touch s a).queue = s.queue := rfl
@[simp] theorem sign_touch (s : State) (a : Addr) : (touch s a).sign = s.sign := rfl
@[simp] theorem missedBits_touch (s : State) (a : Addr) : (touch s a).missedBits = s.missedBits := rfl
@[simp] theorem awards_touch (s : State) (a : Addr) : (touch s a).awards = s.awards := rfl
@[simp] theorem burns_touch (s : State) (a : Addr) : (touch s a).burns = s.burns := rfl
@[simp] theorem proposer_touch (s : State) (a : Addr) : (touch s a).proposer = s.proposer := rfl
@[simp] theorem rel_touch (s : State) (a : Addr) : (touch s a).rel = s.rel := rfl
@[simp] theorem p_touch (s : State) (a : Addr) : (touch s a).p = s.p := rfl
@[simp] theorem acl_touch (s : State) (a : Addr) : (touch s a).acl = s.acl := rfl
@[simp] theorem daoOwner_touch (s : State) (a : Addr) : (touch s a).daoOwner = s.daoOwner := rfl
@[simp] theorem pool_touch (s : State) (a : Addr) : (touch s a).pool = s.pool := rfl
@[simp] theorem feeAcc_touch (s : State) (a : Addr) : (touch s a).feeAcc = s.feeAcc := rfl
@[simp] theorem posAcc_touch (s : State) (a : Addr) : (touch s a).posAcc = s.posAcc := rfl
@[simp] theorem daoAcc_touch (s : State) (a : Addr) : (touch s a).daoAcc = s.daoAcc := rfl
@[simp] theorem keys_touch (s : State) (a : Addr) : (touch s a).keys = s.keys := rfl
@[simp] theorem nStored_touch (s : State) (a : Addr) : (touch s a).nStored = s.nStored := rfl
@[simp] theorem height_touch (s : State) (a : Addr) : (touch s a).height = s.height := rfl
@[simp] theorem time_touch (s : State) (a : Addr) : (touch s a).time = s.time := rfl
@[simp] theorem cHeight_touch (s : State) (a : Addr) : (touch s a).cHeight = s.cHeight := rfl
@[simp] theorem cTime_touch (s : State) (a : Addr) : (touch s a).cTime = s.cTime := rfl
@[simp] theorem index_touch (s : State) (a : Addr) : (touch s a).index = s.index := rfl
@[simp] theorem blockTxs_touch (s : State) (a : Addr) : (touch s a).blockTxs = s.blockTxs := rfl
@[simp] theorem bal2_touch (s : State) (a : Addr) : (touch s a).bal2 = s.bal2 := rfl
@[simp] theorem supply2_touch (s : State) (a : Addr) : (touch s a).supply2 = s.supply2 := rfl
@[simp] theorem upgrade_touch (s : State) (a : Addr) : (touch s a).upgrade = s.upgrade := rfl
@[simp] theorem keyNodes_touch (s : State) (a : Addr) : (touch s a).keyNodes = s.keyNodes := rfl
@[simp] theorem keyed_touch (s : State) (a : Addr) : (touch s a).keyed = s.keyed := rfl
theorem accts_touch (s : State) (a : Addr) : (touch s a).accts = aset s.accts a () := rfl

@[simp] theorem balOf_touch (s : State) (a q : Addr) : balOf (touch s a) q = balOf s q := rfl
@[simp] theorem balOf2_touch (s : State) (a q : Addr) : balOf2 (touch s a) q = balOf2 s q := rfl
@[simp] theorem sumBal_touch (s : State) (a : Addr) : sumBal (touch s a) = sumBal s := rfl
@[simp] theorem stakeSum_touch (s : State) (a : Addr) : stakeSum (touch s a) = stakeSum s := rfl
@[simp] theorem awardSum_touch (s : State) (a : Addr) : awardSum (touch s a) = awardSum s := rfl
@[simp] theorem isMod_touch (s : State) (a q : Addr) : isMod (touch s a) q = isMod s q := rfl
@[simp] theorem keyAddr_touch (s : State) (a : Addr) (k : Nat) : keyAddr (touch s a) k = keyAddr s k := rfl

theorem touch_frame (s : State) (a : Addr) : touch s a = { s with accts := (touch s a).accts } := rfl

/-- well-formedness does not mention the account set -/
theorem wf_accts {s : State} (x : List (Addr × Unit)) : WF { s with accts := x } ↔ WF s :=
  ⟨fun h => ⟨h.balAsc, h.balPos, h.valsAsc, h.tokNonneg, h.statusOK, h.signAsc, h.prevAsc, h.awardsAsc, h.burnsAsc,
      h.modsDistinct, h.keysNotMods, h.valsAreKeys, h.minStakeNonneg⟩,
   fun h => ⟨h.balAsc, h.balPos, h.valsAsc, h.tokNonneg, h.statusOK, h.signAsc, h.prevAsc, h.awardsAsc, h.burnsAsc,
      h.modsDistinct, h.keysNotMods, h.valsAreKeys, h.minStakeNonneg⟩⟩

/-- the invariant does not mention the account set -/
theorem inv_accts {s : State} (x : List (Addr × Unit)) : Inv { s with accts := x } ↔ Inv s :=
  ⟨fun h => ⟨(wf_accts x).1 h.wf, h.supply, h.pool, h.index, h.queue, h.unstakedEmpty, h.sign, h.prevOK⟩,
   fun h => ⟨(wf_accts x).2 h.wf, h.supply, h.pool, h.index, h.queue, h.unstakedEmpty, h.sign, h.prevOK⟩⟩

@[simp] theorem wf_touch {s : State} (a : Addr) : WF (touch s a) ↔ WF s := wf_accts _
@[simp] theorem inv_touch {s : State} (a : Addr) : Inv (touch s a) ↔ Inv s := inv_accts _
@[simp] theorem supplyOK_touch {s : State} (a : Addr) : SupplyOK (touch s a) ↔ SupplyOK s := Iff.rfl
@[simp] theorem poolBacks_touch {s : State} (a : Addr) : PoolBacks (touch s a) ↔ PoolBacks s := Iff.rfl
@[simp] theorem indexExact_touch {s : State} (a : Addr) : IndexExact (touch s a) ↔ IndexExact s := Iff.rfl
@[simp] theorem queueExact_touch {s : State} (a : Addr) : QueueExact (touch s a) ↔ QueueExact s := Iff.rfl
@[simp] theorem minStakeOK_touch {s : State} (a : Addr) : MinStakeOK (touch s a) ↔ MinStakeOK s := Iff.rfl
@[simp] theorem unstakedEmpty_touch {s : State} (a : Addr) : UnstakedEmpty (touch s a) ↔ UnstakedEmpty s := Iff.rfl
@[simp] theorem signOK_touch {s : State} (a : Addr) : SignOK (touch s a) ↔ SignOK s := Iff.rfl
@[simp] theorem prevOK_touch {s : State} (a : Addr) : PrevOK (touch s a) ↔ PrevOK s := Iff.rfl

end Posmint.Chain
