import Posmint.Model.Keys
/-!
Helper lemmas for `Posmint.Props.C19`: characterisation of `verify` by `signAll`, injectivity of
`signAll`, and the keybase as a sorted association list (`List.Pairwise`).
-/
namespace Posmint.Keys

/-! ### multisignature -/

mutual
/-- boolean form of "no multisignature node without components" -/
def wf : PK → Bool
  | .leaf _ => true
  | .multi ks => !ks.isEmpty && wfAll ks
def wfAll : List PK → Bool
  | [] => true
  | k :: ks => wf k && wfAll ks
end

theorem signAllList_length (ks : List PK) (m : Nat) : (signAll.signAllList ks m).length = ks.length := by
  induction ks with
  | nil => simp [signAll.signAllList]
  | cons k ks ih => simp [signAll.signAllList, ih]

mutual
theorem verify_spec : (k : PK) → (m : Nat) → (sg : Sig) →
    (verify k m sg = true ↔ (sg = signAll k m ∧ wf k = true))
  | .leaf id, m, .leaf s m' => by
    simp [verify, signAll, wf]
    intro _; exact eq_comm
  | .leaf id, m, .multi ss => by simp [verify, signAll]
  | .leaf id, m, .garbage => by simp [verify, signAll]
  | .multi ks, m, .leaf s m' => by simp [verify, signAll]
  | .multi ks, m, .garbage => by simp [verify, signAll]
  | .multi ks, m, .multi ss => by
    have ih := verifyAll_spec ks m ss
    simp only [verify, signAll, wf, Bool.and_eq_true, ih, Sig.multi.injEq]
    constructor
    · rintro ⟨⟨h1, _⟩, h3, h4⟩; exact ⟨h3, h1, h4⟩
    · rintro ⟨h3, h1, h4⟩
      refine ⟨⟨h1, ?_⟩, h3, h4⟩
      subst h3
      simp [signAllList_length]
theorem verifyAll_spec : (ks : List PK) → (m : Nat) → (ss : List Sig) →
    (verifyAll ks m ss = true ↔ (ss = signAll.signAllList ks m ∧ wfAll ks = true))
  | [], m, [] => by simp [verifyAll, signAll.signAllList, wfAll]
  | [], m, s :: ss => by simp [verifyAll, signAll.signAllList]
  | k :: ks, m, [] => by simp [verifyAll, signAll.signAllList]
  | k :: ks, m, s :: ss => by
    have ih1 := verify_spec k m s
    have ih2 := verifyAll_spec ks m ss
    simp only [verifyAll, signAll.signAllList, wfAll, Bool.and_eq_true, ih1, ih2, List.cons.injEq]
    constructor
    · rintro ⟨⟨a, b⟩, c, d⟩; exact ⟨⟨a, c⟩, b, d⟩
    · rintro ⟨⟨a, c⟩, b, d⟩; exact ⟨⟨a, b⟩, c, d⟩
end

/-- position-by-position verification, by index -/
theorem verifyAll_iff_get (ks : List PK) (m : Nat) (ss : List Sig) :
    verifyAll ks m ss = true ↔
      (ks.length = ss.length ∧ ∀ i (h1 : i < ks.length) (h2 : i < ss.length), verify ks[i] m ss[i] = true) := by
  induction ks generalizing ss with
  | nil => cases ss <;> simp [verifyAll]
  | cons k ks ih =>
    cases ss with
    | nil => simp [verifyAll]
    | cons s ss =>
      simp only [verifyAll, Bool.and_eq_true, ih, List.length_cons, Nat.add_right_cancel_iff]
      constructor
      · rintro ⟨h0, hl, hi⟩
        refine ⟨hl, ?_⟩
        intro i h1 h2
        cases i with
        | zero => simpa using h0
        | succ i => simpa using hi i (by omega) (by omega)
      · rintro ⟨hl, hi⟩
        refine ⟨by simpa using hi 0 (by omega) (by omega), hl, ?_⟩
        intro i h1 h2
        exact hi (i + 1) (by simp; omega) (by simp; omega)

mutual
theorem signAll_inj_key : (k k' : PK) → (m : Nat) → signAll k m = signAll k' m → k = k'
  | .leaf a, .leaf b, m, h => by simp [signAll] at h; simp [h]
  | .leaf a, .multi ks, m, h => by simp [signAll] at h
  | .multi ks, .leaf b, m, h => by simp [signAll] at h
  | .multi ks, .multi ks', m, h => by
    simp [signAll] at h
    simp [signAllList_inj_key ks ks' m h]
theorem signAllList_inj_key : (ks ks' : List PK) → (m : Nat) →
    signAll.signAllList ks m = signAll.signAllList ks' m → ks = ks'
  | [], [], _, _ => rfl
  | [], _ :: _, m, h => by simp [signAll.signAllList] at h
  | _ :: _, [], m, h => by simp [signAll.signAllList] at h
  | k :: ks, k' :: ks', m, h => by
    simp [signAll.signAllList] at h
    simp [signAll_inj_key k k' m h.1, signAllList_inj_key ks ks' m h.2]
end

mutual
theorem signAll_inj_msg : (k : PK) → (m m' : Nat) → wf k = true → signAll k m = signAll k m' → m = m'
  | .leaf a, m, m', _, h => by simpa [signAll] using h
  | .multi [], m, m', hw, _ => by simp [wf] at hw
  | .multi (k :: ks), m, m', hw, h => by
    simp [wf, wfAll] at hw
    simp [signAll, signAll.signAllList] at h
    exact signAll_inj_msg k m m' hw.1 h.1
end

/-! ### keybase -/

/-- strictly ascending keys -/
abbrev Asc (kb : KB) : Prop := kb.Pairwise (fun a b => a.1 < b.1)

theorem kbGet_nil (k : Nat) : kbGet [] k = none := rfl

theorem kbGet_cons (a : Nat × String) (kb : KB) (k : Nat) :
    kbGet (a :: kb) k = if a.1 = k then some a.2 else kbGet kb k := by
  unfold kbGet
  by_cases h : a.1 = k <;> simp [h]

theorem kbGet_kbPut' (kb : KB) (k k' : Nat) (p : String) :
    kbGet (kbPut kb k p) k' = if k' = k then some p else kbGet kb k' := by
  induction kb with
  | nil => simp [kbPut, kbGet_cons, kbGet_nil, eq_comm]
  | cons a rest ih =>
    obtain ⟨ka, pa⟩ := a
    unfold kbPut
    by_cases h1 : k < ka
    · simp [h1, kbGet_cons, eq_comm]
    · by_cases h2 : k = ka
      · subst h2
        simp [kbGet_cons]
        by_cases h3 : k = k' <;> simp [h3, eq_comm]
      · simp only [h1, if_false, beq_iff_eq, h2, kbGet_cons, ih]
        by_cases h3 : ka = k'
        · subst h3; simp [Ne.symm h2]
        · simp [h3]

theorem kbGet_kbDel' (kb : KB) (k k' : Nat) :
    kbGet (kbDel kb k) k' = if k' = k then none else kbGet kb k' := by
  induction kb with
  | nil => simp [kbDel, kbGet_nil]
  | cons a rest ih =>
    unfold kbDel at ih ⊢
    by_cases h : a.1 = k
    · simp only [List.filter_cons, h, bne_self_eq_false, Bool.false_eq_true, if_false, ih, kbGet_cons]
      by_cases h3 : k = k'
      · simp [h3]
      · simp [h3]
    · have : (a.1 != k) = true := by simp [h]
      simp only [List.filter_cons, this, if_true, kbGet_cons, ih]
      by_cases h3 : a.1 = k'
      · subst h3; simp [h]
      · simp [h3]

theorem mem_kbPut (kb : KB) (k : Nat) (p : String) (x : Nat × String) (hx : x ∈ kbPut kb k p) :
    x = (k, p) ∨ x ∈ kb := by
  induction kb with
  | nil => simpa [kbPut] using hx
  | cons a rest ih =>
    obtain ⟨ka, pa⟩ := a
    unfold kbPut at hx
    by_cases h1 : k < ka
    · simpa [h1] using hx
    · by_cases h2 : k = ka
      · subst h2
        simp at hx
        rcases hx with h | h
        · exact Or.inl h
        · exact Or.inr (List.mem_cons_of_mem _ h)
      · simp [h1, h2] at hx
        rcases hx with h | h
        · exact Or.inr (by simp [h])
        · rcases ih h with h | h
          · exact Or.inl h
          · exact Or.inr (List.mem_cons_of_mem _ h)

theorem asc_kbPut (kb : KB) (h : Asc kb) (k : Nat) (p : String) : Asc (kbPut kb k p) := by
  induction kb with
  | nil => simp [kbPut, Asc]
  | cons a rest ih =>
    obtain ⟨ka, pa⟩ := a
    unfold Asc at h ih ⊢
    rw [List.pairwise_cons] at h
    unfold kbPut
    by_cases h1 : k < ka
    · simp only [h1, if_true]
      refine List.pairwise_cons.2 ⟨?_, List.pairwise_cons.2 h⟩
      intro b hb
      rcases List.mem_cons.1 hb with hb | hb
      · subst hb; exact h1
      · have := h.1 b hb; simp at this; simp; omega
    · by_cases h2 : k = ka
      · subst h2
        simp only [Nat.lt_irrefl, if_false, beq_self_eq_true, if_true]
        exact List.pairwise_cons.2 ⟨h.1, h.2⟩
      · simp only [h1, if_false, beq_iff_eq, h2]
        refine List.pairwise_cons.2 ⟨?_, ih h.2⟩
        intro b hb
        rcases mem_kbPut _ _ _ _ hb with hb | hb
        · subst hb; simp; omega
        · exact h.1 b hb

theorem asc_kbDel (kb : KB) (h : Asc kb) (k : Nat) : Asc (kbDel kb k) := by
  unfold kbDel Asc
  exact List.Pairwise.filter _ h

theorem mem_keys_iff (kb : KB) (x : Nat) : x ∈ kb.map (·.1) ↔ (kbGet kb x).isSome = true := by
  induction kb with
  | nil => simp [kbGet_nil]
  | cons a rest ih =>
    rw [kbGet_cons]
    by_cases h : a.1 = x
    · simp [h]
    · simp only [List.map_cons, List.mem_cons, h, if_false, ← ih]
      constructor
      · rintro (h' | h')
        · exact absurd h'.symm h
        · exact h'
      · exact Or.inr

theorem asc_nodup (kb : KB) (h : Asc kb) : (kb.map (·.1)).Nodup := by
  unfold Asc at h
  induction kb with
  | nil => simp
  | cons a rest ih =>
    rw [List.pairwise_cons] at h
    simp only [List.map_cons, List.nodup_cons]
    refine ⟨?_, ih h.2⟩
    intro hm
    obtain ⟨b, hb, hab⟩ := List.mem_map.1 hm
    have := h.1 b hb
    omega

/-! ### signature depth -/

theorem nodesList_eq_zero : (ks : List PK) → (nodesList ks = 0 ↔ ks = [])
  | [] => by simp [nodesList]
  | k :: rest => by simp [nodesList]

mutual
theorem recDepthKey_spec (limit : Nat) : (count : Nat) → (k : PK) →
    ((recDepthKey limit count k).2 = true ↔ (nodes k = 0 ∨ count + nodes k ≤ limit)) ∧
    ((recDepthKey limit count k).2 = true → (recDepthKey limit count k).1 = count + nodes k)
  | count, .leaf _ => by simp [recDepthKey, nodes]
  | count, .multi ks => by
    have ih := recDepth_spec limit count ks
    simp only [recDepthKey, nodes, nodesList_eq_zero]
    exact ih
theorem recDepth_spec (limit : Nat) : (count : Nat) → (ks : List PK) →
    ((recDepth limit count ks).2 = true ↔ (ks = [] ∨ count + nodesList ks ≤ limit)) ∧
    ((recDepth limit count ks).2 = true → (recDepth limit count ks).1 = count + nodesList ks)
  | count, [] => by simp [recDepth, nodesList]
  | count, k :: rest => by
    have ih1 := recDepthKey_spec limit (count + 1) k
    rw [recDepth]
    rcases hr : recDepthKey limit (count + 1) k with ⟨c, b⟩
    rw [hr] at ih1
    cases b with
    | false =>
      simp only [nodesList] at ih1 ⊢
      simp at ih1 ⊢
      omega
    | true =>
      have hc : c = count + 1 + nodes k := ih1.2 rfl
      have h1 := ih1.1.1 rfl
      simp only []
      by_cases hgt : c > limit
      · simp only [if_pos hgt, nodesList]
        simp
        omega
      · have ih2 := recDepth_spec limit c rest
        simp only [if_neg hgt, nodesList]
        refine ⟨?_, ?_⟩
        · rw [ih2.1]
          have := nodesList_eq_zero rest
          simp
          constructor
          · rintro (h | h)
            · have := this.2 h; omega
            · omega
          · intro h; right; omega
        · intro h; rw [ih2.2 h]; omega
end

theorem validDepth_spec (limit : Nat) (ks : List PK) :
    validDepth limit ks = true ↔ (ks = [] ∨ 1 + nodesList ks ≤ limit) :=
  (recDepth_spec limit 1 ks).1

end Posmint.Keys
