import Posmint.Model.KVSpec
/-! Helper lemmas for C16 (store wrappers: prefix / gas / trace). -/
namespace Posmint.KV

theorem blt_nil_right (a : Bytes) : blt a [] = false := by cases a <;> rfl

theorem blt_irrefl (a : Bytes) : blt a a = false := by
  induction a with
  | nil => rfl
  | cons x xs ih => simp [blt, ih]

theorem blt_trans {a b c : Bytes} : blt a b = true → blt b c = true → blt a c = true := by
  induction a generalizing b c with
  | nil => cases b <;> cases c <;> simp [blt]
  | cons x xs ih =>
    cases b with
    | nil => simp [blt]
    | cons y ys =>
      cases c with
      | nil => simp [blt]
      | cons z zs =>
        simp only [blt, Bool.or_eq_true, Bool.and_eq_true, decide_eq_true_eq, beq_iff_eq]
        rintro (h1 | ⟨h1, h1'⟩) (h2 | ⟨h2, h2'⟩)
        · left; omega
        · left; omega
        · left; omega
        · right; exact ⟨by omega, ih h1' h2'⟩

theorem blt_total (a b : Bytes) : blt a b = true ∨ a = b ∨ blt b a = true := by
  induction a generalizing b with
  | nil => cases b <;> simp [blt]
  | cons x xs ih =>
    cases b with
    | nil => simp [blt]
    | cons y ys =>
      simp only [blt, Bool.or_eq_true, Bool.and_eq_true, decide_eq_true_eq, beq_iff_eq, List.cons.injEq]
      rcases Nat.lt_trichotomy x y with h | h | h
      · left; left; exact h
      · rcases ih ys with h' | h' | h'
        · left; right; exact ⟨h, h'⟩
        · right; left; exact ⟨h, h'⟩
        · right; right; right; exact ⟨h.symm, h'⟩
      · right; right; left; exact h

theorem blt_asymm {a b : Bytes} (h : blt a b = true) : blt b a = false := by
  cases hb : blt b a with
  | false => rfl
  | true => have := blt_trans h hb; rw [blt_irrefl] at this; cases this

theorem blt_ne {a b : Bytes} (h : blt a b = true) : a ≠ b := by
  intro hab; subst hab; rw [blt_irrefl] at h; cases h

theorem blt_append_left (p a b : Bytes) : blt (p ++ a) (p ++ b) = blt a b := by
  induction p with
  | nil => rfl
  | cons x xs ih => simp [blt, ih]

theorem hasPrefix_append (p k : Bytes) : hasPrefix (p ++ k) p = true := by
  induction p with
  | nil => cases k <;> rfl
  | cons x xs ih => simp [hasPrefix, ih]

theorem hasPrefix_eq {k p : Bytes} (h : hasPrefix k p = true) : k = p ++ k.drop p.length := by
  induction p generalizing k with
  | nil => rfl
  | cons x xs ih =>
    cases k with
    | nil => simp [hasPrefix] at h
    | cons y ys =>
      simp only [hasPrefix, Bool.and_eq_true, beq_iff_eq] at h
      simp only [List.cons_append, List.length_cons, List.drop_succ_cons, List.cons.injEq]
      exact ⟨h.1, ih h.2⟩

/-! ### prefixEnd -/
theorem prefixEnd_nil : prefixEnd [] = none := rfl

theorem prefixEnd_cons (a : Nat) (p : Bytes) :
    prefixEnd (a :: p) =
      match prefixEnd p with
      | some e => some (a :: e)
      | none => if a = 255 then none else some [a + 1] := by
  unfold prefixEnd
  rw [List.reverse_cons, List.dropWhile_append]
  cases h : List.dropWhile (· == 255) p.reverse with
  | nil =>
    by_cases ha : a = 255
    · simp [List.dropWhile, ha]
    · have : (a == 255) = false := by simp [ha]
      simp [List.dropWhile, this, ha]
  | cons x rest => simp

theorem prefixEnd_spec' (p k : Bytes) (hkb : IsBytes k) :
    inDomain k p (prefixEnd p) = hasPrefix k p := by
  induction p generalizing k with
  | nil => simp [inDomain, prefixEnd_nil, ble, blt_nil_right, hasPrefix]
  | cons a ps ih =>
    cases k with
    | nil => simp [inDomain, ble, blt, hasPrefix]
    | cons c cs =>
      have hc : c < 256 := hkb c (by simp)
      have hcs : IsBytes cs := fun x hx => hkb x (by simp [hx])
      have := ih cs hcs
      rw [prefixEnd_cons]
      simp only [inDomain, ble, hasPrefix, blt] at this ⊢
      rw [← this]
      cases hpe : prefixEnd ps with
      | some e =>
        simp only [blt]
        rcases Nat.lt_trichotomy c a with h | h | h
        · have : ¬ a < c := by omega
          have : (c == a) = false := by simp; omega
          simp [*]
        · subst h; simp
        · have : ¬ c < a := by omega
          have : (c == a) = false := by simp; omega
          simp [*]
      | none =>
        by_cases ha : a = 255
        · subst ha
          rcases Nat.lt_trichotomy c 255 with h | h | h
          · have : ¬ 255 < c := by omega
            have : ¬ c = 255 := by omega
            have : ¬ 255 = c := by omega
            simp [*]
          · subst h; simp
          · omega
        · simp only [ha, if_false, blt, blt_nil_right]
          rcases Nat.lt_trichotomy c a with h | h | h
          · have : ¬ a < c := by omega
            have : (c == a) = false := by simp; omega
            have : c < a + 1 := by omega
            simp [*]
          · subst h; simp
          · have : ¬ c < a := by omega
            have : (c == a) = false := by simp; omega
            have : ¬ c < a + 1 := by omega
            simp [*]

/-! ### sorted association lists -/
theorem sortedAsc_cons_iff {α : Type} (a : Bytes × α) (l : List (Bytes × α)) :
    SortedAsc (a :: l) ↔ (∀ b ∈ l, blt a.1 b.1 = true) ∧ SortedAsc l := by
  induction l generalizing a with
  | nil => simp [SortedAsc]
  | cons b rest ih =>
    simp only [SortedAsc, List.mem_cons, forall_eq_or_imp]
    rw [ih b]
    constructor
    · rintro ⟨h1, h2, h3⟩
      exact ⟨⟨h1, fun c hc => blt_trans h1 (h2 c hc)⟩, h2, h3⟩
    · rintro ⟨⟨h1, _⟩, h2, h3⟩
      exact ⟨h1, h2, h3⟩

theorem sortedAsc_iff_pairwise {α : Type} (l : List (Bytes × α)) :
    SortedAsc l ↔ l.Pairwise (fun a b => blt a.1 b.1 = true) := by
  induction l with
  | nil => simp [SortedAsc]
  | cons a rest ih => rw [sortedAsc_cons_iff, List.pairwise_cons, ih]

theorem kvGet_eq_none_of_lt (m : Items) (k : Bytes) (h : ∀ b ∈ m, blt k b.1 = true) :
    kvGet m k = none := by
  induction m with
  | nil => rfl
  | cons a rest ih =>
    obtain ⟨k', v'⟩ := a
    have h1 := h (k', v') (by simp)
    have : (k' == k) = false := by
      simp only [beq_eq_false_iff_ne, ne_eq]; intro hh; exact blt_ne h1 hh.symm
    simp only [kvGet, this]
    exact ih (fun b hb => h b (by simp [hb]))

theorem kvGet_eq_some_iff (m : Items) (hs : SortedAsc m) (k v : Bytes) :
    kvGet m k = some v ↔ (k, v) ∈ m := by
  induction m with
  | nil => simp [kvGet]
  | cons a rest ih =>
    obtain ⟨k', v'⟩ := a
    rw [sortedAsc_cons_iff] at hs
    by_cases hk : k' = k
    · subst hk
      simp only [kvGet, beq_self_eq_true, if_true, Option.some.injEq, List.mem_cons, Prod.mk.injEq, true_and]
      constructor
      · intro h; left; exact h.symm
      · rintro (h | h)
        · exact h.symm
        · have := hs.1 _ h; simp [blt_irrefl] at this
    · have : (k' == k) = false := by simp [hk]
      simp only [kvGet, this, List.mem_cons, Prod.mk.injEq, Bool.false_eq_true, if_false]
      rw [ih hs.2]
      constructor
      · intro h; right; exact h
      · rintro (⟨h, _⟩ | h)
        · exact absurd h.symm hk
        · exact h

theorem kvGet_kvSet (m : Items) (k v q : Bytes) :
    kvGet (kvSet m k v) q = if q = k then some v else kvGet m q := by
  induction m with
  | nil =>
    by_cases h : q = k
    · subst h; simp [kvSet, kvGet]
    · have : (k == q) = false := by simp [Ne.symm h]
      simp [kvSet, kvGet, h, this]
  | cons a rest ih =>
    obtain ⟨k', v'⟩ := a
    simp only [kvSet]
    split
    · by_cases h : q = k
      · subst h; simp [kvGet]
      · have : (k == q) = false := by simp [Ne.symm h]
        simp [kvGet, this, h]
    · split
      · rename_i _ hkk
        have hkk : k = k' := by simpa using hkk
        subst hkk
        by_cases h : q = k
        · subst h; simp [kvGet]
        · have : (k == q) = false := by simp [Ne.symm h]
          simp [kvGet, this, h]
      · rename_i _ hkk
        have hkk : k ≠ k' := by simpa using hkk
        simp only [kvGet, ih]
        by_cases h : q = k
        · subst h
          have : (k' == q) = false := by simp [Ne.symm hkk]
          simp [this]
        · simp [h]

theorem kvSet_keys (m : Items) (k v : Bytes) (b : Bytes × Bytes) (hb : b ∈ kvSet m k v) :
    b = (k, v) ∨ b ∈ m := by
  induction m with
  | nil => simp [kvSet] at hb; exact Or.inl hb
  | cons a rest ih =>
    obtain ⟨k', v'⟩ := a
    simp only [kvSet] at hb
    split at hb
    · simp only [List.mem_cons] at hb ⊢; exact hb
    · split at hb
      · simp only [List.mem_cons] at hb ⊢
        rcases hb with hb | hb
        · exact Or.inl hb
        · exact Or.inr (Or.inr hb)
      · simp only [List.mem_cons] at hb ⊢
        rcases hb with hb | hb
        · exact Or.inr (Or.inl hb)
        · rcases ih hb with h | h
          · exact Or.inl h
          · exact Or.inr (Or.inr h)

theorem sortedAsc_kvSet (m : Items) (hs : SortedAsc m) (k v : Bytes) : SortedAsc (kvSet m k v) := by
  induction m with
  | nil => simp [kvSet, SortedAsc]
  | cons a rest ih =>
    obtain ⟨k', v'⟩ := a
    have hs' := (sortedAsc_cons_iff _ _).1 hs
    simp only [kvSet]
    split
    · rename_i hlt
      exact ⟨hlt, hs⟩
    · rename_i hlt
      split
      · rename_i hkk
        have hkk : k = k' := by simpa using hkk
        subst hkk
        rw [sortedAsc_cons_iff]; exact hs'
      · rename_i hkk
        have hkk : k ≠ k' := by simpa using hkk
        have hgt : blt k' k = true := by
          rcases blt_total k k' with h | h | h
          · exact absurd h hlt
          · exact absurd h hkk
          · exact h
        rw [sortedAsc_cons_iff]
        refine ⟨?_, ih hs'.2⟩
        intro b hb
        rcases kvSet_keys _ _ _ _ hb with h | h
        · subst h; exact hgt
        · exact hs'.1 b h

theorem kvDel_sublist (m : Items) (k : Bytes) : (kvDel m k).Sublist m := by
  induction m with
  | nil => simp [kvDel]
  | cons a rest ih =>
    obtain ⟨k', v'⟩ := a
    simp only [kvDel]
    split
    · exact List.sublist_cons_self _ _
    · exact ih.cons_cons _

theorem sortedAsc_kvDel (m : Items) (hs : SortedAsc m) (k : Bytes) : SortedAsc (kvDel m k) := by
  rw [sortedAsc_iff_pairwise] at hs ⊢
  exact hs.sublist (kvDel_sublist m k)

theorem kvGet_kvDel (m : Items) (hs : SortedAsc m) (k q : Bytes) :
    kvGet (kvDel m k) q = if q = k then none else kvGet m q := by
  induction m with
  | nil => simp [kvDel, kvGet]
  | cons a rest ih =>
    obtain ⟨k', v'⟩ := a
    have hs' := (sortedAsc_cons_iff _ _).1 hs
    simp only [kvDel]
    split
    · rename_i hkk
      have hkk : k = k' := by simpa using hkk
      subst hkk
      by_cases h : q = k
      · subst h
        simp [kvGet_eq_none_of_lt rest q hs'.1]
      · have : (k == q) = false := by simp [Ne.symm h]
        simp [kvGet, this, h]
    · rename_i hkk
      have hkk : k ≠ k' := by simpa using hkk
      simp only [kvGet, ih hs'.2]
      by_cases h : q = k
      · subst h
        have : (k' == q) = false := by simp [Ne.symm hkk]
        simp [this]
      · simp [h]

/-! ### cache map -/
theorem cacheLookup_filter_ne (l : List (Bytes × CVal)) (k q : Bytes) (h : q ≠ k) :
    cacheLookup (l.filter (fun e => !(e.1 == k))) q = cacheLookup l q := by
  induction l with
  | nil => rfl
  | cons a rest ih =>
    obtain ⟨k', c'⟩ := a
    by_cases hk : k' = k
    · subst hk
      have : (k' == q) = false := by simp [Ne.symm h]
      simp [List.filter, cacheLookup, this, ih]
    · have : (k' == k) = false := by simp [hk]
      simp [List.filter, cacheLookup, this, ih]

theorem cacheLookup_cacheStore (l : List (Bytes × CVal)) (k q : Bytes) (c : CVal) :
    cacheLookup (cacheStore l k c) q = if q = k then some c else cacheLookup l q := by
  unfold cacheStore
  by_cases h : q = k
  · subst h; simp [cacheLookup]
  · have : (k == q) = false := by simp [Ne.symm h]
    simp [cacheLookup, this, h, cacheLookup_filter_ne l k q h]

theorem cacheLookup_setCacheValue (c : CacheData) (k q : Bytes) (v : Option Bytes) (del dirty : Bool) :
    cacheLookup (setCacheValue c k v del dirty).cache q =
      if q = k then some ⟨v, del, dirty⟩ else cacheLookup c.cache q := by
  simp [setCacheValue, cacheLookup_cacheStore]

theorem cacheLookup_none_not_mem (l : List (Bytes × CVal)) (k : Bytes) :
    cacheLookup l k = none ↔ k ∉ l.map (·.1) := by
  induction l with
  | nil => simp [cacheLookup]
  | cons a rest ih =>
    obtain ⟨k', c'⟩ := a
    by_cases hk : k' = k
    · subst hk; simp [cacheLookup]
    · have : (k' == k) = false := by simp [hk]
      simp only [cacheLookup, this, Bool.false_eq_true, if_false, ih]
      simp [Ne.symm hk]

theorem nodup_cacheStore (l : List (Bytes × CVal)) (k : Bytes) (c : CVal)
    (h : (l.map (·.1)).Nodup) : ((cacheStore l k c).map (·.1)).Nodup := by
  unfold cacheStore
  simp only [List.map_cons, List.nodup_cons]
  constructor
  · simp [List.mem_map, List.mem_filter]
  · exact h.sublist ((List.filter_sublist).map _)

theorem setCacheValue_inv (c : CacheData) (k : Bytes) (v : Option Bytes) (del dirty : Bool)
    (hc : CacheInv c)
    (hd : dirty = true → (del = true ↔ v = none))
    (hn : dirty = false → cacheLookup c.cache k = none) :
    CacheInv (setCacheValue c k v del dirty) := by
  have hsorted : (setCacheValue c k v del dirty).sorted = c.sorted := rfl
  have hlk := cacheLookup_setCacheValue c k
  cases dirty with
  | false =>
    have hn := hn rfl
    have huns : (setCacheValue c k v del false).unsorted = c.unsorted := rfl
    have hne : ∀ q cv, cacheLookup c.cache q = some cv → q ≠ k := by
      intro q cv h hq; subst hq; rw [hn] at h; cases h
    refine ⟨nodup_cacheStore _ _ _ hc.nodupCache, by rw [huns]; exact hc.nodupUnsorted, ?_, ?_, ?_, ?_, by rw [hsorted]; exact hc.sortedAsc, ?_⟩
    · intro q hq
      rw [huns] at hq
      obtain ⟨cv, h1, h2⟩ := hc.unsortedDirty q hq
      exact ⟨cv, by rw [hlk, if_neg (hne q cv h1)]; exact h1, h2⟩
    · intro q cv h1 h2
      rw [hlk] at h1
      by_cases hq : q = k
      · rw [if_pos hq] at h1; cases h1; cases h2
      · rw [if_neg hq] at h1; rw [huns, hsorted]; exact hc.dirtyTracked q cv h1 h2
    · intro q ov h1 h2
      rw [hsorted] at h1; rw [huns] at h2
      obtain ⟨cv, h3, h4⟩ := hc.sortedCurrent q ov h1 h2
      exact ⟨cv, by rw [hlk, if_neg (hne q cv h3)]; exact h3, h4⟩
    · intro q ov h1
      rw [hsorted] at h1
      obtain ⟨cv, h3, h4⟩ := hc.sortedDirty q ov h1
      exact ⟨cv, by rw [hlk, if_neg (hne q cv h3)]; exact h3, h4⟩
    · intro q cv h1 h2
      rw [hlk] at h1
      by_cases hq : q = k
      · rw [if_pos hq] at h1; cases h1; cases h2
      · rw [if_neg hq] at h1; exact hc.deletedIff q cv h1 h2
  | true =>
    have hd := hd rfl
    have huns : ∀ q, q ∈ (setCacheValue c k v del true).unsorted ↔ q = k ∨ q ∈ c.unsorted := by
      intro q
      simp only [setCacheValue, if_true]
      split
      · rename_i hm
        have hm : k ∈ c.unsorted := by simpa using hm
        constructor
        · exact Or.inr
        · rintro (h | h)
          · subst h; exact hm
          · exact h
      · simp
    refine ⟨nodup_cacheStore _ _ _ hc.nodupCache, ?_, ?_, ?_, ?_, ?_, by rw [hsorted]; exact hc.sortedAsc, ?_⟩
    · simp only [setCacheValue, if_true]
      split
      · exact hc.nodupUnsorted
      · rename_i hm
        have hm : k ∉ c.unsorted := by simpa using hm
        exact List.nodup_cons.2 ⟨hm, hc.nodupUnsorted⟩
    · intro q hq
      rw [hlk]
      by_cases hqk : q = k
      · rw [if_pos hqk]; exact ⟨_, rfl, rfl⟩
      · rw [if_neg hqk]
        rcases (huns q).1 hq with h | h
        · exact absurd h hqk
        · exact hc.unsortedDirty q h
    · intro q cv h1 h2
      rw [hlk] at h1
      by_cases hqk : q = k
      · left; exact (huns q).2 (Or.inl hqk)
      · rw [if_neg hqk] at h1
        rcases hc.dirtyTracked q cv h1 h2 with h | h
        · left; exact (huns q).2 (Or.inr h)
        · right; exact h
    · intro q ov h1 h2
      rw [hsorted] at h1
      have hqk : q ≠ k := fun h => h2 ((huns q).2 (Or.inl h))
      have hq2 : q ∉ c.unsorted := fun h => h2 ((huns q).2 (Or.inr h))
      rw [hlk, if_neg hqk]
      exact hc.sortedCurrent q ov h1 hq2
    · intro q ov h1
      rw [hsorted] at h1
      rw [hlk]
      by_cases hqk : q = k
      · rw [if_pos hqk]; exact ⟨_, rfl, rfl⟩
      · rw [if_neg hqk]; exact hc.sortedDirty q ov h1
    · intro q cv h1 h2
      rw [hlk] at h1
      by_cases hqk : q = k
      · rw [if_pos hqk] at h1; cases h1; exact hd
      · rw [if_neg hqk] at h1; exact hc.deletedIff q cv h1 h2

/-! ### point operations refine the view -/
theorem bind_eq_ok {ε α β : Type} {x : Except ε α} {f : α → Except ε β} {b : β} :
    (x >>= f) = .ok b ↔ ∃ a, x = .ok a ∧ f a = .ok b := by
  cases x <;> simp [bind, Except.bind]

theorem get_refines (s : Store) : ∀ (k : Bytes) (e : Env) (v : Option Bytes) (s' : Store) (e' : Env),
    s.WF → s.get k e = .ok (v, s', e') → v = s.view k ∧ s'.WF ∧ ∀ q, s'.view q = s.view q := by
  induction s with
  | mem m =>
    intro k e v s' e' hwf h
    simp only [Store.get, Except.ok.injEq, Prod.mk.injEq] at h
    obtain ⟨rfl, rfl, rfl⟩ := h
    exact ⟨rfl, hwf, fun _ => rfl⟩
  | cache c p ih =>
    intro k e v s' e' hwf h
    simp only [Store.WF] at hwf
    obtain ⟨hc, hp, hclean⟩ := hwf
    simp only [Store.get] at h
    split at h
    · rename_i cv hcv
      simp only [Except.ok.injEq, Prod.mk.injEq] at h
      obtain ⟨rfl, rfl, rfl⟩ := h
      refine ⟨by simp [Store.view, hcv], ?_, fun _ => rfl⟩
      simp only [Store.WF]; exact ⟨hc, hp, hclean⟩
    · rename_i hcv
      rw [bind_eq_ok] at h
      obtain ⟨⟨v1, p1, e1⟩, h1, h2⟩ := h
      simp only [Except.ok.injEq, Prod.mk.injEq] at h2
      obtain ⟨rfl, rfl, rfl⟩ := h2
      obtain ⟨hv, hp1, hview⟩ := ih k e v1 p1 e1 hp h1
      refine ⟨by simp [Store.view, hcv, hv], ?_, ?_⟩
      · simp only [Store.WF]
        refine ⟨setCacheValue_inv _ _ _ _ _ hc (by simp) (fun _ => hcv), hp1, ?_⟩
        intro q cv hq hd
        rw [cacheLookup_setCacheValue] at hq
        by_cases hqk : q = k
        · rw [if_pos hqk] at hq; cases hq; subst hqk
          simp only; rw [hview]; exact hv
        · rw [if_neg hqk] at hq; rw [hview]; exact hclean q cv hq hd
      · intro q
        simp only [Store.view, cacheLookup_setCacheValue]
        by_cases hqk : q = k
        · subst hqk; simp [hcv, hv]
        · simp [hqk, hview]
  | pfx pre p ih =>
    intro k e v s' e' hwf h
    simp only [Store.WF] at hwf
    simp only [Store.get] at h
    rw [bind_eq_ok] at h
    obtain ⟨⟨v1, p1, e1⟩, h1, h2⟩ := h
    simp only [Except.ok.injEq, Prod.mk.injEq] at h2
    obtain ⟨rfl, rfl, rfl⟩ := h2
    obtain ⟨hv, hp1, hview⟩ := ih _ e v1 p1 e1 hwf h1
    exact ⟨hv, hp1, fun q => hview _⟩
  | gas p ih =>
    intro k e v s' e' hwf h
    simp only [Store.WF] at hwf
    simp only [Store.get] at h
    rw [bind_eq_ok] at h
    obtain ⟨ea, _, h⟩ := h
    rw [bind_eq_ok] at h
    obtain ⟨⟨v1, p1, e1⟩, h1, h2⟩ := h
    simp only at h2
    rw [bind_eq_ok] at h2
    obtain ⟨eb, _, h2⟩ := h2
    simp only [Except.ok.injEq, Prod.mk.injEq] at h2
    obtain ⟨rfl, rfl, rfl⟩ := h2
    obtain ⟨hv, hp1, hview⟩ := ih _ _ v1 p1 e1 hwf h1
    exact ⟨hv, hp1, fun q => hview _⟩
  | trace p ih =>
    intro k e v s' e' hwf h
    simp only [Store.WF] at hwf
    simp only [Store.get] at h
    rw [bind_eq_ok] at h
    obtain ⟨⟨v1, p1, e1⟩, h1, h2⟩ := h
    simp only [Except.ok.injEq, Prod.mk.injEq] at h2
    obtain ⟨rfl, rfl, rfl⟩ := h2
    obtain ⟨hv, hp1, hview⟩ := ih _ e v1 p1 e1 hwf h1
    exact ⟨hv, hp1, fun q => hview _⟩

theorem has_refines (s : Store) : ∀ (k : Bytes) (e : Env) (b : Bool) (s' : Store) (e' : Env),
    s.WF → s.has k e = .ok (b, s', e') → b = (s.view k).isSome ∧ s'.WF ∧ ∀ q, s'.view q = s.view q := by
  induction s with
  | mem m =>
    intro k e v s' e' hwf h
    simp only [Store.has, Except.ok.injEq, Prod.mk.injEq] at h
    obtain ⟨rfl, rfl, rfl⟩ := h
    exact ⟨rfl, hwf, fun _ => rfl⟩
  | cache c p ih =>
    intro k e b s' e' hwf h
    simp only [Store.has] at h
    rw [bind_eq_ok] at h
    obtain ⟨⟨v1, p1, e1⟩, h1, h2⟩ := h
    simp only [Except.ok.injEq, Prod.mk.injEq] at h2
    obtain ⟨rfl, rfl, rfl⟩ := h2
    obtain ⟨hv, hp1, hview⟩ := get_refines _ _ _ _ _ _ hwf h1
    exact ⟨by rw [hv], hp1, hview⟩
  | pfx pre p ih =>
    intro k e v s' e' hwf h
    simp only [Store.WF] at hwf
    simp only [Store.has] at h
    rw [bind_eq_ok] at h
    obtain ⟨⟨v1, p1, e1⟩, h1, h2⟩ := h
    simp only [Except.ok.injEq, Prod.mk.injEq] at h2
    obtain ⟨rfl, rfl, rfl⟩ := h2
    obtain ⟨hv, hp1, hview⟩ := ih _ e v1 p1 e1 hwf h1
    exact ⟨hv, hp1, fun q => hview _⟩
  | gas p ih =>
    intro k e v s' e' hwf h
    simp only [Store.WF] at hwf
    simp only [Store.has] at h
    rw [bind_eq_ok] at h
    obtain ⟨ea, _, h⟩ := h
    rw [bind_eq_ok] at h
    obtain ⟨⟨v1, p1, e1⟩, h1, h2⟩ := h
    simp only [Except.ok.injEq, Prod.mk.injEq] at h2
    obtain ⟨rfl, rfl, rfl⟩ := h2
    obtain ⟨hv, hp1, hview⟩ := ih _ _ v1 p1 e1 hwf h1
    exact ⟨hv, hp1, fun q => hview _⟩
  | trace p ih =>
    intro k e v s' e' hwf h
    simp only [Store.WF] at hwf
    simp only [Store.has] at h
    rw [bind_eq_ok] at h
    obtain ⟨⟨v1, p1, e1⟩, h1, h2⟩ := h
    simp only [Except.ok.injEq, Prod.mk.injEq] at h2
    obtain ⟨rfl, rfl, rfl⟩ := h2
    obtain ⟨hv, hp1, hview⟩ := ih _ e v1 p1 e1 hwf h1
    exact ⟨hv, hp1, fun q => hview _⟩

theorem set_refines (s : Store) : ∀ (k v : Bytes) (e : Env) (s' : Store) (e' : Env),
    s.WF → s.set k v e = .ok (s', e') →
    s'.WF ∧ ∀ q, s'.view q = if q = k then some v else s.view q := by
  induction s with
  | mem m =>
    intro k v e s' e' hwf h
    simp only [Store.set, Except.ok.injEq, Prod.mk.injEq] at h
    obtain ⟨rfl, rfl⟩ := h
    simp only [Store.WF] at hwf ⊢
    exact ⟨sortedAsc_kvSet m hwf k v, fun q => kvGet_kvSet m k v q⟩
  | cache c p ih =>
    intro k v e s' e' hwf h
    simp only [Store.WF] at hwf
    obtain ⟨hc, hp, hclean⟩ := hwf
    simp only [Store.set, Except.ok.injEq, Prod.mk.injEq] at h
    obtain ⟨rfl, rfl⟩ := h
    refine ⟨?_, ?_⟩
    · simp only [Store.WF]
      refine ⟨setCacheValue_inv _ _ _ _ _ hc (by simp) (by simp), hp, ?_⟩
      intro q cv hq hd
      rw [cacheLookup_setCacheValue] at hq
      by_cases hqk : q = k
      · rw [if_pos hqk] at hq; cases hq; cases hd
      · rw [if_neg hqk] at hq; exact hclean q cv hq hd
    · intro q
      simp only [Store.view, cacheLookup_setCacheValue]
      by_cases hqk : q = k <;> simp [hqk]
  | pfx pre p ih =>
    intro k v e s' e' hwf h
    simp only [Store.WF] at hwf
    simp only [Store.set] at h
    rw [bind_eq_ok] at h
    obtain ⟨⟨p1, e1⟩, h1, h2⟩ := h
    simp only [Except.ok.injEq, Prod.mk.injEq] at h2
    obtain ⟨rfl, rfl⟩ := h2
    obtain ⟨hp1, hview⟩ := ih _ _ e p1 e1 hwf h1
    refine ⟨hp1, fun q => ?_⟩
    simp only [Store.view, hview, List.append_cancel_left_eq]
  | gas p ih =>
    intro k v e s' e' hwf h
    simp only [Store.WF] at hwf
    simp only [Store.set] at h
    rw [bind_eq_ok] at h
    obtain ⟨ea, _, h⟩ := h
    rw [bind_eq_ok] at h
    obtain ⟨eb, _, h⟩ := h
    rw [bind_eq_ok] at h
    obtain ⟨⟨p1, e1⟩, h1, h2⟩ := h
    simp only [Except.ok.injEq, Prod.mk.injEq] at h2
    obtain ⟨rfl, rfl⟩ := h2
    exact ih _ _ _ p1 e1 hwf h1
  | trace p ih =>
    intro k v e s' e' hwf h
    simp only [Store.WF] at hwf
    simp only [Store.set] at h
    rw [bind_eq_ok] at h
    obtain ⟨⟨p1, e1⟩, h1, h2⟩ := h
    simp only [Except.ok.injEq, Prod.mk.injEq] at h2
    obtain ⟨rfl, rfl⟩ := h2
    exact ih _ _ _ p1 e1 hwf h1

theorem delete_refines (s : Store) : ∀ (k : Bytes) (e : Env) (s' : Store) (e' : Env),
    s.WF → s.delete k e = .ok (s', e') →
    s'.WF ∧ ∀ q, s'.view q = if q = k then none else s.view q := by
  induction s with
  | mem m =>
    intro k e s' e' hwf h
    simp only [Store.delete, Except.ok.injEq, Prod.mk.injEq] at h
    obtain ⟨rfl, rfl⟩ := h
    simp only [Store.WF] at hwf ⊢
    exact ⟨sortedAsc_kvDel m hwf k, fun q => kvGet_kvDel m hwf k q⟩
  | cache c p ih =>
    intro k e s' e' hwf h
    simp only [Store.WF] at hwf
    obtain ⟨hc, hp, hclean⟩ := hwf
    simp only [Store.delete, Except.ok.injEq, Prod.mk.injEq] at h
    obtain ⟨rfl, rfl⟩ := h
    refine ⟨?_, ?_⟩
    · simp only [Store.WF]
      refine ⟨setCacheValue_inv _ _ _ _ _ hc (by simp) (by simp), hp, ?_⟩
      intro q cv hq hd
      rw [cacheLookup_setCacheValue] at hq
      by_cases hqk : q = k
      · rw [if_pos hqk] at hq; cases hq; cases hd
      · rw [if_neg hqk] at hq; exact hclean q cv hq hd
    · intro q
      simp only [Store.view, cacheLookup_setCacheValue]
      by_cases hqk : q = k <;> simp [hqk]
  | pfx pre p ih =>
    intro k e s' e' hwf h
    simp only [Store.WF] at hwf
    simp only [Store.delete] at h
    rw [bind_eq_ok] at h
    obtain ⟨⟨p1, e1⟩, h1, h2⟩ := h
    simp only [Except.ok.injEq, Prod.mk.injEq] at h2
    obtain ⟨rfl, rfl⟩ := h2
    obtain ⟨hp1, hview⟩ := ih _ e p1 e1 hwf h1
    refine ⟨hp1, fun q => ?_⟩
    simp only [Store.view, hview, List.append_cancel_left_eq]
  | gas p ih =>
    intro k e s' e' hwf h
    simp only [Store.WF] at hwf
    simp only [Store.delete] at h
    rw [bind_eq_ok] at h
    obtain ⟨ea, _, h⟩ := h
    rw [bind_eq_ok] at h
    obtain ⟨⟨p1, e1⟩, h1, h2⟩ := h
    simp only [Except.ok.injEq, Prod.mk.injEq] at h2
    obtain ⟨rfl, rfl⟩ := h2
    exact ih _ _ p1 e1 hwf h1
  | trace p ih =>
    intro k e s' e' hwf h
    simp only [Store.WF] at hwf
    simp only [Store.delete] at h
    rw [bind_eq_ok] at h
    obtain ⟨⟨p1, e1⟩, h1, h2⟩ := h
    simp only [Except.ok.injEq, Prod.mk.injEq] at h2
    obtain ⟨rfl, rfl⟩ := h2
    exact ih _ _ p1 e1 hwf h1

/-! ### the gas meter -/
theorem consume_ok {e e' : Env} {a : Nat} (h : consume e a = .ok e') :
    e' = { e with consumed := e.consumed + a } ∧ e.consumed + a ≤ e.limit := by
  unfold consume at h
  split at h
  · cases h
  · simp only at h
    split at h
    · cases h
    · rename_i h1 h2
      simp only [Except.ok.injEq] at h
      exact ⟨h.symm, by omega⟩

/-- the gas-relevant part of the environment is unchanged -/
def GasSame (e e' : Env) : Prop := e'.consumed = e.consumed ∧ e'.cfg = e.cfg ∧ e'.limit = e.limit

theorem GasSame.refl (e : Env) : GasSame e e := ⟨rfl, rfl, rfl⟩
theorem GasSame.trans {a b c : Env} (h1 : GasSame a b) (h2 : GasSame b c) : GasSame a c :=
  ⟨h2.1.trans h1.1, h2.2.1.trans h1.2.1, h2.2.2.trans h1.2.2⟩
theorem gasSame_emit (e : Env) (op : TraceOp) (k v : Bytes) : GasSame e (emit e op k v) := ⟨rfl, rfl, rfl⟩

/-! ### frame conditions: gas-free stacks leave the meter alone, trace-free stacks the log -/
theorem get_frame (s : Store) : ∀ (k : Bytes) (e : Env) (v : Option Bytes) (s' : Store) (e' : Env),
    s.get k e = .ok (v, s', e') →
    (s.GasFree → s'.GasFree ∧ GasSame e e') ∧ (s.TraceFree → s'.TraceFree ∧ e'.trace = e.trace) := by
  induction s with
  | mem m =>
    intro k e v s' e' h
    simp only [Store.get, Except.ok.injEq, Prod.mk.injEq] at h
    obtain ⟨rfl, rfl, rfl⟩ := h
    exact ⟨fun h => ⟨h, GasSame.refl _⟩, fun h => ⟨h, rfl⟩⟩
  | cache c p ih =>
    intro k e v s' e' h
    simp only [Store.get] at h
    split at h
    · simp only [Except.ok.injEq, Prod.mk.injEq] at h
      obtain ⟨rfl, rfl, rfl⟩ := h
      exact ⟨fun h => ⟨h, GasSame.refl _⟩, fun h => ⟨h, rfl⟩⟩
    · rw [bind_eq_ok] at h
      obtain ⟨⟨v1, p1, e1⟩, h1, h2⟩ := h
      simp only [Except.ok.injEq, Prod.mk.injEq] at h2
      obtain ⟨rfl, rfl, rfl⟩ := h2
      simpa only [Store.GasFree, Store.TraceFree] using ih k e v1 p1 e1 h1
  | pfx pre p ih =>
    intro k e v s' e' h
    simp only [Store.get] at h
    rw [bind_eq_ok] at h
    obtain ⟨⟨v1, p1, e1⟩, h1, h2⟩ := h
    simp only [Except.ok.injEq, Prod.mk.injEq] at h2
    obtain ⟨rfl, rfl, rfl⟩ := h2
    simpa only [Store.GasFree, Store.TraceFree] using ih _ e v1 p1 e1 h1
  | gas p ih =>
    intro k e v s' e' h
    simp only [Store.get] at h
    rw [bind_eq_ok] at h
    obtain ⟨ea, ha, h⟩ := h
    rw [bind_eq_ok] at h
    obtain ⟨⟨v1, p1, e1⟩, h1, h2⟩ := h
    simp only at h2
    rw [bind_eq_ok] at h2
    obtain ⟨eb, hb, h2⟩ := h2
    simp only [Except.ok.injEq, Prod.mk.injEq] at h2
    obtain ⟨rfl, rfl, rfl⟩ := h2
    refine ⟨fun h => h.elim, fun ht => ?_⟩
    simp only [Store.TraceFree] at ht ⊢
    obtain ⟨ht1, ht2⟩ := (ih _ _ v1 p1 e1 h1).2 ht
    refine ⟨ht1, ?_⟩
    rw [(consume_ok hb).1, (consume_ok ha).1] at *
    exact ht2
  | trace p ih =>
    intro k e v s' e' h
    simp only [Store.get] at h
    rw [bind_eq_ok] at h
    obtain ⟨⟨v1, p1, e1⟩, h1, h2⟩ := h
    simp only [Except.ok.injEq, Prod.mk.injEq] at h2
    obtain ⟨rfl, rfl, rfl⟩ := h2
    refine ⟨fun hg => ?_, fun h => h.elim⟩
    simp only [Store.GasFree] at hg ⊢
    obtain ⟨hg1, hg2⟩ := (ih _ _ v1 p1 e1 h1).1 hg
    exact ⟨hg1, hg2.trans (gasSame_emit _ _ _ _)⟩


theorem consume_trace {e e' : Env} {a : Nat} (h : consume e a = .ok e') : e'.trace = e.trace := by
  rw [(consume_ok h).1]

theorem has_frame (s : Store) : ∀ (k : Bytes) (e : Env) (b : Bool) (s' : Store) (e' : Env),
    s.has k e = .ok (b, s', e') →
    (s.GasFree → s'.GasFree ∧ GasSame e e') ∧ (s.TraceFree → s'.TraceFree ∧ e'.trace = e.trace) := by
  induction s with
  | mem m =>
    intro k e v s' e' h
    simp only [Store.has, Except.ok.injEq, Prod.mk.injEq] at h
    obtain ⟨rfl, rfl, rfl⟩ := h
    exact ⟨fun h => ⟨h, GasSame.refl _⟩, fun h => ⟨h, rfl⟩⟩
  | cache c p ih =>
    intro k e v s' e' h
    simp only [Store.has] at h
    rw [bind_eq_ok] at h
    obtain ⟨⟨v1, p1, e1⟩, h1, h2⟩ := h
    simp only [Except.ok.injEq, Prod.mk.injEq] at h2
    obtain ⟨rfl, rfl, rfl⟩ := h2
    exact get_frame _ _ _ _ _ _ h1
  | pfx pre p ih =>
    intro k e v s' e' h
    simp only [Store.has] at h
    rw [bind_eq_ok] at h
    obtain ⟨⟨v1, p1, e1⟩, h1, h2⟩ := h
    simp only [Except.ok.injEq, Prod.mk.injEq] at h2
    obtain ⟨rfl, rfl, rfl⟩ := h2
    simpa only [Store.GasFree, Store.TraceFree] using ih _ e v1 p1 e1 h1
  | gas p ih =>
    intro k e v s' e' h
    simp only [Store.has] at h
    rw [bind_eq_ok] at h
    obtain ⟨ea, ha, h⟩ := h
    rw [bind_eq_ok] at h
    obtain ⟨⟨v1, p1, e1⟩, h1, h2⟩ := h
    simp only [Except.ok.injEq, Prod.mk.injEq] at h2
    obtain ⟨rfl, rfl, rfl⟩ := h2
    refine ⟨fun h => h.elim, fun ht => ?_⟩
    simp only [Store.TraceFree] at ht ⊢
    obtain ⟨ht1, ht2⟩ := (ih _ _ v1 p1 e1 h1).2 ht
    exact ⟨ht1, ht2.trans (consume_trace ha)⟩
  | trace p ih =>
    intro k e v s' e' h
    simp only [Store.has] at h
    rw [bind_eq_ok] at h
    obtain ⟨⟨v1, p1, e1⟩, h1, h2⟩ := h
    simp only [Except.ok.injEq, Prod.mk.injEq] at h2
    obtain ⟨rfl, rfl, rfl⟩ := h2
    refine ⟨fun hg => ?_, fun h => h.elim⟩
    simp only [Store.GasFree] at hg ⊢
    exact (ih _ _ v1 p1 e1 h1).1 hg

theorem set_frame (s : Store) : ∀ (k v : Bytes) (e : Env) (s' : Store) (e' : Env),
    s.set k v e = .ok (s', e') →
    (s.GasFree → s'.GasFree ∧ GasSame e e') ∧ (s.TraceFree → s'.TraceFree ∧ e'.trace = e.trace) := by
  induction s with
  | mem m =>
    intro k v e s' e' h
    simp only [Store.set, Except.ok.injEq, Prod.mk.injEq] at h
    obtain ⟨rfl, rfl⟩ := h
    exact ⟨fun h => ⟨trivial, GasSame.refl _⟩, fun h => ⟨trivial, rfl⟩⟩
  | cache c p ih =>
    intro k v e s' e' h
    simp only [Store.set, Except.ok.injEq, Prod.mk.injEq] at h
    obtain ⟨rfl, rfl⟩ := h
    exact ⟨fun h => ⟨h, GasSame.refl _⟩, fun h => ⟨h, rfl⟩⟩
  | pfx pre p ih =>
    intro k v e s' e' h
    simp only [Store.set] at h
    rw [bind_eq_ok] at h
    obtain ⟨⟨p1, e1⟩, h1, h2⟩ := h
    simp only [Except.ok.injEq, Prod.mk.injEq] at h2
    obtain ⟨rfl, rfl⟩ := h2
    simpa only [Store.GasFree, Store.TraceFree] using ih _ _ e p1 e1 h1
  | gas p ih =>
    intro k v e s' e' h
    simp only [Store.set] at h
    rw [bind_eq_ok] at h
    obtain ⟨ea, ha, h⟩ := h
    rw [bind_eq_ok] at h
    obtain ⟨eb, hb, h⟩ := h
    rw [bind_eq_ok] at h
    obtain ⟨⟨p1, e1⟩, h1, h2⟩ := h
    simp only [Except.ok.injEq, Prod.mk.injEq] at h2
    obtain ⟨rfl, rfl⟩ := h2
    refine ⟨fun h => h.elim, fun ht => ?_⟩
    simp only [Store.TraceFree] at ht ⊢
    obtain ⟨ht1, ht2⟩ := (ih _ _ _ p1 e1 h1).2 ht
    exact ⟨ht1, ht2.trans ((consume_trace hb).trans (consume_trace ha))⟩
  | trace p ih =>
    intro k v e s' e' h
    simp only [Store.set] at h
    rw [bind_eq_ok] at h
    obtain ⟨⟨p1, e1⟩, h1, h2⟩ := h
    simp only [Except.ok.injEq, Prod.mk.injEq] at h2
    obtain ⟨rfl, rfl⟩ := h2
    refine ⟨fun hg => ?_, fun h => h.elim⟩
    simp only [Store.GasFree] at hg ⊢
    obtain ⟨hg1, hg2⟩ := (ih _ _ _ p1 e1 h1).1 hg
    exact ⟨hg1, (gasSame_emit _ _ _ _).trans hg2⟩

theorem delete_frame (s : Store) : ∀ (k : Bytes) (e : Env) (s' : Store) (e' : Env),
    s.delete k e = .ok (s', e') →
    (s.GasFree → s'.GasFree ∧ GasSame e e') ∧ (s.TraceFree → s'.TraceFree ∧ e'.trace = e.trace) := by
  induction s with
  | mem m =>
    intro k e s' e' h
    simp only [Store.delete, Except.ok.injEq, Prod.mk.injEq] at h
    obtain ⟨rfl, rfl⟩ := h
    exact ⟨fun h => ⟨trivial, GasSame.refl _⟩, fun h => ⟨trivial, rfl⟩⟩
  | cache c p ih =>
    intro k e s' e' h
    simp only [Store.delete, Except.ok.injEq, Prod.mk.injEq] at h
    obtain ⟨rfl, rfl⟩ := h
    exact ⟨fun h => ⟨h, GasSame.refl _⟩, fun h => ⟨h, rfl⟩⟩
  | pfx pre p ih =>
    intro k e s' e' h
    simp only [Store.delete] at h
    rw [bind_eq_ok] at h
    obtain ⟨⟨p1, e1⟩, h1, h2⟩ := h
    simp only [Except.ok.injEq, Prod.mk.injEq] at h2
    obtain ⟨rfl, rfl⟩ := h2
    simpa only [Store.GasFree, Store.TraceFree] using ih _ e p1 e1 h1
  | gas p ih =>
    intro k e s' e' h
    simp only [Store.delete] at h
    rw [bind_eq_ok] at h
    obtain ⟨ea, ha, h⟩ := h
    rw [bind_eq_ok] at h
    obtain ⟨⟨p1, e1⟩, h1, h2⟩ := h
    simp only [Except.ok.injEq, Prod.mk.injEq] at h2
    obtain ⟨rfl, rfl⟩ := h2
    refine ⟨fun h => h.elim, fun ht => ?_⟩
    simp only [Store.TraceFree] at ht ⊢
    obtain ⟨ht1, ht2⟩ := (ih _ _ p1 e1 h1).2 ht
    exact ⟨ht1, ht2.trans (consume_trace ha)⟩
  | trace p ih =>
    intro k e s' e' h
    simp only [Store.delete] at h
    rw [bind_eq_ok] at h
    obtain ⟨⟨p1, e1⟩, h1, h2⟩ := h
    simp only [Except.ok.injEq, Prod.mk.injEq] at h2
    obtain ⟨rfl, rfl⟩ := h2
    refine ⟨fun hg => ?_, fun h => h.elim⟩
    simp only [Store.GasFree] at hg ⊢
    obtain ⟨hg1, hg2⟩ := (ih _ _ p1 e1 h1).1 hg
    exact ⟨hg1, (gasSame_emit _ _ _ _).trans hg2⟩

/-! ### gas-free stacks never panic on point operations -/
theorem get_noerr (s : Store) : ∀ (k : Bytes) (e : Env), s.GasFree → ∃ r, s.get k e = .ok r := by
  induction s with
  | mem m => intro k e _; exact ⟨_, rfl⟩
  | cache c p ih =>
    intro k e hg
    simp only [Store.GasFree] at hg
    simp only [Store.get]
    split
    · exact ⟨_, rfl⟩
    · obtain ⟨⟨v, p', e'⟩, h⟩ := ih k e hg
      rw [h]; exact ⟨_, rfl⟩
  | pfx pre p ih =>
    intro k e hg
    simp only [Store.GasFree] at hg
    obtain ⟨⟨v, p', e'⟩, h⟩ := ih (pre ++ k) e hg
    simp only [Store.get, h]; exact ⟨_, rfl⟩
  | gas p ih => intro k e hg; exact hg.elim
  | trace p ih =>
    intro k e hg
    simp only [Store.GasFree] at hg
    obtain ⟨⟨v, p', e'⟩, h⟩ := ih k e hg
    simp only [Store.get, h]; exact ⟨_, rfl⟩

theorem has_noerr (s : Store) : ∀ (k : Bytes) (e : Env), s.GasFree → ∃ r, s.has k e = .ok r := by
  induction s with
  | mem m => intro k e _; exact ⟨_, rfl⟩
  | cache c p ih =>
    intro k e hg
    obtain ⟨⟨v, p', e'⟩, h⟩ := get_noerr (.cache c p) k e hg
    simp only [Store.has, h]; exact ⟨_, rfl⟩
  | pfx pre p ih =>
    intro k e hg
    simp only [Store.GasFree] at hg
    obtain ⟨⟨v, p', e'⟩, h⟩ := ih (pre ++ k) e hg
    simp only [Store.has, h]; exact ⟨_, rfl⟩
  | gas p ih => intro k e hg; exact hg.elim
  | trace p ih =>
    intro k e hg
    simp only [Store.GasFree] at hg
    obtain ⟨⟨v, p', e'⟩, h⟩ := ih k e hg
    simp only [Store.has, h]; exact ⟨_, rfl⟩

theorem set_noerr (s : Store) : ∀ (k v : Bytes) (e : Env), s.GasFree → ∃ r, s.set k v e = .ok r := by
  induction s with
  | mem m => intro k v e _; exact ⟨_, rfl⟩
  | cache c p ih => intro k v e _; exact ⟨_, rfl⟩
  | pfx pre p ih =>
    intro k v e hg
    simp only [Store.GasFree] at hg
    obtain ⟨⟨p', e'⟩, h⟩ := ih (pre ++ k) v e hg
    simp only [Store.set, h]; exact ⟨_, rfl⟩
  | gas p ih => intro k v e hg; exact hg.elim
  | trace p ih =>
    intro k v e hg
    simp only [Store.GasFree] at hg
    obtain ⟨⟨p', e'⟩, h⟩ := ih k v (emit e .write k v) hg
    simp only [Store.set, h]; exact ⟨_, rfl⟩

theorem delete_noerr (s : Store) : ∀ (k : Bytes) (e : Env), s.GasFree → ∃ r, s.delete k e = .ok r := by
  induction s with
  | mem m => intro k e _; exact ⟨_, rfl⟩
  | cache c p ih => intro k e _; exact ⟨_, rfl⟩
  | pfx pre p ih =>
    intro k e hg
    simp only [Store.GasFree] at hg
    obtain ⟨⟨p', e'⟩, h⟩ := ih (pre ++ k) e hg
    simp only [Store.delete, h]; exact ⟨_, rfl⟩
  | gas p ih => intro k e hg; exact hg.elim
  | trace p ih =>
    intro k e hg
    simp only [Store.GasFree] at hg
    obtain ⟨⟨p', e'⟩, h⟩ := ih k (emit e .delete k []) hg
    simp only [Store.delete, h]; exact ⟨_, rfl⟩

/-! ### prefix ranges -/
theorem blt_append_right {k p : Bytes} (a : Bytes) (h : blt k p = true) : blt k (p ++ a) = true := by
  induction p generalizing k with
  | nil => rw [blt_nil_right] at h; cases h
  | cons x xs ih =>
    cases k with
    | nil => rfl
    | cons y ys =>
      simp only [blt, List.cons_append, Bool.or_eq_true, Bool.and_eq_true, decide_eq_true_eq, beq_iff_eq] at h ⊢
      rcases h with h | ⟨h1, h2⟩
      · exact Or.inl h
      · exact Or.inr ⟨h1, ih h2⟩

/-- the end bound a prefix store passes to its parent -/
def pfxStop (pre : Bytes) (b : Option Bytes) : Option Bytes :=
  match b with | none => prefixEnd pre | some e => some (pre ++ e)

theorem hasPrefix_of_between (pre a x key : Bytes)
    (h : inDomain key (pre ++ a) (some (pre ++ x)) = true) : hasPrefix key pre = true := by
  induction pre generalizing key with
  | nil => cases key <;> rfl
  | cons p ps ih =>
    cases key with
    | nil => simp [inDomain, ble, blt] at h
    | cons c cs =>
      simp only [inDomain, ble, blt, List.cons_append, Bool.and_eq_true, Bool.not_eq_true',
        Bool.or_eq_false_iff, Bool.and_eq_false_iff, decide_eq_false_iff_not, Bool.or_eq_true,
        decide_eq_true_eq, beq_iff_eq, beq_eq_false_iff_ne, ne_eq] at h
      obtain ⟨⟨h1, h2⟩, h3⟩ := h
      have hcp : c = p := by
        rcases h3 with h3 | ⟨h3, _⟩
        · exact absurd h3 h1
        · exact h3
      subst hcp
      simp only [hasPrefix, beq_self_eq_true, Bool.true_and]
      apply ih
      simp only [inDomain, ble, Bool.and_eq_true, Bool.not_eq_true']
      refine ⟨?_, ?_⟩
      · rcases h2 with h2 | h2
        · exact absurd rfl h2
        · exact h2
      · rcases h3 with h3 | ⟨_, h3⟩
        · exact absurd h3 h1
        · exact h3

theorem hasPrefix_of_inDomain (pre a : Bytes) (b : Option Bytes) (key : Bytes) (hk : IsBytes key)
    (h : inDomain key (pre ++ a) (pfxStop pre b) = true) : hasPrefix key pre = true := by
  cases b with
  | some x => exact hasPrefix_of_between pre a x key h
  | none =>
    rw [← prefixEnd_spec' pre key hk]
    simp only [pfxStop, inDomain, ble, Bool.and_eq_true, Bool.not_eq_true'] at h ⊢
    refine ⟨?_, h.2⟩
    cases hb : blt key pre with
    | false => rfl
    | true => rw [blt_append_right a hb] at h; exact absurd h.1 (by simp)

theorem inDomain_pfx (pre a k : Bytes) (b : Option Bytes) (hk : IsBytes (pre ++ k)) :
    inDomain (pre ++ k) (pre ++ a) (pfxStop pre b) = inDomain k a b := by
  cases b with
  | some x => simp only [pfxStop, inDomain, ble, blt_append_left]
  | none =>
    have h := prefixEnd_spec' pre (pre ++ k) hk
    rw [hasPrefix_append] at h
    simp only [inDomain, Bool.and_eq_true] at h
    simp only [pfxStop, inDomain, ble, blt_append_left, h.2]

theorem takeWhile_eq_self {α : Type} (p : α → Bool) (l : List α) (h : ∀ x ∈ l, p x = true) :
    l.takeWhile p = l := by
  induction l with
  | nil => rfl
  | cons a rest ih =>
    have ha := h a (by simp)
    simp only [List.takeWhile, ha]
    rw [ih (fun x hx => h x (by simp [hx]))]

theorem mem_kvRange (m : Items) (start : Bytes) (stop : Option Bytes) (asc : Bool) (kv : Bytes × Bytes) :
    kv ∈ kvRange m start stop asc ↔ kv ∈ m ∧ inDomain kv.1 start stop = true := by
  unfold kvRange
  cases asc <;> simp [List.mem_filter]

theorem pfx_mem_items (pre : Bytes) (m : Items) (a : Bytes) (b : Option Bytes) (asc : Bool)
    (hs : SortedAsc m) (hmb : ∀ kv ∈ m, IsBytes kv.1) (k v : Bytes) :
    (k, v) ∈ ((kvRange m (pre ++ a) (pfxStop pre b) asc).takeWhile (fun kv => hasPrefix kv.1 pre)).map
        (fun kv => (kv.1.drop pre.length, kv.2)) ↔
      (kvGet m (pre ++ k) = some v ∧ inDomain k a b = true) := by
  rw [takeWhile_eq_self]
  · rw [kvGet_eq_some_iff m hs]
    simp only [List.mem_map, mem_kvRange, Prod.mk.injEq]
    constructor
    · rintro ⟨⟨k1, v1⟩, ⟨hm, hd⟩, hk, hv⟩
      simp only at hk hv hd
      subst hv
      have hpre := hasPrefix_of_inDomain pre a b k1 (hmb _ hm) hd
      have hk1 : k1 = pre ++ k := by rw [hasPrefix_eq hpre, hk]
      subst hk1
      exact ⟨hm, by rw [← inDomain_pfx pre a k b (hmb _ hm)]; exact hd⟩
    · rintro ⟨hm, hd⟩
      refine ⟨(pre ++ k, v), ⟨hm, ?_⟩, by simp, rfl⟩
      simp only
      rw [inDomain_pfx pre a k b (hmb _ hm)]; exact hd
  · intro kv hkv
    rw [mem_kvRange] at hkv
    exact hasPrefix_of_inDomain pre a b kv.1 (hmb _ hkv.1) hkv.2

/-! ### gas layer -/
theorem consume_eq (e : Env) (a : Nat) (h : e.consumed + a ≤ maxUint64) :
    consume e a =
      if e.consumed + a > e.limit then .error (.outOfGas, { e with consumed := e.consumed + a })
      else .ok { e with consumed := e.consumed + a } := by
  unfold consume
  have : ¬ (maxUint64 - e.consumed < a) := by omega
  simp only [this, if_false]

/-- the view after a point operation -/
def viewAfter (view : Bytes → Option Bytes) : PointOp → Bytes → Option Bytes
  | .set k v => fun q => if q = k then some v else view q
  | .del k => fun q => if q = k then none else view q
  | _ => view

theorem totalCost_cons (cfg : GasConfig) (view : Bytes → Option Bytes) (op : PointOp) (rest : List PointOp) :
    totalCost cfg view (op :: rest) = op.cost cfg view + totalCost cfg (viewAfter view op) rest := by
  cases op <;> rfl

theorem gas_point_spec (p : Store) (op : PointOp) (e : Env) (s' : Store) (e' : Env)
    (hwf : p.WF) (hg : p.GasFree) (h : (Store.gas p).point e op = .ok (s', e')) :
    ∃ p', s' = .gas p' ∧ p'.WF ∧ p'.GasFree ∧ (∀ q, p'.view q = viewAfter p.view op q) ∧
      e'.consumed = e.consumed + op.cost e.cfg p.view ∧ e'.consumed ≤ e'.limit ∧
      e'.cfg = e.cfg ∧ e'.limit = e.limit := by
  cases op with
  | get k =>
    simp only [Store.point] at h
    rw [bind_eq_ok] at h
    obtain ⟨⟨v0, s0, e0⟩, h, h0⟩ := h
    simp only [Except.ok.injEq, Prod.mk.injEq] at h0
    obtain ⟨rfl, rfl⟩ := h0
    simp only [Store.get] at h
    rw [bind_eq_ok] at h
    obtain ⟨ea, ha, h⟩ := h
    rw [bind_eq_ok] at h
    obtain ⟨⟨v1, p1, e1⟩, h1, h2⟩ := h
    simp only at h2
    rw [bind_eq_ok] at h2
    obtain ⟨eb, hb, h2⟩ := h2
    simp only [Except.ok.injEq, Prod.mk.injEq] at h2
    obtain ⟨rfl, rfl, rfl⟩ := h2
    obtain ⟨hv, hp1, hview⟩ := get_refines p k ea v1 p1 e1 hwf h1
    obtain ⟨hg1, hc1, hcfg1, hl1⟩ := (get_frame p k ea v1 p1 e1 h1).1 hg
    obtain ⟨hea, _⟩ := consume_ok ha
    obtain ⟨heb, hle⟩ := consume_ok hb
    subst hea heb hv
    simp only at hc1 hcfg1 hl1
    refine ⟨p1, rfl, hp1, hg1, hview, ?_, ?_, hcfg1, hl1⟩
    · simp only [PointOp.cost, hc1]; omega
    · simp only; exact hle
  | has k =>
    simp only [Store.point] at h
    rw [bind_eq_ok] at h
    obtain ⟨⟨v0, s0, e0⟩, h, h0⟩ := h
    simp only [Except.ok.injEq, Prod.mk.injEq] at h0
    obtain ⟨rfl, rfl⟩ := h0
    simp only [Store.has] at h
    rw [bind_eq_ok] at h
    obtain ⟨ea, ha, h⟩ := h
    rw [bind_eq_ok] at h
    obtain ⟨⟨v1, p1, e1⟩, h1, h2⟩ := h
    simp only [Except.ok.injEq, Prod.mk.injEq] at h2
    obtain ⟨rfl, rfl, rfl⟩ := h2
    obtain ⟨hv, hp1, hview⟩ := has_refines p k ea v1 p1 e1 hwf h1
    obtain ⟨hg1, hc1, hcfg1, hl1⟩ := (has_frame p k ea v1 p1 e1 h1).1 hg
    obtain ⟨hea, hle⟩ := consume_ok ha
    subst hea
    simp only at hc1 hcfg1 hl1
    refine ⟨p1, rfl, hp1, hg1, hview, ?_, ?_, hcfg1, hl1⟩
    · simp only [PointOp.cost, hc1]
    · rw [hc1, hl1]; exact hle
  | set k v =>
    simp only [Store.point, Store.set] at h
    rw [bind_eq_ok] at h
    obtain ⟨ea, ha, h⟩ := h
    rw [bind_eq_ok] at h
    obtain ⟨eb, hb, h⟩ := h
    rw [bind_eq_ok] at h
    obtain ⟨⟨p1, e1⟩, h1, h2⟩ := h
    simp only [Except.ok.injEq, Prod.mk.injEq] at h2
    obtain ⟨rfl, rfl⟩ := h2
    obtain ⟨hp1, hview⟩ := set_refines p k v eb p1 e1 hwf h1
    obtain ⟨hg1, hc1, hcfg1, hl1⟩ := (set_frame p k v eb p1 e1 h1).1 hg
    obtain ⟨hea, _⟩ := consume_ok ha
    obtain ⟨heb, hle⟩ := consume_ok hb
    subst hea heb
    simp only at hc1 hcfg1 hl1 hle
    refine ⟨p1, rfl, hp1, hg1, hview, ?_, ?_, hcfg1, hl1⟩
    · simp only [PointOp.cost, hc1]; omega
    · rw [hc1, hl1]; exact hle
  | del k =>
    simp only [Store.point, Store.delete] at h
    rw [bind_eq_ok] at h
    obtain ⟨ea, ha, h⟩ := h
    rw [bind_eq_ok] at h
    obtain ⟨⟨p1, e1⟩, h1, h2⟩ := h
    simp only [Except.ok.injEq, Prod.mk.injEq] at h2
    obtain ⟨rfl, rfl⟩ := h2
    obtain ⟨hp1, hview⟩ := delete_refines p k ea p1 e1 hwf h1
    obtain ⟨hg1, hc1, hcfg1, hl1⟩ := (delete_frame p k ea p1 e1 h1).1 hg
    obtain ⟨hea, hle⟩ := consume_ok ha
    subst hea
    simp only at hc1 hcfg1 hl1 hle
    refine ⟨p1, rfl, hp1, hg1, hview, ?_, ?_, hcfg1, hl1⟩
    · simp only [PointOp.cost, hc1]
    · rw [hc1, hl1]; exact hle

theorem gas_points_spec (ops : List PointOp) : ∀ (p : Store) (e : Env) (s' : Store) (e' : Env),
    p.WF → p.GasFree → (Store.gas p).points e ops = .ok (s', e') →
    e'.consumed = e.consumed + totalCost e.cfg p.view ops := by
  induction ops with
  | nil =>
    intro p e s' e' _ _ h
    simp only [Store.points, Except.ok.injEq, Prod.mk.injEq] at h
    obtain ⟨_, rfl⟩ := h
    simp [totalCost]
  | cons op rest ih =>
    intro p e s' e' hwf hg h
    simp only [Store.points] at h
    rw [bind_eq_ok] at h
    obtain ⟨⟨s1, e1⟩, h1, h2⟩ := h
    simp only at h2
    obtain ⟨p1, rfl, hp1, hg1, hview, hc, _, hcfg, _⟩ := gas_point_spec p op e s1 e1 hwf hg h1
    have := ih p1 e1 s' e' hp1 hg1 h2
    have hfun : p1.view = viewAfter p.view op := funext hview
    rw [this, hc, totalCost_cons, hcfg, hfun]; omega

theorem gas_point_oog (p : Store) (op : PointOp) (e : Env)
    (hwf : p.WF) (hg : p.GasFree)
    (hno : e.consumed + op.cost e.cfg p.view ≤ maxUint64) :
    (∃ e', (Store.gas p).point e op = .error (.outOfGas, e')) ↔
      e.consumed + op.cost e.cfg p.view > e.limit := by
  cases op with
  | get k =>
    simp only [PointOp.cost] at hno ⊢
    simp only [Store.point, Store.get]
    rw [consume_eq e _ (by omega)]
    by_cases h1 : e.consumed + e.cfg.readCostFlat > e.limit
    · simp only [h1, if_true, bind, Except.bind]
      constructor
      · intro _; omega
      · intro _; exact ⟨_, rfl⟩
    · simp only [h1, if_false]
      obtain ⟨⟨v1, p1, e1⟩, hget⟩ := get_noerr p k { e with consumed := e.consumed + e.cfg.readCostFlat } hg
      obtain ⟨hv, _, _⟩ := get_refines p k _ v1 p1 e1 hwf hget
      obtain ⟨_, hc1, hcfg1, hl1⟩ := (get_frame p k _ v1 p1 e1 hget).1 hg
      simp only at hc1 hcfg1 hl1
      subst hv
      simp only [bind, Except.bind, hget]
      rw [consume_eq e1 _ (by rw [hc1]; omega)]
      by_cases h2 : e1.consumed + e.cfg.readCostPerByte * ((p.view k).getD []).length > e1.limit
      · simp only [h2, if_true]
        constructor
        · intro _; rw [hc1, hl1] at h2; omega
        · intro _; exact ⟨_, rfl⟩
      · simp only [h2, if_false]
        constructor
        · rintro ⟨e', he'⟩; cases he'
        · intro h; rw [hc1, hl1] at h2; omega
  | has k =>
    simp only [PointOp.cost] at hno ⊢
    simp only [Store.point, Store.has]
    rw [consume_eq e _ hno]
    by_cases h1 : e.consumed + e.cfg.hasCost > e.limit
    · simp only [h1, if_true, bind, Except.bind]
      constructor
      · intro _; trivial
      · intro _; exact ⟨_, rfl⟩
    · simp only [h1, if_false]
      obtain ⟨⟨v1, p1, e1⟩, hhas⟩ := has_noerr p k { e with consumed := e.consumed + e.cfg.hasCost } hg
      simp only [bind, Except.bind, hhas]
      constructor
      · rintro ⟨e', he'⟩; cases he'
      · intro h; exact h.elim
  | set k v =>
    simp only [PointOp.cost] at hno ⊢
    simp only [Store.point, Store.set]
    rw [consume_eq e _ (by omega)]
    by_cases h1 : e.consumed + e.cfg.writeCostFlat > e.limit
    · simp only [h1, if_true, bind, Except.bind]
      constructor
      · intro _; omega
      · intro _; exact ⟨_, rfl⟩
    · simp only [h1, if_false, bind, Except.bind]
      rw [consume_eq _ _ (by simp only; omega)]
      simp only
      by_cases h2 : e.consumed + e.cfg.writeCostFlat + e.cfg.writeCostPerByte * v.length > e.limit
      · simp only [h2, if_true]
        constructor
        · intro _; omega
        · intro _; exact ⟨_, rfl⟩
      · simp only [h2, if_false]
        obtain ⟨⟨p1, e1⟩, hset⟩ := set_noerr p k v
          { e with consumed := e.consumed + e.cfg.writeCostFlat + e.cfg.writeCostPerByte * v.length } hg
        simp only [hset]
        constructor
        · rintro ⟨e', he'⟩; cases he'
        · intro h; omega
  | del k =>
    simp only [PointOp.cost] at hno ⊢
    simp only [Store.point, Store.delete]
    rw [consume_eq e _ hno]
    by_cases h1 : e.consumed + e.cfg.deleteCost > e.limit
    · simp only [h1, if_true, bind, Except.bind]
      constructor
      · intro _; trivial
      · intro _; exact ⟨_, rfl⟩
    · simp only [h1, if_false]
      obtain ⟨⟨p1, e1⟩, hdel⟩ := delete_noerr p k { e with consumed := e.consumed + e.cfg.deleteCost } hg
      simp only [bind, Except.bind, hdel]
      constructor
      · rintro ⟨e', he'⟩; cases he'
      · intro h; exact h.elim

/-! ### gas iterator -/
theorem seekGas_nil_cons (k v : Bytes) (t : Items) (e e' : Env)
    (h : seekGas [] ((k, v) :: t) e = .ok e') :
    e'.consumed = e.consumed + (e.cfg.readCostPerByte * v.length + e.cfg.iterNextCostFlat) ∧
    e'.cfg = e.cfg ∧ e'.limit = e.limit ∧ e'.trace = e.trace := by
  simp only [seekGas, zValue] at h
  rw [bind_eq_ok] at h
  obtain ⟨⟨v1, e1⟩, h1, h⟩ := h
  simp only [Except.ok.injEq, Prod.mk.injEq] at h1
  obtain ⟨rfl, rfl⟩ := h1
  simp only at h
  rw [bind_eq_ok] at h
  obtain ⟨ea, ha, hb⟩ := h
  obtain ⟨hea, _⟩ := consume_ok ha
  obtain ⟨heb, _⟩ := consume_ok hb
  subst hea; subst heb
  exact ⟨by simp only; omega, rfl, rfl, rfl⟩

theorem zDrain_gas (rem : Items) : ∀ (e : Env) (acc out : Items) (e2 : Env),
    zDrain (rem.length + 1) [.gas] rem e acc = .ok (out, e2) →
    out = acc.reverse ++ rem ∧
    e2.consumed = e.consumed +
      (rem.map fun kv => e.cfg.readCostPerByte * kv.2.length + e.cfg.iterNextCostFlat).sum := by
  induction rem with
  | nil =>
    intro e acc out e2 h
    simp only [List.length_nil, zDrain, zValid, List.isEmpty_nil, Bool.not_true, Bool.not_false,
      if_true, Except.ok.injEq, Prod.mk.injEq] at h
    obtain ⟨rfl, rfl⟩ := h
    simp
  | cons kv t ih =>
    intro e acc out e2 h
    obtain ⟨k, v⟩ := kv
    simp only [List.length_cons, zDrain, zValid, List.isEmpty_cons, Bool.not_false, Bool.not_true,
      Bool.false_eq_true, if_false, zKey, zValue, zNext, if_true] at h
    simp only [bind, Except.bind] at h
    cases hs : seekGas [] ((k, v) :: t) e with
    | error err => rw [hs] at h; cases h
    | ok e1 =>
      rw [hs] at h
      simp only at h
      obtain ⟨hc, hcfg, _, _⟩ := seekGas_nil_cons k v t e e1 hs
      obtain ⟨ho, he⟩ := ih e1 ((k, v) :: acc) out e2 h
      refine ⟨by simp [ho], ?_⟩
      rw [he, hc, hcfg]
      simp only [List.map_cons, List.sum_cons]
      omega

theorem zOpen_gas (l : Store) (a : Bytes) (b : Option Bytes) (asc : Bool) (e : Env)
    (z : List ZLayer) (rem : Items) (l' : Store) (e1 : Env)
    (h : zOpen [.gas] l a b asc e = .ok (z, rem, l', e1)) :
    z = [.gas] ∧ (match rem with | [] => e1 = e | _ :: _ => seekGas [] rem e = .ok e1) := by
  simp only [zOpen] at h
  cases hit : l.items a b asc with
  | none => simp [hit, bind, Except.bind] at h
  | some r =>
    obtain ⟨it, l''⟩ := r
    simp only [hit, bind, Except.bind] at h
    cases it with
    | nil =>
      simp only [zValid, List.isEmpty_nil, Bool.not_true, Bool.false_eq_true, if_false,
        Except.ok.injEq, Prod.mk.injEq] at h
      obtain ⟨rfl, rfl, rfl, rfl⟩ := h
      exact ⟨rfl, rfl⟩
    | cons kv t =>
      simp only [zValid, List.isEmpty_cons, Bool.not_false, if_true] at h
      cases hs : seekGas [] (kv :: t) e with
      | error err => rw [hs] at h; cases h
      | ok ea =>
        rw [hs] at h
        simp only [Except.ok.injEq, Prod.mk.injEq] at h
        obtain ⟨rfl, rfl, rfl, rfl⟩ := h
        exact ⟨rfl, hs⟩

theorem cacheInv_empty : CacheInv CacheData.empty := by
  refine ⟨by simp [CacheData.empty], by simp [CacheData.empty], ?_, ?_, ?_, ?_, trivial, ?_⟩
  all_goals simp [CacheData.empty, cacheLookup]

end Posmint.KV
