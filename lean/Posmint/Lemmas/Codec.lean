import Posmint.Model.Codec
/-! Helper lemmas for the encodings (C20). -/
namespace Posmint.Codec

/-! ### uvarint -/

theorem uvarint_eq (n : Nat) :
    uvarint n = if n < 128 then [n] else (n % 128 + 128) :: uvarint (n / 128) := by
  rw [uvarint]
  split <;> rfl

theorem uvarint_small {n : Nat} (h : n < 128) : uvarint n = [n] := by
  rw [uvarint_eq, if_pos h]

theorem uvarint_big {n : Nat} (h : ¬ n < 128) : uvarint n = (n % 128 + 128) :: uvarint (n / 128) := by
  rw [uvarint_eq, if_neg h]

theorem uvarint_mem_lt (n : Nat) : ∀ x ∈ uvarint n, x < 256 := by
  induction n using Nat.strongRecOn with
  | _ n ih =>
    by_cases h : n < 128
    · rw [uvarint_small h]; intro x hx; simp at hx; omega
    · rw [uvarint_big h]
      intro x hx
      simp only [List.mem_cons] at hx
      rcases hx with rfl | hx
      · omega
      · exact ih (n / 128) (by omega) x hx

theorem uvarint_length_pos (n : Nat) : 0 < (uvarint n).length := by
  by_cases h : n < 128
  · rw [uvarint_small h]; simp
  · rw [uvarint_big h]; simp

theorem uvarint_length_le (k : Nat) : ∀ n, n < 128 ^ (k + 1) → (uvarint n).length ≤ k + 1 := by
  induction k with
  | zero => intro n hn; rw [uvarint_small (by simpa using hn)]; simp
  | succ k ih =>
    intro n hn
    by_cases h : n < 128
    · rw [uvarint_small h]; simp
    · rw [uvarint_big h]
      have : n / 128 < 128 ^ (k + 1) := by
        rw [Nat.div_lt_iff_lt_mul (by decide)]
        rw [Nat.pow_succ] at hn; exact hn
      have := ih _ this
      simp; omega

theorem uvarint_length_le_ten (n : Nat) (h : n < 2 ^ 64) : (uvarint n).length ≤ 10 := by
  apply uvarint_length_le 9
  have : (2:Nat) ^ 64 ≤ 128 ^ (9 + 1) := by decide
  omega

/-- general decoding lemma: with enough fuel and no overflow, the decoder reads back `n` -/
theorem decodeUvarintAux_uvarint (n : Nat) :
    ∀ (fuel shift acc : Nat) (rest : Bytes), (uvarint n).length ≤ fuel → acc + n * 2 ^ shift < 2 ^ 64 →
      decodeUvarintAux fuel shift acc (uvarint n ++ rest) = some (acc + n * 2 ^ shift, rest) := by
  induction n using Nat.strongRecOn with
  | _ n ih =>
    intro fuel shift acc rest hf hv
    by_cases h : n < 128
    · rw [uvarint_small h] at hf ⊢
      cases fuel with
      | zero => simp at hf
      | succ f => simp [decodeUvarintAux, h, hv]
    · rw [uvarint_big h] at hf ⊢
      cases fuel with
      | zero => simp at hf
      | succ f =>
        have hb : ¬ (n % 128 + 128 < 128) := by omega
        have e : acc + (n % 128) * 2 ^ shift + (n / 128) * 2 ^ (shift + 7) = acc + n * 2 ^ shift := by
          have h1 := Nat.div_add_mod n 128
          rw [Nat.pow_add]
          generalize 2 ^ shift = P at *
          generalize n / 128 = q at *
          generalize n % 128 = r at *
          subst h1
          grind
        simp only [List.cons_append, decodeUvarintAux, hb, if_false, Nat.add_sub_cancel]
        rw [ih (n / 128) (by omega) f (shift + 7) _ rest (by simpa using hf) (by rw [e]; exact hv), e]

theorem decodeUvarint_uvarint (n : Nat) (h : n < 2 ^ 64) (rest : Bytes) :
    decodeUvarint (uvarint n ++ rest) = some (n, rest) := by
  have := decodeUvarintAux_uvarint n 10 0 0 rest (uvarint_length_le_ten n h) (by simpa using h)
  simpa [decodeUvarint] using this

/-- a strict prefix of a uvarint never decodes -/
theorem decodeUvarintAux_take (n : Nat) :
    ∀ (k fuel shift acc : Nat), k < (uvarint n).length →
      decodeUvarintAux fuel shift acc ((uvarint n).take k) = none := by
  induction n using Nat.strongRecOn with
  | _ n ih =>
    intro k fuel shift acc hk
    by_cases h : n < 128
    · rw [uvarint_small h] at hk ⊢
      have : k = 0 := by simpa using hk
      subst this
      cases fuel <;> simp [decodeUvarintAux]
    · rw [uvarint_big h] at hk ⊢
      cases k with
      | zero => cases fuel <;> simp [decodeUvarintAux]
      | succ k =>
        cases fuel with
        | zero => simp [decodeUvarintAux]
        | succ f =>
          have hb : ¬ (n % 128 + 128 < 128) := by omega
          simp only [List.take_succ_cons, decodeUvarintAux, hb, if_false]
          exact ih (n / 128) (by omega) k f _ _ (by simpa using hk)

/-! ### varint -/

theorem toU64_lt (i : Int) : toU64 i < 2 ^ 64 := by
  unfold toU64
  have : ((2:Int) ^ 64) = 18446744073709551616 := by decide
  rw [this]
  have : ((2:Nat) ^ 64) = 18446744073709551616 := by decide
  rw [this]
  omega

theorem ofU64_toU64 (i : Int) (hlo : -(2 : Int) ^ 63 ≤ i) (hhi : i < (2 : Int) ^ 63) : ofU64 (toU64 i) = i := by
  unfold ofU64 toU64
  have e1 : ((2:Int) ^ 64) = 18446744073709551616 := by decide
  have e2 : ((2:Nat) ^ 63) = 9223372036854775808 := by decide
  have e3 : ((2:Int) ^ 63) = 9223372036854775808 := by decide
  rw [e1, e2]
  rw [e3] at hlo hhi
  split <;> omega

/-! ### length-delimited -/

theorem decodeLenPrefixed_lenPrefixed (bs rest : Bytes) (h : bs.length < 2 ^ 64) :
    decodeLenPrefixed (lenPrefixed bs ++ rest) = some (bs, rest) := by
  unfold decodeLenPrefixed lenPrefixed
  rw [List.append_assoc, decodeUvarint_uvarint _ h]
  simp

theorem decodeLenPrefixed_take (bs : Bytes) (h : bs.length < 2 ^ 64) (k : Nat) (hk : k < (lenPrefixed bs).length) :
    decodeLenPrefixed ((lenPrefixed bs).take k) = none := by
  unfold lenPrefixed at hk ⊢
  unfold decodeLenPrefixed
  by_cases hku : k < (uvarint bs.length).length
  · rw [List.take_append_of_le_length (by omega)]
    unfold decodeUvarint
    rw [decodeUvarintAux_take _ _ _ _ _ hku]
  · rw [List.take_append]
    rw [List.take_of_length_le (by omega), decodeUvarint_uvarint _ h]
    simp at hk ⊢
    omega

/-! ### decimal digits -/

theorem natDigits_eq (n : Nat) :
    natDigits n = if n < 10 then [digitChar n] else natDigits (n / 10) ++ [digitChar (n % 10)] := by
  rw [natDigits]
  split <;> rfl

theorem natDigits_small {n : Nat} (h : n < 10) : natDigits n = [48 + n] := by
  rw [natDigits_eq, if_pos h]; rfl

theorem natDigits_big {n : Nat} (h : ¬ n < 10) : natDigits n = natDigits (n / 10) ++ [48 + n % 10] := by
  rw [natDigits_eq, if_neg h]; rfl

theorem natDigits_ne_nil (n : Nat) : natDigits n ≠ [] := by
  by_cases h : n < 10
  · rw [natDigits_small h]; simp
  · rw [natDigits_big h]; simp

theorem natDigits_mem (n : Nat) : ∀ x ∈ natDigits n, 48 ≤ x ∧ x ≤ 57 := by
  induction n using Nat.strongRecOn with
  | _ n ih =>
    by_cases h : n < 10
    · rw [natDigits_small h]; intro x hx; simp at hx; omega
    · rw [natDigits_big h]
      intro x hx
      simp only [List.mem_append, List.mem_singleton] at hx
      rcases hx with hx | rfl
      · exact ih (n / 10) (by omega) x hx
      · omega

theorem natDigits_length_le (k : Nat) : ∀ n, n < 10 ^ (k + 1) → (natDigits n).length ≤ k + 1 := by
  induction k with
  | zero => intro n hn; rw [natDigits_small (by simpa using hn)]; simp
  | succ k ih =>
    intro n hn
    by_cases h : n < 10
    · rw [natDigits_small h]; simp
    · rw [natDigits_big h]
      have : n / 10 < 10 ^ (k + 1) := by
        rw [Nat.div_lt_iff_lt_mul (by decide)]
        rw [Nat.pow_succ] at hn; exact hn
      have := ih _ this
      simp; omega

/-- positional value of a digit string: base `B`, digit characters offset by `off` -/
def val (off B : Nat) (xs : Bytes) : Nat := xs.foldl (fun acc d => acc * B + (d - off)) 0

/-- all entries are digit characters of base `B` at offset `off` -/
def InDig (off B : Nat) (xs : Bytes) : Prop := ∀ x ∈ xs, off ≤ x ∧ x < off + B

theorem val_foldl (off B : Nat) (xs : Bytes) : ∀ acc,
    xs.foldl (fun acc d => acc * B + (d - off)) acc = acc * B ^ xs.length + val off B xs := by
  induction xs with
  | nil => intro acc; simp [val]
  | cons x xs ih =>
    intro acc
    simp only [List.foldl_cons, val, List.length_cons]
    rw [ih, ih (0 * B + (x - off)), Nat.pow_succ]
    generalize B ^ xs.length = P
    generalize val off B xs = v
    grind

theorem val_nil (off B : Nat) : val off B [] = 0 := rfl

theorem val_cons (off B x : Nat) (xs : Bytes) : val off B (x :: xs) = (x - off) * B ^ xs.length + val off B xs := by
  have := val_foldl off B xs (0 * B + (x - off))
  simp only [val, List.foldl_cons] at this ⊢
  rw [this]; simp

theorem val_append (off B : Nat) (xs ys : Bytes) :
    val off B (xs ++ ys) = val off B xs * B ^ ys.length + val off B ys := by
  simp only [val, List.foldl_append]
  exact val_foldl off B ys _

theorem val_lt (off B : Nat) (xs : Bytes) (h : InDig off B xs) : val off B xs < B ^ xs.length := by
  induction xs with
  | nil => simp [val]
  | cons x xs ih =>
    rw [val_cons, List.length_cons, Nat.pow_succ]
    have h1 := ih (fun y hy => h y (List.mem_cons_of_mem _ hy))
    have h2 := h x (List.mem_cons_self)
    have h3 : (x - off) + 1 ≤ B := by omega
    have h4 := Nat.mul_le_mul_right (B ^ xs.length) h3
    generalize B ^ xs.length = P at *
    rw [Nat.mul_comm P B]
    grind

/-! ### lexicographic order -/

theorem blt_irrefl (x : Bytes) : blt x x = false := by
  induction x with
  | nil => rfl
  | cons a as ih => simp [blt, ih]

theorem blt_cons_same (a : Nat) (u v : Bytes) : blt (a :: u) (a :: v) = blt u v := by
  simp [blt]

theorem blt_append_of_length_eq (x y u v : Bytes) (h : x.length = y.length) :
    blt (x ++ u) (y ++ v) = (blt x y || (x == y && blt u v)) := by
  induction x generalizing y with
  | nil =>
    cases y with
    | nil => simp [blt]
    | cons b bs => simp at h
  | cons a as ih =>
    cases y with
    | nil => simp at h
    | cons b bs =>
      simp only [List.length_cons, Nat.add_right_cancel_iff] at h
      simp only [List.cons_append, blt, ih bs h]
      by_cases hab : a = b
      · subst hab; simp
      · have e : (a == b) = false := by simpa using hab
        simp [e]

/-- on equal-length digit strings the lexicographic order is the numeric order -/
theorem blt_eq_val (off B : Nat) (x y : Bytes) (h : x.length = y.length) (hx : InDig off B x) (hy : InDig off B y) :
    blt x y = decide (val off B x < val off B y) := by
  induction x generalizing y with
  | nil =>
    cases y with
    | nil => simp [blt, val]
    | cons b bs => simp at h
  | cons a as ih =>
    cases y with
    | nil => simp at h
    | cons b bs =>
      simp only [List.length_cons, Nat.add_right_cancel_iff] at h
      have hxa := hx a List.mem_cons_self
      have hyb := hy b List.mem_cons_self
      have hx' : InDig off B as := fun z hz => hx z (List.mem_cons_of_mem _ hz)
      have hy' : InDig off B bs := fun z hz => hy z (List.mem_cons_of_mem _ hz)
      have l1 := val_lt off B as hx'
      have l2 := val_lt off B bs hy'
      rw [blt, ih bs h hx' hy', val_cons, val_cons, h]
      rw [h] at l1
      generalize B ^ bs.length = P at *
      generalize val off B as = va at *
      generalize val off B bs = vb at *
      rcases Nat.lt_trichotomy a b with hab | hab | hab
      · have : (a - off) + 1 ≤ b - off := by omega
        have := Nat.mul_le_mul_right P this
        have : (a - off) * P + va < (b - off) * P + vb := by grind
        simp [hab, this]
      · subst hab; simp
      · have : (b - off) + 1 ≤ a - off := by omega
        have := Nat.mul_le_mul_right P this
        have h1 : ¬ (a - off) * P + va < (b - off) * P + vb := by grind
        have h2 : ¬ a < b := by omega
        have h3 : (a == b) = false := by simp; omega
        simp [h1, h2, h3]

theorem val_inj (off B : Nat) (x y : Bytes) (h : x.length = y.length) (hx : InDig off B x) (hy : InDig off B y)
    (hv : val off B x = val off B y) : x = y := by
  induction x generalizing y with
  | nil =>
    cases y with
    | nil => rfl
    | cons b bs => simp at h
  | cons a as ih =>
    cases y with
    | nil => simp at h
    | cons b bs =>
      simp only [List.length_cons, Nat.add_right_cancel_iff] at h
      have hxa := hx a List.mem_cons_self
      have hyb := hy b List.mem_cons_self
      have hx' : InDig off B as := fun z hz => hx z (List.mem_cons_of_mem _ hz)
      have hy' : InDig off B bs := fun z hz => hy z (List.mem_cons_of_mem _ hz)
      have l1 := val_lt off B as hx'
      have l2 := val_lt off B bs hy'
      rw [val_cons, val_cons, h] at hv
      rw [h] at l1
      have key : a = b ∧ val off B as = val off B bs := by
        generalize B ^ bs.length = P at *
        generalize val off B as = va at *
        generalize val off B bs = vb at *
        rcases Nat.lt_trichotomy a b with hab | hab | hab
        · have : (a - off) + 1 ≤ b - off := by omega
          have := Nat.mul_le_mul_right P this
          grind
        · subst hab; omega
        · have : (b - off) + 1 ≤ a - off := by omega
          have := Nat.mul_le_mul_right P this
          grind
      rw [key.1, ih bs h hx' hy' key.2]

/-- complementing every byte reverses the order of equal-length byte strings -/
theorem blt_map_compl (a b : Bytes) (h : a.length = b.length) (ha : ∀ x ∈ a, x < 256) (hb : ∀ x ∈ b, x < 256) :
    blt (a.map (255 - ·)) (b.map (255 - ·)) = blt b a := by
  induction a generalizing b with
  | nil =>
    cases b with
    | nil => rfl
    | cons y ys => simp at h
  | cons x xs ih =>
    cases b with
    | nil => simp at h
    | cons y ys =>
      simp only [List.length_cons, Nat.add_right_cancel_iff] at h
      have hx := ha x List.mem_cons_self
      have hy := hb y List.mem_cons_self
      simp only [List.map_cons, blt]
      rw [ih ys h (fun z hz => ha z (List.mem_cons_of_mem _ hz)) (fun z hz => hb z (List.mem_cons_of_mem _ hz))]
      rcases Nat.lt_trichotomy x y with hxy | hxy | hxy
      · have h1 : ¬ (255 - x < 255 - y) := by omega
        have h2 : (255 - x == 255 - y) = false := by simp; omega
        have h3 : (y == x) = false := by simp; omega
        have h4 : ¬ y < x := by omega
        simp [h1, h2, h3, h4]
      · subst hxy; simp
      · have h1 : (255 - x < 255 - y) := by omega
        simp [h1, hxy]

theorem map_compl_compl (a : Bytes) (ha : ∀ x ∈ a, x < 256) : (a.map (255 - ·)).map (255 - ·) = a := by
  induction a with
  | nil => rfl
  | cons x xs ih =>
    have hx := ha x List.mem_cons_self
    simp only [List.map_cons]
    rw [ih (fun z hz => ha z (List.mem_cons_of_mem _ hz))]
    congr 1; omega

theorem blt_snoc_zero (k key : Bytes) : blt k (key ++ [0]) = !blt key k := by
  induction k generalizing key with
  | nil => cases key <;> simp [blt]
  | cons a as ih =>
    cases key with
    | nil => cases as <;> simp [blt]
    | cons b bs =>
      simp only [List.cons_append, blt, ih bs]
      rcases Nat.lt_trichotomy a b with hab | hab | hab
      · have h1 : ¬ b < a := by omega
        have h2 : (b == a) = false := by simp; omega
        simp [hab, h1, h2]
      · subst hab; simp
      · have h1 : ¬ a < b := by omega
        have h2 : (a == b) = false := by simp; omega
        simp [hab, h1, h2]

/-! ### parsing decimal text -/

theorem natDigits_inDig (n : Nat) : InDig 48 10 (natDigits n) := by
  intro x hx; have := natDigits_mem n x hx; omega

theorem val_natDigits (n : Nat) : val 48 10 (natDigits n) = n := by
  induction n using Nat.strongRecOn with
  | _ n ih =>
    by_cases h : n < 10
    · rw [natDigits_small h]; simp [val]
    · rw [natDigits_big h, val_append, ih (n / 10) (by omega)]
      simp [val]; omega

theorem natDigits_injective (n m : Nat) (h : natDigits n = natDigits m) : n = m := by
  rw [← val_natDigits n, ← val_natDigits m, h]

theorem parse_foldl (ds : Bytes) (h : InDig 48 10 ds) : ∀ a,
    ds.foldl (fun acc d => acc.bind fun a => if 48 ≤ d ∧ d ≤ 57 then some (a * 10 + (d - 48)) else none) (some a)
      = some (ds.foldl (fun acc d => acc * 10 + (d - 48)) a) := by
  induction ds with
  | nil => intro a; rfl
  | cons d ds ih =>
    intro a
    have hd := h d List.mem_cons_self
    have : 48 ≤ d ∧ d ≤ 57 := by omega
    simp only [List.foldl_cons, Option.bind_some, this, and_self, if_true]
    exact ih (fun z hz => h z (List.mem_cons_of_mem _ hz)) _

theorem parseNat_of_inDig (ds : Bytes) (hne : ds ≠ []) (h : InDig 48 10 ds) : parseNat ds = some (val 48 10 ds) := by
  cases ds with
  | nil => exact absurd rfl hne
  | cons d ds =>
    unfold parseNat
    exact parse_foldl _ h 0

theorem parseNat_natDigits (n : Nat) : parseNat (natDigits n) = some n := by
  rw [parseNat_of_inDig _ (natDigits_ne_nil n) (natDigits_inDig n), val_natDigits]

theorem natDigits_head (n : Nat) : ∃ d ds, natDigits n = d :: ds ∧ 48 ≤ d ∧ d ≤ 57 := by
  have hm := natDigits_mem n
  cases e : natDigits n with
  | nil => exact absurd e (natDigits_ne_nil n)
  | cons d ds => exact ⟨d, ds, rfl, hm d (by rw [e]; exact List.mem_cons_self)⟩

theorem parseIntText_intText (i : Int) (h : i.natAbs < 2 ^ 255) : parseIntText (intText i) = some i := by
  unfold intText
  split
  · rename_i hneg
    unfold parseIntText
    have : (-(i.natAbs : Int)) = i := by omega
    simp [parseNat_natDigits, this, h]
  · rename_i hpos
    obtain ⟨d, ds, e, hd1, hd2⟩ := natDigits_head i.natAbs
    have hp := parseNat_natDigits i.natAbs
    rw [e] at hp ⊢
    unfold parseIntText
    have hd : d ≠ 45 := by omega
    split
    · rename_i rest heq
      simp only [List.cons.injEq] at heq
      omega
    · have : ((i.natAbs : Nat) : Int) = i := by omega
      simp [hp, this, h]

theorem intText_ne_nil (i : Int) : intText i ≠ [] := by
  unfold intText; split
  · simp
  · exact natDigits_ne_nil _

theorem intText_inj (i j : Int) (h : intText i = intText j) : i = j := by
  unfold intText at h
  obtain ⟨d, ds, e, hd1, hd2⟩ := natDigits_head i.natAbs
  obtain ⟨d', ds', e', hd1', hd2'⟩ := natDigits_head j.natAbs
  split at h <;> split at h
  · simp only [List.cons.injEq, true_and] at h
    have := natDigits_injective _ _ h; omega
  · rw [e'] at h; simp only [List.cons.injEq] at h; omega
  · rw [e] at h; simp only [List.cons.injEq] at h; omega
  · have := natDigits_injective _ _ h; omega

theorem parseIntText_natAbs_lt (bs : Bytes) (i : Int) (h : parseIntText bs = some i) : i.natAbs < 2 ^ 255 := by
  unfold parseIntText at h
  simp only [Option.bind_eq_some_iff] at h
  obtain ⟨a, _, ha⟩ := h
  split at ha
  · simp only [Option.some.injEq] at ha; subst ha; assumption
  · simp at ha

theorem intText_length_le (i : Int) (h : i.natAbs < 2 ^ 255) : (intText i).length ≤ 78 := by
  have h1 : i.natAbs < 10 ^ (76 + 1) := by
    have : (2:Nat) ^ 255 ≤ 10 ^ (76 + 1) := by decide
    omega
  have := natDigits_length_le 76 _ h1
  unfold intText; split <;> simp <;> omega

/-! ### zero padding -/

theorem pad_length (w n : Nat) (hw : 0 < w) (h : n < 10 ^ w) : (pad w n).length = w := by
  obtain ⟨k, rfl⟩ : ∃ k, w = k + 1 := ⟨w - 1, by omega⟩
  have := natDigits_length_le k n h
  simp [pad]; omega

theorem pad_inDig (w n : Nat) : InDig 48 10 (pad w n) := by
  intro x hx
  simp only [pad, List.mem_append, List.mem_replicate] at hx
  rcases hx with ⟨_, rfl⟩ | hx
  · omega
  · exact natDigits_inDig n x hx

theorem val_replicate_zero (k : Nat) : val 48 10 (List.replicate k 48) = 0 := by
  induction k with
  | zero => rfl
  | succ k ih => rw [List.replicate_succ, val_cons, ih]; simp

theorem val_pad (w n : Nat) : val 48 10 (pad w n) = n := by
  simp only [pad]
  rw [val_append, val_replicate_zero, val_natDigits]; simp

theorem blt_pad (w n m : Nat) (hw : 0 < w) (hn : n < 10 ^ w) (hm : m < 10 ^ w) :
    blt (pad w n) (pad w m) = decide (n < m) := by
  rw [blt_eq_val 48 10 _ _ (by rw [pad_length w n hw hn, pad_length w m hw hm]) (pad_inDig w n) (pad_inDig w m),
    val_pad, val_pad]

theorem pad_inj (w n m : Nat) (h : pad w n = pad w m) : n = m := by
  rw [← val_pad w n, ← val_pad w m, h]

theorem pad_beq (w n m : Nat) : (pad w n == pad w m) = decide (n = m) := by
  by_cases h : n = m
  · subst h; simp
  · have : pad w n ≠ pad w m := fun e => h (pad_inj w n m e)
    simp [h, this]

/-! ### big-endian -/

theorem be8_eq (p : Nat) : be8 p =
    [p / 72057594037927936 % 256, p / 281474976710656 % 256, p / 1099511627776 % 256, p / 4294967296 % 256,
     p / 16777216 % 256, p / 65536 % 256, p / 256 % 256, p % 256] := by
  simp [be8, List.range, List.range.loop]

theorem be8_length (p : Nat) : (be8 p).length = 8 := by simp [be8]

theorem be8_inDig (p : Nat) : InDig 0 256 (be8 p) := by
  intro x hx
  simp only [be8, List.mem_map] at hx
  obtain ⟨i, _, rfl⟩ := hx
  omega

theorem fromBe_eq_val (bs : Bytes) : fromBe bs = val 0 256 bs := by
  simp [fromBe, val]

theorem fromBe_be8 (p : Nat) (hp : p < 2 ^ 64) : fromBe (be8 p) = p := by
  have e : (2:Nat) ^ 64 = 18446744073709551616 := by decide
  rw [e] at hp
  rw [be8_eq]
  simp only [fromBe, List.foldl_cons, List.foldl_nil]
  omega

theorem blt_be8 (p q : Nat) (hp : p < 2 ^ 64) (hq : q < 2 ^ 64) : blt (be8 p) (be8 q) = decide (p < q) := by
  rw [blt_eq_val 0 256 _ _ (by rw [be8_length, be8_length]) (be8_inDig p) (be8_inDig q),
    ← fromBe_eq_val, ← fromBe_eq_val, fromBe_be8 p hp, fromBe_be8 q hq]

theorem be8_beq (p q : Nat) (hp : p < 2 ^ 64) (hq : q < 2 ^ 64) : (be8 p == be8 q) = decide (p = q) := by
  by_cases h : p = q
  · subst h; simp
  · have : be8 p ≠ be8 q := fun e => h (by rw [← fromBe_be8 p hp, ← fromBe_be8 q hq, e])
    simp [h, this]

/-! ### hex -/

theorem unhexDigit_hexDigit (n : Nat) (h : n < 16) : unhexDigit (hexDigit n) = some n := by
  unfold hexDigit unhexDigit
  by_cases h10 : n < 10
  · have : 48 ≤ 48 + n ∧ 48 + n ≤ 57 := by omega
    simp [h10, this]
  · have h1 : ¬ (48 ≤ 87 + n ∧ 87 + n ≤ 57) := by omega
    have h2 : 97 ≤ 87 + n ∧ 87 + n ≤ 102 := by omega
    simp only [h10, if_false, h1, h2, and_self, if_true]
    congr 1; omega

theorem hexDecode_hexEncode (bs : Bytes) (hb : ∀ x ∈ bs, x < 256) : hexDecode (hexEncode bs) = some bs := by
  induction bs with
  | nil => rfl
  | cons b bs ih =>
    have hlt := hb b List.mem_cons_self
    have ih' := ih (fun z hz => hb z (List.mem_cons_of_mem _ hz))
    have e : hexEncode (b :: bs) = hexDigit (b / 16) :: hexDigit (b % 16) :: hexEncode bs := by
      simp [hexEncode]
    rw [e, hexDecode, unhexDigit_hexDigit _ (by omega), unhexDigit_hexDigit _ (by omega), ih']
    simp; omega

/-! ### Coin / Coins -/

theorem fieldKey_1_2 : fieldKey 1 2 = [10] := by
  unfold fieldKey; exact uvarint_small (by decide)

theorem fieldKey_2_2 : fieldKey 2 2 = [18] := by
  unfold fieldKey; exact uvarint_small (by decide)

theorem encodeCoin_nil (a : Int) : encodeCoin ⟨[], a⟩ = 18 :: lenPrefixed (intText a) := by
  simp [encodeCoin, fieldKey_2_2]

theorem encodeCoin_cons (x : Nat) (xs : Bytes) (a : Int) :
    encodeCoin ⟨x :: xs, a⟩ = 10 :: (lenPrefixed (x :: xs) ++ 18 :: lenPrefixed (intText a)) := by
  simp [encodeCoin, fieldKey_2_2, fieldKey_1_2]

theorem decodeCoin_encodeCoin (c : Coin) (ha : c.amount.natAbs < 2 ^ 255) (hl : c.denom.length < 2 ^ 64) :
    decodeCoin (encodeCoin c) = some c := by
  obtain ⟨denom, a⟩ := c
  have htl : (intText a).length < 2 ^ 64 := by
    have := intText_length_le a ha
    have e : (2:Nat) ^ 64 = 18446744073709551616 := by decide
    omega
  have h2 := decodeLenPrefixed_lenPrefixed (intText a) [] htl
  rw [List.append_nil] at h2
  cases denom with
  | nil =>
    rw [encodeCoin_nil]
    delta decodeCoin
    simp only [h2, parseIntText_intText a ha, Option.map_some]
  | cons x xs =>
    rw [encodeCoin_cons]
    have h1 := decodeLenPrefixed_lenPrefixed (x :: xs) (18 :: lenPrefixed (intText a)) hl
    delta decodeCoin
    simp only [h1, h2, parseIntText_intText a ha, Option.map_some]

theorem lenPrefixed_length_le (bs : Bytes) (h : bs.length < 2 ^ 64) : (lenPrefixed bs).length ≤ bs.length + 10 := by
  have := uvarint_length_le_ten _ h
  simp [lenPrefixed]; omega

theorem encodeCoin_length_le (c : Coin) (ha : c.amount.natAbs < 2 ^ 255) (hl : c.denom.length < 2 ^ 64) :
    (encodeCoin c).length ≤ c.denom.length + 100 := by
  obtain ⟨denom, a⟩ := c
  have h0 := intText_length_le a ha
  have e : (2:Nat) ^ 64 = 18446744073709551616 := by decide
  have h1 := lenPrefixed_length_le (intText a) (by omega)
  cases denom with
  | nil => rw [encodeCoin_nil]; simp; omega
  | cons x xs =>
    have h2 := lenPrefixed_length_le (x :: xs) hl
    rw [encodeCoin_cons]; simp at h2 ⊢; omega

theorem encodeCoins_cons (c : Coin) (cs : List Coin) :
    encodeCoins (c :: cs) = 10 :: (lenPrefixed (encodeCoin c) ++ encodeCoins cs) := by
  simp [encodeCoins, fieldKey_1_2]

theorem encodeCoins_length_ge (cs : List Coin) : cs.length ≤ (encodeCoins cs).length := by
  induction cs with
  | nil => simp
  | cons c cs ih => rw [encodeCoins_cons]; simp; omega

theorem decodeCoinsAux_encodeCoins (cs : List Coin)
    (ha : ∀ c ∈ cs, c.amount.natAbs < 2 ^ 255 ∧ c.denom.length < 2 ^ 64 ∧ (encodeCoin c).length < 2 ^ 64) :
    ∀ fuel, cs.length ≤ fuel → decodeCoinsAux fuel (encodeCoins cs) = some cs := by
  induction cs with
  | nil => intro fuel _; cases fuel <;> simp [encodeCoins, decodeCoinsAux]
  | cons c cs ih =>
    intro fuel hf
    cases fuel with
    | zero => simp at hf
    | succ f =>
      obtain ⟨h1, h2, h3⟩ := ha c List.mem_cons_self
      rw [encodeCoins_cons]
      simp only [decodeCoinsAux, decodeLenPrefixed_lenPrefixed _ _ h3, decodeCoin_encodeCoin c h1 h2,
        ih (fun z hz => ha z (List.mem_cons_of_mem _ hz)) f (by simpa using hf)]

/-! ### the sortable time rendering -/

/-- field widths are respected -/
def CivilFits (c : Civil) : Prop :=
  c.year.toNat < 10 ^ 4 ∧ c.month < 10 ^ 2 ∧ c.day < 10 ^ 2 ∧ c.hour < 10 ^ 2 ∧ c.minute < 10 ^ 2 ∧ c.second < 10 ^ 2 ∧
    c.nano < 10 ^ 9

theorem formatCivil_eq (c : Civil) : formatCivil c =
    pad 4 c.year.toNat ++ (45 :: (pad 2 c.month ++ (45 :: (pad 2 c.day ++ (84 :: (pad 2 c.hour ++ (58 :: (pad 2 c.minute ++
      (58 :: (pad 2 c.second ++ (46 :: pad 9 c.nano))))))))))) := by
  simp [formatCivil]

theorem formatCivil_length_of_fits (c : Civil) (hc : CivilFits c) : (formatCivil c).length = 29 := by
  obtain ⟨h1, h2, h3, h4, h5, h6, h7⟩ := hc
  rw [formatCivil_eq]
  simp only [List.length_append, List.length_cons, pad_length 4 _ (by decide) h1, pad_length 2 _ (by decide) h2,
    pad_length 2 _ (by decide) h3, pad_length 2 _ (by decide) h4, pad_length 2 _ (by decide) h5,
    pad_length 2 _ (by decide) h6, pad_length 9 _ (by decide) h7]

theorem blt_pad_append (w n m : Nat) (u v : Bytes) (hw : 0 < w) (hn : n < 10 ^ w) (hm : m < 10 ^ w) :
    blt (pad w n ++ u) (pad w m ++ v) = (decide (n < m) || (decide (n = m) && blt u v)) := by
  rw [blt_append_of_length_eq _ _ _ _ (by rw [pad_length w n hw hn, pad_length w m hw hm]), blt_pad w n m hw hn hm, pad_beq]

theorem blt_formatCivil (c d : Civil) (hc : CivilFits c) (hd : CivilFits d) :
    blt (formatCivil c) (formatCivil d) =
      (decide (c.year.toNat < d.year.toNat) || (decide (c.year.toNat = d.year.toNat) &&
      (decide (c.month < d.month) || (decide (c.month = d.month) &&
      (decide (c.day < d.day) || (decide (c.day = d.day) &&
      (decide (c.hour < d.hour) || (decide (c.hour = d.hour) &&
      (decide (c.minute < d.minute) || (decide (c.minute = d.minute) &&
      (decide (c.second < d.second) || (decide (c.second = d.second) &&
      decide (c.nano < d.nano))))))))))))) := by
  obtain ⟨h1, h2, h3, h4, h5, h6, h7⟩ := hc
  obtain ⟨g1, g2, g3, g4, g5, g6, g7⟩ := hd
  rw [formatCivil_eq, formatCivil_eq]
  rw [blt_pad_append 4 _ _ _ _ (by decide) h1 g1, blt_cons_same,
    blt_pad_append 2 _ _ _ _ (by decide) h2 g2, blt_cons_same,
    blt_pad_append 2 _ _ _ _ (by decide) h3 g3, blt_cons_same,
    blt_pad_append 2 _ _ _ _ (by decide) h4 g4, blt_cons_same,
    blt_pad_append 2 _ _ _ _ (by decide) h5 g5, blt_cons_same,
    blt_pad_append 2 _ _ _ _ (by decide) h6 g6, blt_cons_same,
    blt_pad 9 _ _ (by decide) h7 g7]

theorem formatCivil_inj_of_fits (c d : Civil) (hc : CivilFits c) (hd : CivilFits d) (hyc : 0 ≤ c.year) (hyd : 0 ≤ d.year)
    (h : formatCivil c = formatCivil d) : c = d := by
  obtain ⟨h1, h2, h3, h4, h5, h6, h7⟩ := hc
  obtain ⟨g1, g2, g3, g4, g5, g6, g7⟩ := hd
  rw [formatCivil_eq, formatCivil_eq] at h
  have pl : ∀ w n m, 0 < w → n < 10 ^ w → m < 10 ^ w → (pad w n).length = (pad w m).length := by
    intro w n m hw hn hm; rw [pad_length w n hw hn, pad_length w m hw hm]
  obtain ⟨e1, h⟩ := List.append_inj h (pl 4 _ _ (by decide) h1 g1)
  rw [List.cons.injEq] at h
  obtain ⟨e2, h⟩ := List.append_inj h.2 (pl 2 _ _ (by decide) h2 g2)
  rw [List.cons.injEq] at h
  obtain ⟨e3, h⟩ := List.append_inj h.2 (pl 2 _ _ (by decide) h3 g3)
  rw [List.cons.injEq] at h
  obtain ⟨e4, h⟩ := List.append_inj h.2 (pl 2 _ _ (by decide) h4 g4)
  rw [List.cons.injEq] at h
  obtain ⟨e5, h⟩ := List.append_inj h.2 (pl 2 _ _ (by decide) h5 g5)
  rw [List.cons.injEq] at h
  obtain ⟨e6, h⟩ := List.append_inj h.2 (pl 2 _ _ (by decide) h6 g6)
  rw [List.cons.injEq] at h
  have e7 := h.2
  have e1 := pad_inj _ _ _ e1
  have e2 := pad_inj _ _ _ e2
  have e3 := pad_inj _ _ _ e3
  have e4 := pad_inj _ _ _ e4
  have e5 := pad_inj _ _ _ e5
  have e6 := pad_inj _ _ _ e6
  have e7 := pad_inj _ _ _ e7
  obtain ⟨cy, cm, cd, ch, cmi, cs, cn⟩ := c
  obtain ⟨dy, dm, dd, dh, dmi, ds, dn⟩ := d
  simp only at *
  subst e2 e3 e4 e5 e6 e7
  have : cy = dy := by omega
  subst this
  rfl

/-! ### over-long payloads are refused (used for the witness that `coins_roundtrip` needs its bound) -/

theorem decodeUvarintAux_uvarint_some (n : Nat) :
    ∀ (fuel shift acc : Nat) (rest : Bytes) (v : Nat) (r : Bytes),
      decodeUvarintAux fuel shift acc (uvarint n ++ rest) = some (v, r) → v = acc + n * 2 ^ shift ∧ v < 2 ^ 64 := by
  induction n using Nat.strongRecOn with
  | _ n ih =>
    intro fuel shift acc rest v r hdec
    by_cases h : n < 128
    · rw [uvarint_small h] at hdec
      cases fuel with
      | zero => simp [decodeUvarintAux] at hdec
      | succ f =>
        simp only [List.cons_append, List.nil_append, decodeUvarintAux, h, if_true] at hdec
        split at hdec
        · simp only [Option.some.injEq, Prod.mk.injEq] at hdec
          obtain ⟨rfl, _⟩ := hdec
          exact ⟨rfl, by assumption⟩
        · simp at hdec
    · rw [uvarint_big h] at hdec
      cases fuel with
      | zero => simp [decodeUvarintAux] at hdec
      | succ f =>
        have hb : ¬ (n % 128 + 128 < 128) := by omega
        have e : acc + (n % 128) * 2 ^ shift + (n / 128) * 2 ^ (shift + 7) = acc + n * 2 ^ shift := by
          have h1 := Nat.div_add_mod n 128
          rw [Nat.pow_add]
          generalize 2 ^ shift = P at *
          generalize n / 128 = q at *
          generalize n % 128 = r at *
          subst h1
          grind
        simp only [List.cons_append, decodeUvarintAux, hb, if_false, Nat.add_sub_cancel] at hdec
        have := ih (n / 128) (by omega) f (shift + 7) _ rest v r hdec
        rw [e] at this
        exact this

theorem decodeUvarint_uvarint_big (n : Nat) (h : 2 ^ 64 ≤ n) (rest : Bytes) :
    decodeUvarint (uvarint n ++ rest) = none := by
  cases hd : decodeUvarint (uvarint n ++ rest) with
  | none => rfl
  | some p =>
    obtain ⟨v, r⟩ := p
    have := decodeUvarintAux_uvarint_some n 10 0 0 rest v r hd
    simp only [Nat.pow_zero, Nat.mul_one, Nat.zero_add] at this
    omega

theorem decodeLenPrefixed_lenPrefixed_big (bs rest : Bytes) (h : 2 ^ 64 ≤ bs.length) :
    decodeLenPrefixed (lenPrefixed bs ++ rest) = none := by
  unfold decodeLenPrefixed lenPrefixed
  rw [List.append_assoc, decodeUvarint_uvarint_big _ h]

theorem encodeCoin_length_gt (c : Coin) : c.denom.length < (encodeCoin c).length := by
  obtain ⟨denom, a⟩ := c
  cases denom with
  | nil => rw [encodeCoin_nil]; simp
  | cons x xs => rw [encodeCoin_cons]; simp [lenPrefixed]; omega

theorem decodeCoins_singleton_big (c : Coin) (h : 2 ^ 64 ≤ (encodeCoin c).length) :
    decodeCoins (encodeCoins [c]) = none := by
  unfold decodeCoins
  rw [encodeCoins_cons]
  simp only [List.length_cons, decodeCoinsAux, decodeLenPrefixed_lenPrefixed_big _ _ h]

/-! ### flat structs of length-delimited fields -/

theorem fieldKey_small (num : Nat) (h : num < 16) : fieldKey num 2 = [num * 8 + 2] := by
  unfold fieldKey; exact uvarint_small (by omega)

/-- what `encodeFields` starts with: nothing, or the key of a field at or after `num` -/
theorem encodeFields_head (num : Nat) (fs : List Bytes) (h : num + fs.length ≤ 16) :
    encodeFields num fs = [] ∨ ∃ j t, num ≤ j ∧ j < 16 ∧ encodeFields num fs = (j * 8 + 2) :: t := by
  induction fs generalizing num with
  | nil => left; rfl
  | cons b rest ih =>
    simp only [List.length_cons] at h
    unfold encodeFields
    by_cases hb : b.isEmpty = true
    · simp only [hb, if_true, List.nil_append]
      rcases ih (num + 1) (by omega) with e | ⟨j, t, h1, h2, e⟩
      · left; exact e
      · right; exact ⟨j, t, by omega, h2, e⟩
    · right
      simp only [hb, Bool.false_eq_true, if_false]
      rw [fieldKey_small num (by omega)]
      exact ⟨num, lenPrefixed b ++ encodeFields (num + 1) rest, Nat.le_refl _, by omega, by simp⟩

theorem decodeFields_encodeFields (num : Nat) (fs : List Bytes) (h : num + fs.length ≤ 16)
    (hl : ∀ b ∈ fs, b.length < 2 ^ 64) : decodeFields num fs.length (encodeFields num fs) = some fs := by
  induction fs generalizing num with
  | nil => simp [encodeFields, decodeFields]
  | cons b rest ih =>
    simp only [List.length_cons] at h
    have ih' := ih (num + 1) (by omega) (fun x hx => hl x (by simp [hx]))
    simp only [List.length_cons]
    by_cases hb : b.isEmpty = true
    · have hb' : b = [] := List.isEmpty_iff.1 hb
      subst hb'
      have e : encodeFields num ([] :: rest) = encodeFields (num + 1) rest := by simp [encodeFields]
      rw [e]
      rcases encodeFields_head (num + 1) rest (by omega) with e0 | ⟨j, t, h1, h2, e1⟩
      · rw [e0] at ih' ⊢
        simp only [decodeFields, ih', Option.map_some]
      · rw [e1] at ih' ⊢
        have hne : ¬ (j * 8 + 2 = num * 8 + 2) := by omega
        simp only [decodeFields, hne, if_false, ih', Option.map_some]
    · have hb2 : b.isEmpty = false := by simpa using hb
      have e : encodeFields num (b :: rest) = (num * 8 + 2) :: (lenPrefixed b ++ encodeFields (num + 1) rest) := by
        simp [encodeFields, hb2, fieldKey_small num (by omega)]
      rw [e]
      have h1 := decodeLenPrefixed_lenPrefixed b (encodeFields (num + 1) rest) (hl b (by simp))
      simp only [decodeFields, if_true, h1, hb2, Bool.false_eq_true, if_false, ih', Option.map_some]

/-! ### structs with length-delimited and varint fields -/

theorem fieldKey0_small (num : Nat) (h : num < 16) : fieldKey num 0 = [num * 8] := by
  unfold fieldKey; simp only [Nat.add_zero]; exact uvarint_small (by omega)

/-- the range a field must stay in for the round trip: fewer than 2^64 bytes, a varint below 2^64 -/
def Fld.ok : Fld → Prop
  | .bytes b => b.length < 2 ^ 64
  | .uint n => n < 2 ^ 64

/-- what `encodeStruct` starts with: nothing, or the key byte of a field at or after `num` -/
theorem encodeStruct_head (num : Nat) (fs : List Fld) (h : num + fs.length ≤ 16) :
    encodeStruct num fs = [] ∨ ∃ j t, num ≤ j ∧ j < 16 ∧ (encodeStruct num fs = (j * 8 + 2) :: t ∨ encodeStruct num fs = (j * 8) :: t) := by
  induction fs generalizing num with
  | nil => left; rfl
  | cons f rest ih =>
    simp only [List.length_cons] at h
    unfold encodeStruct
    have hrec := ih (num + 1) (by omega)
    have lift : encodeStruct (num + 1) rest = [] ∨ ∃ j t, num ≤ j ∧ j < 16 ∧
        (encodeStruct (num + 1) rest = (j * 8 + 2) :: t ∨ encodeStruct (num + 1) rest = (j * 8) :: t) := by
      rcases hrec with e | ⟨j, t, h1, h2, e⟩
      · left; exact e
      · right; exact ⟨j, t, by omega, h2, e⟩
    cases f with
    | bytes b =>
      by_cases hb : b.isEmpty = true
      · simp only [encodeFld, hb, if_true, List.nil_append]; exact lift
      · right
        simp only [encodeFld, hb, Bool.false_eq_true, if_false]
        rw [fieldKey_small num (by omega)]
        exact ⟨num, lenPrefixed b ++ encodeStruct (num + 1) rest, Nat.le_refl _, by omega, Or.inl (by simp)⟩
    | uint n =>
      by_cases hn : n = 0
      · simp only [encodeFld, hn, if_true, List.nil_append]; exact lift
      · right
        simp only [encodeFld, hn, if_false]
        rw [fieldKey0_small num (by omega)]
        exact ⟨num, uvarint n ++ encodeStruct (num + 1) rest, Nat.le_refl _, by omega, Or.inr (by simp)⟩

theorem decodeStruct_encodeStruct (num : Nat) (fs : List Fld) (h : num + fs.length ≤ 16) (hok : ∀ f ∈ fs, Fld.ok f) :
    decodeStruct num (fs.map Fld.kind) (encodeStruct num fs) = some fs := by
  induction fs generalizing num with
  | nil => simp [encodeStruct, decodeStruct]
  | cons f rest ih =>
    simp only [List.length_cons] at h
    have ih' := ih (num + 1) (by omega) (fun x hx => hok x (by simp [hx]))
    have hf := hok f (by simp)
    -- skipping an omitted field: the next byte, if any, is the key of a later field
    have skipB : decodeStruct num (true :: rest.map Fld.kind) (encodeStruct (num + 1) rest) = some (Fld.bytes [] :: rest) := by
      rcases encodeStruct_head (num + 1) rest (by omega) with e0 | ⟨j, t, h1, h2, e1 | e1⟩
      · rw [e0] at ih' ⊢; simp only [decodeStruct, ih', Option.map_some]
      · rw [e1] at ih' ⊢
        have hne : ¬ (j * 8 + 2 = num * 8 + 2) := by omega
        simp only [decodeStruct, hne, if_false, ih', Option.map_some]
      · rw [e1] at ih' ⊢
        have hne : ¬ (j * 8 = num * 8 + 2) := by omega
        simp only [decodeStruct, hne, if_false, ih', Option.map_some]
    have skipU : decodeStruct num (false :: rest.map Fld.kind) (encodeStruct (num + 1) rest) = some (Fld.uint 0 :: rest) := by
      rcases encodeStruct_head (num + 1) rest (by omega) with e0 | ⟨j, t, h1, h2, e1 | e1⟩
      · rw [e0] at ih' ⊢; simp only [decodeStruct, ih', Option.map_some]
      · rw [e1] at ih' ⊢
        have hne : ¬ (j * 8 + 2 = num * 8) := by omega
        simp only [decodeStruct, hne, if_false, ih', Option.map_some]
      · rw [e1] at ih' ⊢
        have hne : ¬ (j * 8 = num * 8) := by omega
        simp only [decodeStruct, hne, if_false, ih', Option.map_some]
    cases f with
    | bytes b =>
      simp only [List.map_cons, Fld.kind]
      by_cases hb : b.isEmpty = true
      · have hb' : b = [] := List.isEmpty_iff.1 hb
        subst hb'
        have e : encodeStruct num (Fld.bytes [] :: rest) = encodeStruct (num + 1) rest := by simp [encodeStruct, encodeFld]
        rw [e]; exact skipB
      · have hb2 : b.isEmpty = false := by simpa using hb
        have e : encodeStruct num (Fld.bytes b :: rest) = (num * 8 + 2) :: (lenPrefixed b ++ encodeStruct (num + 1) rest) := by
          simp [encodeStruct, encodeFld, hb2, fieldKey_small num (by omega)]
        rw [e]
        have h1 := decodeLenPrefixed_lenPrefixed b (encodeStruct (num + 1) rest) hf
        simp only [decodeStruct, if_true, h1, hb2, Bool.false_eq_true, if_false, ih', Option.map_some]
    | uint n =>
      simp only [List.map_cons, Fld.kind]
      by_cases hn : n = 0
      · subst hn
        have e : encodeStruct num (Fld.uint 0 :: rest) = encodeStruct (num + 1) rest := by simp [encodeStruct, encodeFld]
        rw [e]; exact skipU
      · have e : encodeStruct num (Fld.uint n :: rest) = (num * 8) :: (uvarint n ++ encodeStruct (num + 1) rest) := by
          simp [encodeStruct, encodeFld, hn, fieldKey0_small num (by omega)]
        rw [e]
        have h1 := decodeUvarint_uvarint n hf (encodeStruct (num + 1) rest)
        simp only [decodeStruct, if_true, h1, hn, if_false, ih', Option.map_some]

/-! ### StdTx: an optional message, a repeated fee field, then a struct tail -/

theorem encodeFee_cons (c : Coin) (cs : List Coin) :
    encodeFee (c :: cs) = 18 :: (lenPrefixed (encodeCoin c) ++ encodeFee cs) := by
  have : fieldKey 2 2 = [18] := fieldKey_small 2 (by omega)
  simp [encodeFee, this]

theorem encodeFee_length_ge (cs : List Coin) : cs.length ≤ (encodeFee cs).length := by
  induction cs with
  | nil => simp [encodeFee]
  | cons c cs ih => rw [encodeFee_cons]; simp; omega

/-- the fee loop stops at the first byte that is not the key of field 2 -/
theorem decodeFeeAux_encodeFee (cs : List Coin) (tail : Bytes) (ht : ∀ t, tail ≠ 18 :: t)
    (ha : ∀ c ∈ cs, c.amount.natAbs < 2 ^ 255 ∧ c.denom.length < 2 ^ 64 ∧ (encodeCoin c).length < 2 ^ 64) :
    ∀ fuel, cs.length < fuel → decodeFeeAux fuel (encodeFee cs ++ tail) = some (cs, tail) := by
  induction cs with
  | nil =>
    intro fuel hf
    cases fuel with
    | zero => simp at hf
    | succ f =>
      simp only [encodeFee, List.flatMap_nil, List.nil_append]
      cases tail with
      | nil => simp [decodeFeeAux]
      | cons k r =>
        by_cases hk : k = 18
        · subst hk; exact absurd rfl (ht r)
        · unfold decodeFeeAux
          split
          all_goals first | rfl | (exfalso; simp_all)
  | cons c cs ih =>
    intro fuel hf
    cases fuel with
    | zero => simp at hf
    | succ f =>
      obtain ⟨h1, h2, h3⟩ := ha c List.mem_cons_self
      rw [encodeFee_cons]
      have e : (18 :: (lenPrefixed (encodeCoin c) ++ encodeFee cs)) ++ tail
          = 18 :: (lenPrefixed (encodeCoin c) ++ (encodeFee cs ++ tail)) := by simp
      rw [e]
      simp only [decodeFeeAux, decodeLenPrefixed_lenPrefixed _ _ h3, decodeCoin_encodeCoin c h1 h2,
        ih (fun z hz => ha z (List.mem_cons_of_mem _ hz)) f (by simpa using hf)]

theorem tail_head (tail : List Fld) (hl : 3 + tail.length ≤ 16) (x : Nat) (hx : x = 10 ∨ x = 18) :
    ∀ r, encodeStruct 3 tail ≠ x :: r := by
  intro r h
  rcases encodeStruct_head 3 tail hl with e | ⟨j, u, h1, h2, e | e⟩
  · rw [e] at h; cases h
  · rw [e] at h; simp only [List.cons.injEq] at h; omega
  · rw [e] at h; simp only [List.cons.injEq] at h; omega

def StdTxInRange (t : StdTxRec) : Prop :=
  t.msg.length < 2 ^ 64 ∧
  (∀ c ∈ t.fee, c.amount.natAbs < 2 ^ 255 ∧ c.denom.length < 2 ^ 63) ∧
  t.pk.length < 2 ^ 32 ∧ t.sig.length < 2 ^ 32 ∧ t.memo.length < 2 ^ 64 ∧
  -(2 : Int) ^ 63 ≤ t.entropy ∧ t.entropy < (2 : Int) ^ 63

theorem sigStruct_length (pk sg : Bytes) (h1 : pk.length < 2 ^ 32) (h2 : sg.length < 2 ^ 32) :
    (encodeStruct 1 [.bytes pk, .bytes sg]).length < 2 ^ 64 := by
  have e32 : (2:Nat) ^ 32 = 4294967296 := by decide
  have e64 : (2:Nat) ^ 64 = 18446744073709551616 := by decide
  have a := lenPrefixed_length_le pk (by omega)
  have b := lenPrefixed_length_le sg (by omega)
  simp only [encodeStruct, encodeFld, fieldKey_small 1 (by omega), fieldKey_small 2 (by omega)]
  split <;> split <;> simp <;> omega

theorem stdTxTail_ok (t : StdTxRec) (h : StdTxInRange t) : ∀ f ∈ stdTxTail t, Fld.ok f := by
  obtain ⟨_, _, h3, h4, h5, _, _⟩ := h
  intro f hf
  simp only [stdTxTail, List.mem_cons, List.not_mem_nil, or_false] at hf
  rcases hf with rfl | rfl | rfl
  · exact sigStruct_length t.pk t.sig h3 h4
  · exact h5
  · exact toU64_lt _

/-- the shared layout decodes back: optional field 1, the repeated coins, the tail -/
theorem decodeMFT_encodeMFT (m : Bytes) (fee : List Coin) (tail : List Fld) (hm : m.length < 2 ^ 64)
    (hf : ∀ c ∈ fee, c.amount.natAbs < 2 ^ 255 ∧ c.denom.length < 2 ^ 63)
    (hl : 3 + tail.length ≤ 16) (hok : ∀ f ∈ tail, Fld.ok f) :
    decodeMFT (tail.map Fld.kind) (encodeMFT m fee tail) = some (m, fee, tail) := by
  have hfee : ∀ c ∈ fee, c.amount.natAbs < 2 ^ 255 ∧ c.denom.length < 2 ^ 64 ∧ (encodeCoin c).length < 2 ^ 64 := by
    intro c hc
    obtain ⟨a, b⟩ := hf c hc
    have e63 : (2:Nat) ^ 63 = 9223372036854775808 := by decide
    have e64 : (2:Nat) ^ 64 = 18446744073709551616 := by decide
    have b' : c.denom.length < 2 ^ 64 := by omega
    have := encodeCoin_length_le c a b'
    exact ⟨a, b', by omega⟩
  have htail := decodeStruct_encodeStruct 3 tail hl hok
  have hrest18 : ∀ r, encodeStruct 3 tail ≠ 18 :: r := tail_head tail hl 18 (Or.inr rfl)
  have hfeeDec := decodeFeeAux_encodeFee fee (encodeStruct 3 tail) hrest18 hfee
  have hrest10 : ∀ r, encodeFee fee ++ encodeStruct 3 tail ≠ 10 :: r := by
    intro r hr
    cases fee with
    | nil => simp only [encodeFee, List.flatMap_nil, List.nil_append] at hr; exact tail_head tail hl 10 (Or.inl rfl) r hr
    | cons c cs => rw [encodeFee_cons] at hr; simp at hr
  have step1 : decodeOptBytes 10 (encodeMFT m fee tail) = some (m, encodeFee fee ++ encodeStruct 3 tail) := by
    unfold encodeMFT
    by_cases hme : m.isEmpty = true
    · have hm' : m = [] := List.isEmpty_iff.1 hme
      subst hm'
      simp only [encodeFld, List.isEmpty_nil, if_true, List.nil_append]
      cases hx : encodeFee fee ++ encodeStruct 3 tail with
      | nil => rfl
      | cons k r =>
        have : k ≠ 10 := fun e => hrest10 r (by rw [hx, e])
        simp [decodeOptBytes, this]
    · have hm2 : m.isEmpty = false := by simpa using hme
      simp only [encodeFld, hm2, Bool.false_eq_true, if_false, fieldKey_small 1 (by omega)]
      have := decodeLenPrefixed_lenPrefixed m (encodeFee fee ++ encodeStruct 3 tail) hm
      simp [decodeOptBytes, this, hm2]
  unfold decodeMFT
  rw [step1]
  simp only []
  rw [hfeeDec _ (by have := encodeFee_length_ge fee; simp; omega)]
  simp only [htail]

theorem decodeStdTxCore_encode (t : StdTxRec) (h : StdTxInRange t) :
    decodeStdTxCore (encodeStdTxCore t) = some (t.msg, t.fee, stdTxTail t) :=
  decodeMFT_encodeMFT t.msg t.fee (stdTxTail t) h.1 h.2.1 (by simp [stdTxTail]) (stdTxTail_ok t h)

end Posmint.Codec
