import Posmint.Lemmas.ChainInvA
import Posmint.Lemmas.ChainInvB
import Posmint.Lemmas.ChainInvC
import Posmint.Lemmas.ChainGenesis
/-!
The invariant holds at genesis and is preserved by every operation, hence in every reachable state.
-/
namespace Posmint.Chain

theorem genesis_inv (g : Genesis) (hg : GenesisOK g) : Inv (genesis g).1 :=
  ChainGenesis.genesis_inv' g hg

theorem step_inv (s : State) (op : Op) (r : State × List (Addr × Int) × Bool)
    (h : Inv s) (hs : step s op = some r) : Inv r.1 :=
  ⟨step_wf s op r h hs, step_supplyOK s op r h hs, step_poolBacks s op r h hs, step_indexExact s op r h hs,
   step_queueExact s op r h hs, step_unstakedEmpty s op r h hs, C.step_signOK s op r h hs, step_prevOK s op r h hs⟩

theorem run_inv (s : State) (ops : List Op) (s' : State) (h : Inv s) (hr : run s ops = some s') : Inv s' := by
  induction ops generalizing s with
  | nil => simp [run] at hr; subst hr; exact h
  | cons op rest ih =>
    simp only [run] at hr
    cases hstep : step s op with
    | none => simp [hstep] at hr
    | some r => simp [hstep] at hr; exact ih r.1 (step_inv s op r h hstep) hr

/-- every state reachable from a well-formed genesis satisfies the invariant -/
theorem reachable_inv (g : Genesis) (hg : GenesisOK g) (ops : List Op) (s' : State)
    (hr : run (genesis g).1 ops = some s') : Inv s' :=
  run_inv _ ops s' (genesis_inv g hg) hr

end Posmint.Chain
