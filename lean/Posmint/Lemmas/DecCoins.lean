import Posmint.Model.DecCoins
import Posmint.Lemmas.Coins
/-!
Helper lemmas about the `DecCoins` model.  The merge loop is the one of `Coins.safeAdd` with `decAdd`
in the place of `intAdd`; the two inductions below are the ones of `Lemmas/Coins.lean` over it.
-/
namespace Posmint.DecCoins
open Posmint.Arith Posmint.Coins

theorem safeAdd_specL (a b c : Coins) (ha : SortedL a) (hb : SortedL b) (h : safeAdd a b = some c) :
    SortedL c ∧ (∀ x ∈ c, x.2 ≠ 0) ∧ ∀ d, amtL c d = amtL a d + amtL b d := by
  fun_induction safeAdd a b generalizing c with
  | case1 b =>
    simp only [Option.some.injEq] at h; subst h
    exact ⟨sortedL_removeZero hb, removeZero_nonzero _, fun d => by simp [amtL_removeZero hb]⟩
  | case2 a ra =>
    simp only [Option.some.injEq] at h; subst h
    exact ⟨sortedL_removeZero ha, removeZero_nonzero _, fun d => by simp [amtL_removeZero ha]⟩
  | case3 a ra b rb hlt ih =>
    simp only [Option.map_eq_some_iff] at h
    obtain ⟨r, hr, rfl⟩ := h
    have ha' := (sortedL_cons _ _).1 ha
    have hb' := (sortedL_cons _ _).1 hb
    obtain ⟨i1, i2, i3⟩ := ih r ha'.2 hb hr
    have hlow : ∀ x ∈ r, a.1 < x.1 := by
      intro x hx
      rcases denoms_of_amtL_add i1 i2 i3 x hx with ⟨y, hy, e⟩ | ⟨y, hy, e⟩
      · rw [← e]; exact ha'.1 y hy
      · rw [← e]
        rcases List.mem_cons.1 hy with rfl | hy
        · exact hlt
        · exact String.lt_trans hlt (hb'.1 y hy)
    have hbz : amtL (b :: rb) a.1 = 0 := amtL_eq_zero_of_lt (by
      intro x hx
      rcases List.mem_cons.1 hx with rfl | hx
      · exact hlt
      · exact String.lt_trans hlt (hb'.1 x hx))
    by_cases hz : a.2 = 0
    · simp only [hz, beq_self_eq_true, if_true]
      refine ⟨i1, i2, fun d => ?_⟩
      rw [i3, amtL_cons a ra]
      split
      · next e => subst e; rw [amtL_eq_zero_of_lt ha'.1, hz]
      · rfl
    · have : (a.2 == 0) = false := by simpa using hz
      simp only [this, Bool.false_eq_true, ↓reduceIte]
      refine ⟨(sortedL_cons _ _).2 ⟨hlow, i1⟩, ?_, fun d => ?_⟩
      · intro x hx
        rcases List.mem_cons.1 hx with rfl | hx
        · exact hz
        · exact i2 x hx
      · rw [amtL_cons, amtL_cons a ra, i3]
        split
        · next e => subst e; rw [hbz]; simp
        · rfl
  | case4 a ra b rb hlt heq hnone =>
    simp at h
  | case5 a ra b rb hlt heq s hs ih =>
    simp only [Option.map_eq_some_iff] at h
    obtain ⟨r, hr, rfl⟩ := h
    have heq : a.1 = b.1 := by simpa using heq
    have ha' := (sortedL_cons _ _).1 ha
    have hb' := (sortedL_cons _ _).1 hb
    obtain ⟨i1, i2, i3⟩ := ih r ha'.2 hb'.2 hr
    have hlow : ∀ x ∈ r, a.1 < x.1 := by
      intro x hx
      rcases denoms_of_amtL_add i1 i2 i3 x hx with ⟨y, hy, e⟩ | ⟨y, hy, e⟩
      · rw [← e]; exact ha'.1 y hy
      · rw [← e, heq]; exact hb'.1 y hy
    have hs' : s = a.2 + b.2 := by
      unfold decAdd decCheck at hs; split at hs
      · cases hs
      · simpa using hs.symm
    have hra : amtL ra a.1 = 0 := amtL_eq_zero_of_lt ha'.1
    have hrb : amtL rb a.1 = 0 := amtL_eq_zero_of_lt (heq ▸ hb'.1)
    by_cases hz : s = 0
    · simp only [hz, beq_self_eq_true, if_true]
      refine ⟨i1, i2, fun d => ?_⟩
      rw [i3, amtL_cons a ra, amtL_cons b rb, ← heq]
      split
      · next e => subst e; rw [hra, hrb]; omega
      · rfl
    · have : (s == 0) = false := by simpa using hz
      simp only [this, Bool.false_eq_true, ↓reduceIte]
      refine ⟨(sortedL_cons _ _).2 ⟨hlow, i1⟩, ?_, fun d => ?_⟩
      · intro x hx
        rcases List.mem_cons.1 hx with rfl | hx
        · exact hz
        · exact i2 x hx
      · rw [amtL_cons, amtL_cons a ra, amtL_cons b rb, ← heq, i3]
        split
        · exact hs'
        · rfl
  | case6 a ra b rb hlt hne ih =>
    simp only [Option.map_eq_some_iff] at h
    obtain ⟨r, hr, rfl⟩ := h
    have hne : a.1 ≠ b.1 := by simpa using hne
    have hgt : b.1 < a.1 := by
      rcases slt_trichot a.1 b.1 with h | h | h
      · exact absurd h hlt
      · exact absurd h hne
      · exact h
    have ha' := (sortedL_cons _ _).1 ha
    have hb' := (sortedL_cons _ _).1 hb
    obtain ⟨i1, i2, i3⟩ := ih r ha hb'.2 hr
    have hlow : ∀ x ∈ r, b.1 < x.1 := by
      intro x hx
      rcases denoms_of_amtL_add i1 i2 i3 x hx with ⟨y, hy, e⟩ | ⟨y, hy, e⟩
      · rw [← e]
        rcases List.mem_cons.1 hy with rfl | hy
        · exact hgt
        · exact String.lt_trans hgt (ha'.1 y hy)
      · rw [← e]; exact hb'.1 y hy
    have haz : amtL (a :: ra) b.1 = 0 := amtL_eq_zero_of_lt (by
      intro x hx
      rcases List.mem_cons.1 hx with rfl | hx
      · exact hgt
      · exact String.lt_trans hgt (ha'.1 x hx))
    by_cases hz : b.2 = 0
    · simp only [hz, beq_self_eq_true, if_true]
      refine ⟨i1, i2, fun d => ?_⟩
      rw [i3, amtL_cons b rb]
      split
      · next e => subst e; rw [amtL_eq_zero_of_lt hb'.1, hz]
      · rfl
    · have : (b.2 == 0) = false := by simpa using hz
      simp only [this, Bool.false_eq_true, ↓reduceIte]
      refine ⟨(sortedL_cons _ _).2 ⟨hlow, i1⟩, ?_, fun d => ?_⟩
      · intro x hx
        rcases List.mem_cons.1 hx with rfl | hx
        · exact hz
        · exact i2 x hx
      · rw [amtL_cons, amtL_cons b rb, i3]
        split
        · next e => subst e; rw [haz]; simp
        · rfl

theorem safeAdd_none_iffL (a b : Coins) (ha : SortedL a) (hb : SortedL b) :
    safeAdd a b = none ↔ ∃ x ∈ a, ∃ y ∈ b, x.1 = y.1 ∧ decAdd x.2 y.2 = none := by
  fun_induction safeAdd a b with
  | case1 b => simp
  | case2 a ra => simp
  | case3 a ra b rb hlt ih =>
    have ha' := (sortedL_cons _ _).1 ha
    have hb' := (sortedL_cons _ _).1 hb
    rw [Option.map_eq_none_iff, ih ha'.2 hb]
    constructor
    · rintro ⟨x, hx, y, hy, h⟩; exact ⟨x, by simp [hx], y, hy, h⟩
    · rintro ⟨x, hx, y, hy, h1, h2⟩
      rcases List.mem_cons.1 hx with rfl | hx
      · exfalso
        rcases List.mem_cons.1 hy with rfl | hy
        · exact slt_ne hlt h1
        · exact slt_ne (String.lt_trans hlt (hb'.1 y hy)) h1
      · exact ⟨x, hx, y, hy, h1, h2⟩
  | case4 a ra b rb hlt heq hnone =>
    have heq : a.1 = b.1 := by simpa using heq
    simp only [true_iff]
    exact ⟨a, by simp, b, by simp, heq, hnone⟩
  | case5 a ra b rb hlt heq s hs ih =>
    have heq : a.1 = b.1 := by simpa using heq
    have ha' := (sortedL_cons _ _).1 ha
    have hb' := (sortedL_cons _ _).1 hb
    rw [Option.map_eq_none_iff, ih ha'.2 hb'.2]
    constructor
    · rintro ⟨x, hx, y, hy, h⟩; exact ⟨x, by simp [hx], y, by simp [hy], h⟩
    · rintro ⟨x, hx, y, hy, h1, h2⟩
      rcases List.mem_cons.1 hx with rfl | hx
      · rcases List.mem_cons.1 hy with rfl | hy
        · rw [hs] at h2; cases h2
        · exact absurd (heq ▸ h1) (slt_ne (hb'.1 y hy))
      · rcases List.mem_cons.1 hy with rfl | hy
        · exact absurd (heq ▸ h1.symm) (slt_ne (ha'.1 x hx))
        · exact ⟨x, hx, y, hy, h1, h2⟩
  | case6 a ra b rb hlt hne ih =>
    have hne : a.1 ≠ b.1 := by simpa using hne
    have hgt : b.1 < a.1 := by
      rcases slt_trichot a.1 b.1 with h | h | h
      · exact absurd h hlt
      · exact absurd h hne
      · exact h
    have ha' := (sortedL_cons _ _).1 ha
    have hb' := (sortedL_cons _ _).1 hb
    rw [Option.map_eq_none_iff, ih ha hb'.2]
    constructor
    · rintro ⟨x, hx, y, hy, h⟩; exact ⟨x, hx, y, by simp [hy], h⟩
    · rintro ⟨x, hx, y, hy, h1, h2⟩
      rcases List.mem_cons.1 hy with rfl | hy
      · exfalso
        rcases List.mem_cons.1 hx with rfl | hx
        · exact hne h1
        · exact slt_ne' (String.lt_trans hgt (ha'.1 x hx)) h1
      · exact ⟨x, hx, y, hy, h1, h2⟩


/-! ### the accumulate-through-Add loops -/

/-- what a loop over `cs` adds to the amount of denomination `d` when every amount goes through `g` -/
def contrib (g : Int → Int) : Coins → String → Int
  | [], _ => 0
  | c :: rest, d => (if c.1 = d then g c.2 else 0) + contrib g rest d

theorem contrib_eq_zero {g : Int → Int} {cs : Coins} {d : String} (h : ∀ x ∈ cs, x.1 ≠ d) : contrib g cs d = 0 := by
  induction cs with
  | nil => rfl
  | cons c cs ih =>
    simp only [contrib, if_neg (h c (by simp))]
    rw [ih fun x hx => h x (by simp [hx])]; rfl

/-- on a set sorted by denomination the loop contributes `g` of the set's amount -/
theorem contrib_sorted {g : Int → Int} (hg : g 0 = 0) {cs : Coins} (hs : SortedL cs) (d : String) :
    contrib g cs d = g (amtL cs d) := by
  induction cs with
  | nil => simp [contrib, hg]
  | cons c cs ih =>
    rw [sortedL_cons] at hs
    simp only [contrib, amtL_cons]
    by_cases e : c.1 = d
    · subst e
      simp only [if_true]
      rw [contrib_eq_zero fun x hx => slt_ne' (hs.1 x hx)]; simp
    · simp only [if_neg e]; rw [ih hs.2]; simp

theorem amtL_single (k : String) (p : Int) (d : String) : amtL [(k, p)] d = if k = d then p else 0 := by
  rw [amtL_cons]; simp

theorem sortedL_single (c : Coin) : SortedL [c] := by simp [SortedL]

theorem scaleFrom_specL (f : Int → Option Int) (res cs r : Coins) (hres : SortedL res) (hz : ∀ x ∈ res, x.2 ≠ 0)
    (h : scaleFrom f res cs = some r) :
    SortedL r ∧ (∀ x ∈ r, x.2 ≠ 0) ∧ (∀ c ∈ cs, ∃ p, f c.2 = some p) ∧
      ∀ d, amtL r d = amtL res d + contrib (fun x => (f x).getD 0) cs d := by
  induction cs generalizing res with
  | nil =>
    simp only [scaleFrom, Option.some.injEq] at h; subst h
    exact ⟨hres, hz, by simp, fun d => by simp [contrib]⟩
  | cons c rest ih =>
    unfold scaleFrom at h
    cases hf : f c.2 with
    | none => simp [hf] at h
    | some p =>
      simp only [hf] at h
      by_cases hp : p = 0
      · subst hp
        simp only [beq_self_eq_true, if_true] at h
        obtain ⟨i1, i2, i3, i4⟩ := ih res hres hz h
        refine ⟨i1, i2, ?_, fun d => ?_⟩
        · intro x hx
          rcases List.mem_cons.1 hx with rfl | hx
          · exact ⟨0, hf⟩
          · exact i3 x hx
        · rw [i4 d]; simp [contrib, hf]
      · have hp' : (p == 0) = false := by simpa using hp
        simp only [hp', Bool.false_eq_true, if_false] at h
        cases hadd : safeAdd res [(c.1, p)] with
        | none => simp [hadd] at h
        | some res' =>
          simp only [hadd] at h
          obtain ⟨a1, a2, a3⟩ := safeAdd_specL res [(c.1, p)] res' hres (sortedL_single _) hadd
          obtain ⟨i1, i2, i3, i4⟩ := ih res' a1 a2 h
          refine ⟨i1, i2, ?_, fun d => ?_⟩
          · intro x hx
            rcases List.mem_cons.1 hx with rfl | hx
            · exact ⟨p, hf⟩
            · exact i3 x hx
          · rw [i4 d, a3 d, amtL_single]
            simp only [contrib, hf, Option.getD_some]
            omega

theorem truncOne_some {c : Coin} {t r : Coin} (h : truncOne c = some (t, r)) :
    t = (c.1, chopTrunc c.2) ∧ r = (c.1, c.2 - chopTrunc c.2 * P) ∧ 0 ≤ chopTrunc c.2 ∧ 0 ≤ c.2 - chopTrunc c.2 * P ∧
      denomOK c.1 = true := by
  unfold truncOne at h
  cases h1 : decTruncateInt c.2 with
  | none => simp [h1] at h
  | some t' =>
    simp only [h1] at h
    have e1 : t' = chopTrunc c.2 := by
      unfold decTruncateInt intOfBig at h1; split at h1
      · cases h1
      · simpa using h1.symm
    cases h2 : decSub c.2 (decFromInt t') with
    | none => simp [h2] at h
    | some ch =>
      simp only [h2] at h
      have e2 : ch = c.2 - t' * P := by
        unfold decSub decCheck decFromInt at h2; split at h2
        · cases h2
        · simpa using h2.symm
      split at h
      · cases h
      · next hd =>
        split at h
        · cases h
        · next ht =>
          split at h
          · cases h
          · next hc =>
            simp only [Option.some.injEq, Prod.mk.injEq] at h
            subst e1 e2
            refine ⟨h.1.symm, h.2.symm, by omega, by omega, by simpa using hd⟩

theorem truncFrom_specL (w ch cs w' ch' : Coins) (hw : SortedL w) (hwz : ∀ x ∈ w, x.2 ≠ 0)
    (hc : SortedL ch) (hcz : ∀ x ∈ ch, x.2 ≠ 0) (h : truncFrom w ch cs = some (w', ch')) :
    SortedL w' ∧ (∀ x ∈ w', x.2 ≠ 0) ∧ SortedL ch' ∧ (∀ x ∈ ch', x.2 ≠ 0) ∧
      (∀ c ∈ cs, 0 ≤ chopTrunc c.2 ∧ 0 ≤ c.2 - chopTrunc c.2 * P ∧ denomOK c.1 = true) ∧
      ∀ d, amtL w' d = amtL w d + contrib chopTrunc cs d ∧
           amtL ch' d = amtL ch d + contrib (fun x => x - chopTrunc x * P) cs d := by
  induction cs generalizing w ch with
  | nil =>
    simp only [truncFrom, Option.some.injEq, Prod.mk.injEq] at h
    obtain ⟨rfl, rfl⟩ := h
    exact ⟨hw, hwz, hc, hcz, by simp, fun d => by simp [contrib]⟩
  | cons c rest ih =>
    unfold truncFrom at h
    split at h
    · cases h
    · next t r h1 =>
      obtain ⟨et, er, p1, p2, p3⟩ := truncOne_some h1
      split at h
      · cases h
      · next w1 h2 =>
        split at h
        · cases h
        · next ch1 h3 =>
          have hw1 : SortedL w1 ∧ (∀ x ∈ w1, x.2 ≠ 0) ∧ ∀ d, amtL w1 d = amtL w d + (if c.1 = d then chopTrunc c.2 else 0) := by
            by_cases hz : t.2 = 0
            · simp only [hz, beq_self_eq_true, if_true, Option.some.injEq] at h2
              subst h2
              refine ⟨hw, hwz, fun d => ?_⟩
              rw [et] at hz; simp only at hz; rw [hz]; simp
            · have : (t.2 == 0) = false := by simpa using hz
              simp only [this, Bool.false_eq_true, if_false] at h2
              obtain ⟨a1, a2, a3⟩ := Coins.safeAdd_specL w [t] w1 hw (sortedL_single _) h2
              refine ⟨a1, a2, fun d => ?_⟩
              rw [a3 d, et, amtL_single]
          have hc1 : SortedL ch1 ∧ (∀ x ∈ ch1, x.2 ≠ 0) ∧
              ∀ d, amtL ch1 d = amtL ch d + (if c.1 = d then c.2 - chopTrunc c.2 * P else 0) := by
            by_cases hz : r.2 = 0
            · simp only [hz, beq_self_eq_true, if_true, Option.some.injEq] at h3
              subst h3
              refine ⟨hc, hcz, fun d => ?_⟩
              rw [er] at hz; simp only at hz; rw [hz]; simp
            · have : (r.2 == 0) = false := by simpa using hz
              simp only [this, Bool.false_eq_true, if_false] at h3
              obtain ⟨a1, a2, a3⟩ := safeAdd_specL ch [r] ch1 hc (sortedL_single _) h3
              refine ⟨a1, a2, fun d => ?_⟩
              rw [a3 d, er, amtL_single]
          obtain ⟨i1, i2, i3, i4, i5, i6⟩ := ih w1 ch1 hw1.1 hw1.2.1 hc1.1 hc1.2.1 h
          refine ⟨i1, i2, i3, i4, ?_, fun d => ?_⟩
          · intro x hx
            rcases List.mem_cons.1 hx with rfl | hx
            · exact ⟨p1, p2, p3⟩
            · exact i5 x hx
          · obtain ⟨j1, j2⟩ := i6 d
            rw [j1, j2, hw1.2.2 d, hc1.2.2 d]
            simp only [contrib]
            constructor <;> omega

/-! ### Intersect -/

theorem intersectRaw_some (a b l : Coins) (hb : SortedL b) (h : intersectRaw a b = some l) :
    l = a.map (fun c => (c.1, minDec c.2 (amtL b c.1))) ∧ ∀ c ∈ a, denomOK c.1 = true := by
  induction a generalizing l with
  | nil => simp only [intersectRaw, Option.some.injEq] at h; subst h; simp
  | cons c rest ih =>
    unfold intersectRaw at h
    unfold amountOf at h
    rw [Coins.amountOf_specL b c.1 hb] at h
    by_cases hd : denomOK c.1 = true
    · simp only [hd, if_true, Option.map_eq_some_iff] at h
      obtain ⟨l', hl', rfl⟩ := h
      obtain ⟨e, hok⟩ := ih l' hl'
      refine ⟨by rw [e]; simp, ?_⟩
      intro x hx
      rcases List.mem_cons.1 hx with rfl | hx
      · exact hd
      · exact hok x hx
    · simp [hd] at h

theorem sortedL_map_snd {a : Coins} (g : Coin → Int) (h : SortedL a) : SortedL (a.map fun c => (c.1, g c)) := by
  unfold SortedL at *
  simpa [List.map_map, Function.comp_def] using h

end Posmint.DecCoins
