import Posmint.Model.ChainSpec
import Posmint.Lemmas.ChainFrame2
/-!
Preservation of the structural and token-accounting components of `Inv` by every operation.
Helper lemmas (association lists, sums, bank algebra) live in this file too.
-/
namespace Posmint.Chain
open F2


section AList
variable {α : Type}

@[simp] theorem aget_nil (q : Addr) : aget ([] : List (Addr × α)) q = none := rfl

theorem aget_cons (k : Addr) (v : α) (l : List (Addr × α)) (q : Addr) :
    aget ((k, v) :: l) q = if k = q then some v else aget l q := by
  simp [aget]

theorem keysAsc_nil : KeysAsc ([] : List (Addr × α)) := List.Pairwise.nil

theorem keysAsc_cons {k : Addr} {v : α} {l : List (Addr × α)} :
    KeysAsc ((k, v) :: l) ↔ (∀ e ∈ l, k < e.1) ∧ KeysAsc l := by
  simp [KeysAsc, List.pairwise_cons]

theorem KeysAsc.tail {e : Addr × α} {l : List (Addr × α)} (h : KeysAsc (e :: l)) : KeysAsc l :=
  (List.pairwise_cons.1 h).2

theorem aget_eq_none_of_forall_lt {l : List (Addr × α)} {k : Addr} (h : ∀ e ∈ l, k < e.1) :
    aget l k = none := by
  induction l with
  | nil => rfl
  | cons e l ih =>
    obtain ⟨k', v'⟩ := e
    have h1 := h (k', v') (by simp)
    simp only [aget_cons]
    have : k' ≠ k := by intro hh; subst hh; exact String.lt_irrefl _ h1
    simp [this]; exact ih (fun e he => h e (by simp [he]))

theorem mem_of_aget {l : List (Addr × α)} {a : Addr} {v : α} (h : aget l a = some v) : (a, v) ∈ l := by
  induction l with
  | nil => simp at h
  | cons e l ih =>
    obtain ⟨k', v'⟩ := e
    simp only [aget_cons] at h
    split at h
    · simp_all
    · simp [ih h]

theorem aget_of_mem {l : List (Addr × α)} (hl : KeysAsc l) {a : Addr} {v : α} (h : (a, v) ∈ l) :
    aget l a = some v := by
  induction l with
  | nil => simp at h
  | cons e l ih =>
    obtain ⟨k', v'⟩ := e
    rw [keysAsc_cons] at hl
    simp only [aget_cons]
    rcases List.mem_cons.1 h with h | h
    · simp_all
    · have := hl.1 _ h
      have hne : k' ≠ a := String.ne_of_lt this
      simp [hne, ih hl.2 h]

theorem aget_isSome_iff {l : List (Addr × α)} {a : Addr} : (aget l a).isSome ↔ ∃ v, (a, v) ∈ l ∧ aget l a = some v := by
  constructor
  · intro h; obtain ⟨v, hv⟩ := Option.isSome_iff_exists.1 h; exact ⟨v, mem_of_aget hv, hv⟩
  · rintro ⟨v, _, hv⟩; simp [hv]

theorem aget_aset (l : List (Addr × α)) (k : Addr) (v : α) (a : Addr) :
    aget (aset l k v) a = if a = k then some v else aget l a := by
  induction l with
  | nil => simp [aset, aget_cons, eq_comm]
  | cons e l ih =>
    obtain ⟨k', v'⟩ := e
    simp only [aset]
    split
    · simp [aget_cons, eq_comm]
    · split
      · rename_i h1 h2
        have : k = k' := by simpa using h2
        subst this
        simp only [aget_cons]; grind
      · rename_i h1 h2
        have : k ≠ k' := by simpa using h2
        simp only [aget_cons, ih]
        grind

@[simp] theorem aget_aset_self (l : List (Addr × α)) (k : Addr) (v : α) : aget (aset l k v) k = some v := by
  simp [aget_aset]

theorem aget_aset_ne (l : List (Addr × α)) {k a : Addr} (v : α) (h : a ≠ k) : aget (aset l k v) a = aget l a := by
  simp [aget_aset, h]

theorem aget_adel_ne (l : List (Addr × α)) {k a : Addr} (h : a ≠ k) : aget (adel l k) a = aget l a := by
  induction l with
  | nil => rfl
  | cons e l ih =>
    obtain ⟨k', v'⟩ := e
    simp only [adel]
    split
    · rename_i h2
      have : k = k' := by simpa using h2
      subst this
      simp [aget_cons, Ne.symm h]
    · simp [aget_cons, ih]

theorem mem_adel {l : List (Addr × α)} {k : Addr} {e : Addr × α} (h : e ∈ adel l k) : e ∈ l := by
  induction l with
  | nil => simp [adel] at h
  | cons e' l ih =>
    obtain ⟨k', v'⟩ := e'
    simp only [adel] at h
    split at h
    · simp [h]
    · rcases List.mem_cons.1 h with h | h
      · simp [h]
      · simp [ih h]

theorem mem_aset {l : List (Addr × α)} {k : Addr} {v : α} {e : Addr × α} (h : e ∈ aset l k v) :
    e = (k, v) ∨ e ∈ l := by
  induction l with
  | nil => simpa [aset] using h
  | cons e' l ih =>
    obtain ⟨k', v'⟩ := e'
    simp only [aset] at h
    split at h
    · simpa using h
    · split at h
      · rcases List.mem_cons.1 h with h | h
        · exact Or.inl h
        · exact Or.inr (by simp [h])
      · rcases List.mem_cons.1 h with h | h
        · exact Or.inr (by simp [h])
        · rcases ih h with h | h
          · exact Or.inl h
          · exact Or.inr (by simp [h])

theorem keysAsc_adel {l : List (Addr × α)} (hl : KeysAsc l) (k : Addr) : KeysAsc (adel l k) := by
  induction l with
  | nil => exact hl
  | cons e' l ih =>
    obtain ⟨k', v'⟩ := e'
    rw [keysAsc_cons] at hl
    simp only [adel]
    split
    · exact hl.2
    · rw [keysAsc_cons]
      exact ⟨fun e he => hl.1 e (mem_adel he), ih hl.2⟩

theorem aget_adel_self {l : List (Addr × α)} (hl : KeysAsc l) (k : Addr) : aget (adel l k) k = none := by
  induction l with
  | nil => rfl
  | cons e' l ih =>
    obtain ⟨k', v'⟩ := e'
    rw [keysAsc_cons] at hl
    simp only [adel]
    split
    · rename_i h2
      have : k = k' := by simpa using h2
      subst this
      exact aget_eq_none_of_forall_lt hl.1
    · rename_i h2
      have : k ≠ k' := by simpa using h2
      simp [aget_cons, Ne.symm this, ih hl.2]

theorem aget_adel {l : List (Addr × α)} (hl : KeysAsc l) (k a : Addr) :
    aget (adel l k) a = if a = k then none else aget l a := by
  split
  · rename_i h; subst h; exact aget_adel_self hl _
  · rename_i h; exact aget_adel_ne l h

theorem keysAsc_aset {l : List (Addr × α)} (hl : KeysAsc l) (k : Addr) (v : α) : KeysAsc (aset l k v) := by
  induction l with
  | nil => simp [aset, KeysAsc]
  | cons e' l ih =>
    obtain ⟨k', v'⟩ := e'
    have hl' := keysAsc_cons.1 hl
    simp only [aset]
    split
    · rename_i h1
      rw [keysAsc_cons]
      refine ⟨?_, hl⟩
      intro e he
      rcases List.mem_cons.1 he with he | he
      · subst he; exact h1
      · exact String.lt_trans h1 (hl'.1 e he)
    · split
      · rename_i h1 h2
        have : k = k' := by simpa using h2
        subst this
        rw [keysAsc_cons]; exact hl'
      · rename_i h1 h2
        have h2 : k ≠ k' := by simpa using h2
        rw [keysAsc_cons]
        refine ⟨?_, ih hl'.2⟩
        intro e he
        rcases mem_aset he with he | he
        · subst he; simp only; grind
        · exact hl'.1 e he

/-- removing a key that is not present is the identity -/
theorem adel_of_aget_none {l : List (Addr × α)} {k : Addr} (h : aget l k = none) : adel l k = l := by
  induction l with
  | nil => rfl
  | cons e' l ih =>
    obtain ⟨k', v'⟩ := e'
    simp only [aget_cons] at h
    split at h
    · simp at h
    · rename_i h2
      simp only [adel]
      have : ¬ (k == k') = true := by grind
      simp [this, ih h]

/-! sums over association lists -/

theorem sum_adel (f : α → Int) (l : List (Addr × α)) (k : Addr) :
    ((adel l k).map (fun e => f e.2)).sum = (l.map (fun e => f e.2)).sum - ((aget l k).map f).getD 0 := by
  induction l with
  | nil => simp [adel]
  | cons e' l ih =>
    obtain ⟨k', v'⟩ := e'
    simp only [adel, aget_cons]
    split
    · rename_i h2
      have : k = k' := by simpa using h2
      subst this
      simp; omega
    · rename_i h2
      have : k' ≠ k := by grind
      simp [this, ih]; omega

theorem sum_aset (f : α → Int) {l : List (Addr × α)} (hl : KeysAsc l) (k : Addr) (v : α) :
    ((aset l k v).map (fun e => f e.2)).sum =
      (l.map (fun e => f e.2)).sum - ((aget l k).map f).getD 0 + f v := by
  induction l with
  | nil => simp [aset]
  | cons e' l ih =>
    obtain ⟨k', v'⟩ := e'
    have hl' := keysAsc_cons.1 hl
    simp only [aset]
    split
    · rename_i h1
      have : aget ((k', v') :: l) k = none :=
        aget_eq_none_of_forall_lt (by
          intro e he
          rcases List.mem_cons.1 he with he | he
          · subst he; exact h1
          · exact String.lt_trans h1 (hl'.1 e he))
      simp [this]; omega
    · split
      · rename_i h1 h2
        have : k = k' := by simpa using h2
        subst this
        simp [aget_cons]; omega
      · rename_i h1 h2
        have h2 : k' ≠ k := by grind
        simp [aget_cons, h2, ih hl'.2]; omega

end AList

/-! ### frames: which fields an operation leaves alone -/

/-- the fields that neither a bank operation, nor a slashing routine, nor a message handler touches
(the access-control list is not among them: a `gov/acl` change replaces the list) -/
structure TxFrame (s s' : State) : Prop where
  prev : s'.prev = s.prev
  prevTot : s'.prevTot = s.prevTot
  awards : s'.awards = s.awards
  burns : s'.burns = s.burns
  proposer : s'.proposer = s.proposer
  pool : s'.pool = s.pool
  feeAcc : s'.feeAcc = s.feeAcc
  posAcc : s'.posAcc = s.posAcc
  daoAcc : s'.daoAcc = s.daoAcc
  keys : s'.keys = s.keys
  height : s'.height = s.height
  time : s'.time = s.time
  cHeight : s'.cHeight = s.cHeight
  cTime : s'.cTime = s.cTime

/-- … plus the fields only a message handler may touch: what the slashing routines leave alone -/
structure SlashFrame (s s' : State) : Prop extends TxFrame s s' where
  rel : s'.rel = s.rel
  p : s'.p = s.p
  acl : s'.acl = s.acl
  daoOwner : s'.daoOwner = s.daoOwner

/-- … plus all staking records: everything except `bal` and `supply` (a pure bank operation) -/
structure BankFrame (s s' : State) : Prop extends SlashFrame s s' where
  vals : s'.vals = s.vals
  idx : s'.idx = s.idx
  queue : s'.queue = s.queue
  sign : s'.sign = s.sign
  missedBits : s'.missedBits = s.missedBits

/-- closes frame goals whose two states agree definitionally on every framed field -/
macro "frame_rfl" : tactic => `(tactic| ((repeat' constructor) <;> rfl))

theorem TxFrame.refl (s : State) : TxFrame s s := by frame_rfl
theorem SlashFrame.refl (s : State) : SlashFrame s s := by frame_rfl
theorem BankFrame.refl (s : State) : BankFrame s s := by frame_rfl

theorem TxFrame.trans {a b c : State} (h1 : TxFrame a b) (h2 : TxFrame b c) : TxFrame a c := by
  constructor <;> simp only [h2.prev, h2.prevTot, h2.awards, h2.burns, h2.proposer, h2.pool, h2.feeAcc,
    h2.posAcc, h2.daoAcc, h2.keys, h2.height, h2.time, h2.cHeight, h2.cTime, h1.prev, h1.prevTot, h1.awards,
    h1.burns, h1.proposer, h1.pool, h1.feeAcc, h1.posAcc, h1.daoAcc, h1.keys, h1.height, h1.time,
    h1.cHeight, h1.cTime]

theorem SlashFrame.trans {a b c : State} (h1 : SlashFrame a b) (h2 : SlashFrame b c) : SlashFrame a c :=
  ⟨h1.toTxFrame.trans h2.toTxFrame, h2.rel.trans h1.rel, h2.p.trans h1.p, h2.acl.trans h1.acl,
    h2.daoOwner.trans h1.daoOwner⟩

theorem BankFrame.trans {a b c : State} (h1 : BankFrame a b) (h2 : BankFrame b c) : BankFrame a c :=
  ⟨h1.toSlashFrame.trans h2.toSlashFrame, h2.vals.trans h1.vals, h2.idx.trans h1.idx, h2.queue.trans h1.queue,
   h2.sign.trans h1.sign, h2.missedBits.trans h1.missedBits⟩

theorem setBal_frame (s : State) (a : Addr) (x : Int) : BankFrame s (setBal s a x) := by frame_rfl
@[simp] theorem setBal_supply (s : State) (a : Addr) (x : Int) : (setBal s a x).supply = s.supply := rfl
theorem setVal_frame (s : State) (a : Addr) (v : Val) : SlashFrame s (setVal s a v) := by frame_rfl
theorem delStaked_frame (s : State) (a : Addr) (v : Val) : SlashFrame s (delStaked s a v) := by frame_rfl
theorem setStaked_frame (s : State) (a : Addr) (v : Val) : SlashFrame s (setStaked s a v) := by
  unfold setStaked; split <;> frame_rfl
theorem enqueue_frame (s : State) (a : Addr) (t : Int) : SlashFrame s (enqueue s a t) := by frame_rfl
theorem dequeue_frame (s : State) (a : Addr) (t : Int) : SlashFrame s (dequeue s a t) := by frame_rfl

@[simp] theorem setVal_bal (s : State) (a : Addr) (v : Val) : (setVal s a v).bal = s.bal := rfl
@[simp] theorem setVal_supply (s : State) (a : Addr) (v : Val) : (setVal s a v).supply = s.supply := rfl
@[simp] theorem setVal_vals (s : State) (a : Addr) (v : Val) : (setVal s a v).vals = aset s.vals a v := rfl
@[simp] theorem setVal_sign (s : State) (a : Addr) (v : Val) : (setVal s a v).sign = s.sign := rfl
@[simp] theorem delStaked_bal (s : State) (a : Addr) (v : Val) : (delStaked s a v).bal = s.bal := rfl
@[simp] theorem delStaked_supply (s : State) (a : Addr) (v : Val) : (delStaked s a v).supply = s.supply := rfl
@[simp] theorem delStaked_vals (s : State) (a : Addr) (v : Val) : (delStaked s a v).vals = s.vals := rfl
@[simp] theorem delStaked_sign (s : State) (a : Addr) (v : Val) : (delStaked s a v).sign = s.sign := rfl
@[simp] theorem setStaked_bal (s : State) (a : Addr) (v : Val) : (setStaked s a v).bal = s.bal := by
  unfold setStaked; split <;> rfl
@[simp] theorem setStaked_supply (s : State) (a : Addr) (v : Val) : (setStaked s a v).supply = s.supply := by
  unfold setStaked; split <;> rfl
@[simp] theorem setStaked_vals (s : State) (a : Addr) (v : Val) : (setStaked s a v).vals = s.vals := by
  unfold setStaked; split <;> rfl
@[simp] theorem setStaked_sign (s : State) (a : Addr) (v : Val) : (setStaked s a v).sign = s.sign := by
  unfold setStaked; split <;> rfl
@[simp] theorem enqueue_bal (s : State) (a : Addr) (t : Int) : (enqueue s a t).bal = s.bal := rfl
@[simp] theorem enqueue_supply (s : State) (a : Addr) (t : Int) : (enqueue s a t).supply = s.supply := rfl
@[simp] theorem enqueue_vals (s : State) (a : Addr) (t : Int) : (enqueue s a t).vals = s.vals := rfl
@[simp] theorem enqueue_sign (s : State) (a : Addr) (t : Int) : (enqueue s a t).sign = s.sign := rfl
@[simp] theorem dequeue_bal (s : State) (a : Addr) (t : Int) : (dequeue s a t).bal = s.bal := rfl
@[simp] theorem dequeue_supply (s : State) (a : Addr) (t : Int) : (dequeue s a t).supply = s.supply := rfl
@[simp] theorem dequeue_vals (s : State) (a : Addr) (t : Int) : (dequeue s a t).vals = s.vals := rfl
@[simp] theorem dequeue_sign (s : State) (a : Addr) (t : Int) : (dequeue s a t).sign = s.sign := rfl

/-! ### the bank -/

/-- shape of the balance store: one entry per address, only positive amounts -/
structure BalWF (bal : List (Addr × Int)) : Prop where
  asc : KeysAsc bal
  pos : ∀ e ∈ bal, 0 < e.2

theorem WF.balWF {s : State} (h : WF s) : BalWF s.bal := ⟨h.balAsc, h.balPos⟩

theorem balOf_congr {s s' : State} (h : s'.bal = s.bal) (a : Addr) : balOf s' a = balOf s a := by
  simp [balOf, h]

theorem sumBal_congr {s s' : State} (h : s'.bal = s.bal) : sumBal s' = sumBal s := by
  simp [sumBal, h]

theorem balOf_nonneg {s : State} (h : BalWF s.bal) (a : Addr) : 0 ≤ balOf s a := by
  unfold balOf
  cases hg : aget s.bal a with
  | none => simp
  | some v => have := h.pos _ (mem_of_aget hg); simp; omega

theorem balOf_setBal {s : State} (h : KeysAsc s.bal) (a : Addr) (x : Int) (b : Addr) :
    balOf (setBal s a x) b = if b = a then x else balOf s b := by
  unfold balOf setBal
  by_cases hx : (x == 0) = true
  · have hx0 : x = 0 := by simpa using hx
    simp only [hx, if_true, aget_adel h]; split <;> simp [hx0]
  · have hx' : (x == 0) = false := by simpa using hx
    simp only [hx', Bool.false_eq_true, ↓reduceIte, aget_aset]; split <;> rfl

theorem balOf_setBal_self {s : State} (h : KeysAsc s.bal) (a : Addr) (x : Int) : balOf (setBal s a x) a = x := by
  simp [balOf_setBal h]

theorem balOf_setBal_ne {s : State} (a : Addr) (x : Int) {b : Addr} (hb : b ≠ a) :
    balOf (setBal s a x) b = balOf s b := by
  unfold balOf setBal
  split
  · simp only [aget_adel_ne _ hb]
  · simp only [aget_aset_ne _ _ hb]

theorem sumBal_setBal {s : State} (h : KeysAsc s.bal) (a : Addr) (x : Int) :
    sumBal (setBal s a x) = sumBal s - balOf s a + x := by
  unfold sumBal balOf setBal
  by_cases hx : (x == 0) = true
  · have hx0 : x = 0 := by simpa using hx
    have := sum_adel (fun v : Int => v) s.bal a
    simp only [hx, if_true]
    cases hg : aget s.bal a <;> simp_all <;> omega
  · have := sum_aset (fun v : Int => v) h a x
    simp only [hx]
    cases hg : aget s.bal a <;> simp_all <;> omega

theorem keysAsc_setBal {s : State} (h : KeysAsc s.bal) (a : Addr) (x : Int) : KeysAsc (setBal s a x).bal := by
  unfold setBal; split
  · exact keysAsc_adel h _
  · exact keysAsc_aset h _ _

theorem balWF_setBal {s : State} (h : BalWF s.bal) (a : Addr) {x : Int} (hx : 0 ≤ x) : BalWF (setBal s a x).bal := by
  unfold setBal
  by_cases hx' : (x == 0) = true
  · simp only [hx', if_true]
    exact ⟨keysAsc_adel h.asc a, fun e he => h.pos e (mem_adel he)⟩
  · have hx0 : x ≠ 0 := by simpa using hx'
    simp only [hx']
    refine ⟨keysAsc_aset h.asc a x, fun e he => ?_⟩
    rcases mem_aset he with he | he
    · subst he; simp; omega
    · exact h.pos e he

/-- `send` succeeds exactly when the source can pay -/
theorem send_eq_some {s : State} {src dst : Addr} {amt : Int} (h : amt ≤ balOf s src) :
    send s src dst amt = some (touch (setBal (setBal s src (balOf s src - amt)) dst
      (balOf (setBal s src (balOf s src - amt)) dst + amt)) dst) := by
  unfold send
  have : ¬ balOf s src < amt := by omega
  simp [this]

theorem send_eq_none {s : State} {src dst : Addr} {amt : Int} (h : balOf s src < amt) :
    send s src dst amt = none := by
  simp [send, h]

theorem send_isSome_iff {s : State} {src dst : Addr} {amt : Int} :
    (send s src dst amt).isSome ↔ amt ≤ balOf s src := by
  unfold send; split
  · simp; omega
  · simp; omega

theorem send_le {s s' : State} {src dst : Addr} {amt : Int} (hs : send s src dst amt = some s') :
    amt ≤ balOf s src := send_isSome_iff.1 (by rw [hs]; rfl)

theorem send_frame {s s' : State} {src dst : Addr} {amt : Int} (hs : send s src dst amt = some s') :
    BankFrame s s' := by
  unfold send at hs
  split at hs
  · simp at hs
  · simp at hs; subst hs; frame_rfl

theorem send_supply {s s' : State} {src dst : Addr} {amt : Int} (hs : send s src dst amt = some s') :
    s'.supply = s.supply := by
  unfold send at hs
  split at hs
  · simp at hs
  · simp at hs; subst hs; rfl

theorem balOf_send {s s' : State} (h : KeysAsc s.bal) {src dst : Addr} {amt : Int}
    (hs : send s src dst amt = some s') (b : Addr) :
    balOf s' b = balOf s b - (if b = src then amt else 0) + (if b = dst then amt else 0) := by
  rw [send_eq_some (send_le hs)] at hs
  simp only [Option.some.injEq] at hs
  subst hs
  have h1 : KeysAsc (setBal s src (balOf s src - amt)).bal := by
    unfold setBal; split
    · exact keysAsc_adel h _
    · exact keysAsc_aset h _ _
  rw [balOf_touch, balOf_setBal h1]
  by_cases hd : b = dst <;> by_cases hsrc : b = src
  · subst hd; subst hsrc; simp [balOf_setBal h]
  · subst hd; simp [balOf_setBal h, hsrc]
  · subst hsrc; simp [balOf_setBal h, hd]
  · simp [balOf_setBal h, hd, hsrc]

theorem sumBal_send {s s' : State} (h : KeysAsc s.bal) {src dst : Addr} {amt : Int}
    (hs : send s src dst amt = some s') : sumBal s' = sumBal s := by
  rw [send_eq_some (send_le hs)] at hs
  simp only [Option.some.injEq] at hs
  subst hs
  have h1 : KeysAsc (setBal s src (balOf s src - amt)).bal := by
    unfold setBal; split
    · exact keysAsc_adel h _
    · exact keysAsc_aset h _ _
  rw [sumBal_touch, sumBal_setBal h1, sumBal_setBal h]
  omega

theorem balWF_send {s s' : State} (h : BalWF s.bal) {src dst : Addr} {amt : Int} (hamt : 0 ≤ amt)
    (hs : send s src dst amt = some s') : BalWF s'.bal := by
  have hle := send_le hs
  rw [send_eq_some hle] at hs
  simp only [Option.some.injEq] at hs
  subst hs
  have h1 : BalWF (setBal s src (balOf s src - amt)).bal := balWF_setBal h _ (by omega)
  exact balWF_setBal h1 _ (by have := balOf_nonneg h1 dst; omega)

/-- `mint` -/
theorem mint_frame (s : State) (acc : Addr) (amt : Int) : BankFrame s (mint s acc amt) := by frame_rfl

@[simp] theorem mint_supply (s : State) (acc : Addr) (amt : Int) : (mint s acc amt).supply = s.supply + amt := rfl

theorem balOf_mint {s : State} (h : KeysAsc s.bal) (acc : Addr) (amt : Int) (b : Addr) :
    balOf (mint s acc amt) b = balOf s b + (if b = acc then amt else 0) := by
  have : balOf (mint s acc amt) b = balOf (setBal s acc (balOf s acc + amt)) b := balOf_congr rfl b
  rw [this, balOf_setBal h]
  split
  · subst_vars; rfl
  · omega

theorem sumBal_mint {s : State} (h : KeysAsc s.bal) (acc : Addr) (amt : Int) :
    sumBal (mint s acc amt) = sumBal s + amt := by
  have : sumBal (mint s acc amt) = sumBal (setBal s acc (balOf s acc + amt)) := sumBal_congr rfl
  rw [this, sumBal_setBal h]; omega

theorem balWF_mint {s : State} (h : BalWF s.bal) (acc : Addr) {amt : Int} (hamt : 0 ≤ amt) :
    BalWF (mint s acc amt).bal := by
  have : (mint s acc amt).bal = (setBal s acc (balOf s acc + amt)).bal := rfl
  rw [this]
  exact balWF_setBal h _ (by have := balOf_nonneg h acc; omega)

/-- `burnFrom` -/
theorem burnFrom_eq_some {s : State} {acc : Addr} {amt : Int} (h : amt ≤ balOf s acc) :
    burnFrom s acc amt = some { setBal s acc (balOf s acc - amt) with supply := s.supply - amt } := by
  unfold burnFrom
  have : ¬ balOf s acc < amt := by omega
  simp [this]

theorem burnFrom_isSome_iff {s : State} {acc : Addr} {amt : Int} :
    (burnFrom s acc amt).isSome ↔ amt ≤ balOf s acc := by
  unfold burnFrom; split
  · simp; omega
  · simp; omega

theorem burnFrom_le {s s' : State} {acc : Addr} {amt : Int} (hs : burnFrom s acc amt = some s') :
    amt ≤ balOf s acc := burnFrom_isSome_iff.1 (by rw [hs]; rfl)

theorem burnFrom_frame {s s' : State} {acc : Addr} {amt : Int} (hs : burnFrom s acc amt = some s') :
    BankFrame s s' := by
  rw [burnFrom_eq_some (burnFrom_le hs)] at hs
  simp only [Option.some.injEq] at hs; subst hs; frame_rfl

theorem burnFrom_supply {s s' : State} {acc : Addr} {amt : Int} (hs : burnFrom s acc amt = some s') :
    s'.supply = s.supply - amt := by
  rw [burnFrom_eq_some (burnFrom_le hs)] at hs
  simp only [Option.some.injEq] at hs; subst hs; rfl

theorem balOf_burnFrom {s s' : State} (h : KeysAsc s.bal) {acc : Addr} {amt : Int}
    (hs : burnFrom s acc amt = some s') (b : Addr) :
    balOf s' b = balOf s b - (if b = acc then amt else 0) := by
  rw [burnFrom_eq_some (burnFrom_le hs)] at hs
  simp only [Option.some.injEq] at hs; subst hs
  have : ∀ t : State, balOf { t with supply := s.supply - amt } b = balOf t b := fun t => balOf_congr rfl b
  rw [this, balOf_setBal h]
  split
  · subst_vars; rfl
  · omega

theorem sumBal_burnFrom {s s' : State} (h : KeysAsc s.bal) {acc : Addr} {amt : Int}
    (hs : burnFrom s acc amt = some s') : sumBal s' = sumBal s - amt := by
  rw [burnFrom_eq_some (burnFrom_le hs)] at hs
  simp only [Option.some.injEq] at hs; subst hs
  have : ∀ t : State, sumBal { t with supply := s.supply - amt } = sumBal t := fun t => sumBal_congr rfl
  rw [this, sumBal_setBal h]; omega

theorem balWF_burnFrom {s s' : State} (h : BalWF s.bal) {acc : Addr} {amt : Int}
    (hs : burnFrom s acc amt = some s') : BalWF s'.bal := by
  have hle := burnFrom_le hs
  rw [burnFrom_eq_some hle] at hs
  simp only [Option.some.injEq] at hs; subst hs
  exact balWF_setBal h _ (by omega)

/-! ### validator records and the recorded stake -/

/-- the stake a validator record contributes to `stakeSum` -/
def stk (v : Val) : Int := if v.status != 0 then v.tokens else 0

theorem stk_of_status_ne {v : Val} (h : v.status ≠ 0) : stk v = v.tokens := by simp [stk, h]
theorem stk_of_status_eq {v : Val} (h : v.status = 0) : stk v = 0 := by simp [stk, h]

theorem stakeSum_list (l : List (Addr × Val)) :
    ((l.filter (fun e => e.2.status != 0)).map (·.2.tokens)).sum = (l.map (fun e => stk e.2)).sum := by
  induction l with
  | nil => rfl
  | cons e l ih =>
    simp only [List.filter_cons]
    split <;> simp_all [stk]

theorem stakeSum_eq (s : State) : stakeSum s = (s.vals.map (fun e => stk e.2)).sum := stakeSum_list s.vals

theorem stakeSum_congr {s s' : State} (h : s'.vals = s.vals) : stakeSum s' = stakeSum s := by
  simp [stakeSum, h]

theorem stakeSum_aset {s s' : State} (h : KeysAsc s.vals) (a : Addr) (v : Val) (hs : s'.vals = aset s.vals a v) :
    stakeSum s' = stakeSum s - ((aget s.vals a).map stk).getD 0 + stk v := by
  rw [stakeSum_eq, stakeSum_eq, hs]; exact sum_aset stk h a v

theorem stakeSum_setVal {s : State} (h : KeysAsc s.vals) (a : Addr) (v : Val) :
    stakeSum (setVal s a v) = stakeSum s - ((aget s.vals a).map stk).getD 0 + stk v :=
  stakeSum_aset h a v rfl

theorem stakeSum_adel {s s' : State} (a : Addr) (hs : s'.vals = adel s.vals a) :
    stakeSum s' = stakeSum s - ((aget s.vals a).map stk).getD 0 := by
  rw [stakeSum_eq, stakeSum_eq, hs]; exact sum_adel stk s.vals a

theorem le_sum_of_mem {α : Type} (f : α → Int) {l : List (Addr × α)} (hn : ∀ e ∈ l, 0 ≤ f e.2)
    {e : Addr × α} (he : e ∈ l) : f e.2 ≤ (l.map (fun e => f e.2)).sum := by
  induction l with
  | nil => simp at he
  | cons x l ih =>
    have hx := hn x (by simp)
    have hrest : 0 ≤ (l.map (fun e => f e.2)).sum := by
      clear ih he
      induction l with
      | nil => simp
      | cons y l ih2 =>
        have := hn y (by simp)
        have := ih2 (fun e he => hn e (by
          rcases List.mem_cons.1 he with h | h
          · simp [h]
          · simp [h]))
        simp only [List.map_cons, List.sum_cons]; omega
    simp only [List.map_cons, List.sum_cons]
    rcases List.mem_cons.1 he with h | h
    · subst h; omega
    · have := ih (fun e he => hn e (by simp [he])) h; omega

theorem stk_nonneg {v : Val} (h : 0 ≤ v.tokens) : 0 ≤ stk v := by
  unfold stk; split <;> omega

theorem stk_le_stakeSum {s : State} (hn : ∀ e ∈ s.vals, 0 ≤ e.2.tokens) {a : Addr} {v : Val}
    (hv : aget s.vals a = some v) : stk v ≤ stakeSum s := by
  rw [stakeSum_eq]
  exact le_sum_of_mem stk (fun e he => stk_nonneg (hn e he)) (mem_of_aget hv)

theorem stakeSum_nonneg {s : State} (hn : ∀ e ∈ s.vals, 0 ≤ e.2.tokens) : 0 ≤ stakeSum s := by
  rw [stakeSum_eq]
  generalize s.vals = l at hn
  induction l with
  | nil => simp
  | cons y l ih =>
    have := stk_nonneg (hn y (by simp))
    have := ih (fun e he => hn e (by simp [he]))
    simp only [List.map_cons, List.sum_cons]; omega

/-- shape of the validator store -/
structure ValsWF (keys : List (Nat × Addr)) (vals : List (Addr × Val)) : Prop where
  asc : KeysAsc vals
  tokNonneg : ∀ e ∈ vals, 0 ≤ e.2.tokens
  statusOK : ∀ e ∈ vals, e.2.status ≤ 2
  areKeys : ∀ e ∈ vals, ∃ k ∈ keys, k.2 = e.1

theorem WF.valsWF {s : State} (h : WF s) : ValsWF s.keys s.vals :=
  ⟨h.valsAsc, h.tokNonneg, h.statusOK, h.valsAreKeys⟩

theorem ValsWF.isKey {keys : List (Nat × Addr)} {vals : List (Addr × Val)} (h : ValsWF keys vals)
    {a : Addr} {v : Val} (hv : aget vals a = some v) : ∃ k ∈ keys, k.2 = a :=
  h.areKeys _ (mem_of_aget hv)

theorem ValsWF.insert {keys : List (Nat × Addr)} {vals : List (Addr × Val)} (h : ValsWF keys vals)
    {a : Addr} {v : Val} (hk : ∃ k ∈ keys, k.2 = a) (ht : 0 ≤ v.tokens) (hs : v.status ≤ 2) :
    ValsWF keys (aset vals a v) := by
  refine ⟨keysAsc_aset h.asc a v, ?_, ?_, ?_⟩
  · intro e he; rcases mem_aset he with he | he
    · subst he; exact ht
    · exact h.tokNonneg e he
  · intro e he; rcases mem_aset he with he | he
    · subst he; exact hs
    · exact h.statusOK e he
  · intro e he; rcases mem_aset he with he | he
    · subst he; exact hk
    · exact h.areKeys e he

theorem ValsWF.insert_of_aget {keys : List (Nat × Addr)} {vals : List (Addr × Val)} (h : ValsWF keys vals)
    {a : Addr} {v0 v : Val} (hv : aget vals a = some v0) (ht : 0 ≤ v.tokens) (hs : v.status ≤ 2) :
    ValsWF keys (aset vals a v) := h.insert (h.isKey hv) ht hs

theorem ValsWF.erase {keys : List (Nat × Addr)} {vals : List (Addr × Val)} (h : ValsWF keys vals) (a : Addr) :
    ValsWF keys (adel vals a) :=
  ⟨keysAsc_adel h.asc a, fun e he => h.tokNonneg e (mem_adel he), fun e he => h.statusOK e (mem_adel he),
   fun e he => h.areKeys e (mem_adel he)⟩

/-! ### module accounts -/

theorem isMod_eq_false {s : State} {a : Addr} :
    isMod s a = false ↔ a ≠ s.pool ∧ a ≠ s.feeAcc ∧ a ≠ s.posAcc ∧ a ≠ s.daoAcc := by
  simp [isMod, and_assoc]

theorem WF.key_not_mod {s : State} (h : WF s) {a : Addr} (hk : ∃ k ∈ s.keys, k.2 = a) :
    a ≠ s.pool ∧ a ≠ s.feeAcc ∧ a ≠ s.posAcc ∧ a ≠ s.daoAcc := by
  obtain ⟨k, hk, rfl⟩ := hk
  exact isMod_eq_false.1 (h.keysNotMods k hk)

theorem WF.val_not_mod {s : State} (h : WF s) {a : Addr} {v : Val} (hv : aget s.vals a = some v) :
    a ≠ s.pool ∧ a ≠ s.feeAcc ∧ a ≠ s.posAcc ∧ a ≠ s.daoAcc :=
  h.key_not_mod (h.valsWF.isKey hv)

/-! ### rebuilding `WF` from its parts -/

theorem WF.of_parts {s s' : State} (h : WF s) (hf : TxFrame s s') (hb : BalWF s'.bal)
    (hv : ValsWF s'.keys s'.vals) (hs : KeysAsc s'.sign) (hp : 0 ≤ s'.p.minStake) : WF s' where
  balAsc := hb.asc
  balPos := hb.pos
  valsAsc := hv.asc
  tokNonneg := hv.tokNonneg
  statusOK := hv.statusOK
  signAsc := hs
  prevAsc := by rw [hf.prev]; exact h.prevAsc
  awardsAsc := by rw [hf.awards]; exact h.awardsAsc
  burnsAsc := by rw [hf.burns]; exact h.burnsAsc
  modsDistinct := by rw [hf.pool, hf.feeAcc, hf.posAcc, hf.daoAcc]; exact h.modsDistinct
  keysNotMods := by
    intro k hk
    rw [hf.keys] at hk
    have := h.keysNotMods k hk
    simpa [isMod, hf.pool, hf.feeAcc, hf.posAcc, hf.daoAcc] using this
  valsAreKeys := hv.areKeys
  minStakeNonneg := hp

theorem WF.of_slashFrame {s s' : State} (h : WF s) (hf : SlashFrame s s') (hb : BalWF s'.bal)
    (hv : ValsWF s.keys s'.vals) (hs : KeysAsc s'.sign) : WF s' :=
  h.of_parts hf.toTxFrame hb (by rw [hf.keys]; exact hv) hs (by rw [hf.p]; exact h.minStakeNonneg)

theorem WF.of_bankFrame {s s' : State} (h : WF s) (hf : BankFrame s s') (hb : BalWF s'.bal) : WF s' :=
  h.of_slashFrame hf.toSlashFrame hb (by rw [hf.vals]; exact h.valsWF) (by rw [hf.sign]; exact h.signAsc)

/-! ### the accounting core of the invariant and the effect of slashing-type updates -/

theorem unstakedEmpty_congr {s s' : State} (h : s'.vals = s.vals) (hu : UnstakedEmpty s) : UnstakedEmpty s' := by
  unfold UnstakedEmpty at *; rw [h]; exact hu

theorem unstakedEmpty_aset {s s' : State} (hu : UnstakedEmpty s) {a : Addr} {v : Val}
    (hs : s'.vals = aset s.vals a v) (hv : v.status = 0 → v.tokens = 0) : UnstakedEmpty s' := by
  intro b w hw hst
  rw [hs, aget_aset] at hw
  split at hw
  · simp only [Option.some.injEq] at hw; subst hw; exact hv hst
  · exact hu b w hw hst

theorem unstakedEmpty_adel {s s' : State} (hu : UnstakedEmpty s) (hasc : KeysAsc s.vals) {a : Addr}
    (hs : s'.vals = adel s.vals a) : UnstakedEmpty s' := by
  intro b w hw hst
  rw [hs, aget_adel hasc] at hw
  split at hw
  · simp at hw
  · exact hu b w hw hst

theorem poolBacks_iff (s : State) : PoolBacks s ↔ 0 ≤ poolSurplus s := by
  unfold PoolBacks poolSurplus; omega

/-- the part of `Inv` the token accounting needs (without the pool inequality) -/
structure Acct (s : State) : Prop where
  wf : WF s
  supplyOK : SupplyOK s
  ue : UnstakedEmpty s

theorem Inv.acct {s : State} (h : Inv s) : Acct s := ⟨h.wf, h.supply, h.unstakedEmpty⟩

/-- Effect of an update of slashing type: accounting stays consistent, only the pool's balance may
change, and it changes together with the supply (coins leave the pool only by being burnt). -/
structure Eff (s s' : State) : Prop where
  pool : s'.pool = s.pool
  acct : Acct s'
  bal : ∀ b, b ≠ s.pool → balOf s' b = balOf s b
  net : s'.supply - balOf s' s.pool = s.supply - balOf s s.pool

theorem Eff.refl {s : State} (h : Acct s) : Eff s s := ⟨rfl, h, fun _ _ => rfl, rfl⟩

theorem Eff.trans {a b c : State} (h1 : Eff a b) (h2 : Eff b c) : Eff a c where
  pool := h2.pool.trans h1.pool
  acct := h2.acct
  bal := fun x hx => (h2.bal x (by rw [h1.pool]; exact hx)).trans (h1.bal x hx)
  net := by have := h2.net; rw [h1.pool] at this; rw [this]; exact h1.net

/-- … and moreover the pool's surplus over the recorded stake is unchanged -/
structure SEff (s s' : State) : Prop extends Eff s s' where
  surplus : poolSurplus s' = poolSurplus s

theorem SEff.refl {s : State} (h : Acct s) : SEff s s := ⟨Eff.refl h, rfl⟩

theorem SEff.trans {a b c : State} (h1 : SEff a b) (h2 : SEff b c) : SEff a c :=
  ⟨h1.toEff.trans h2.toEff, h2.surplus.trans h1.surplus⟩

theorem SEff.poolBacks {s s' : State} (h : SEff s s') (hp : PoolBacks s) : PoolBacks s' := by
  rw [poolBacks_iff] at *; rw [h.surplus]; exact hp

/-- supply minus recorded stake is unchanged: every burnt coin was recorded stake -/
theorem SEff.supply_stake {s s' : State} (h : SEff s s') :
    s'.supply - stakeSum s' = s.supply - stakeSum s := by
  have h1 := h.net
  have h2 := h.surplus
  unfold poolSurplus at h2
  rw [h.pool] at h2
  omega

/-- an update that touches neither balances, nor the supply, nor a validator record, and keeps `WF` -/
theorem seff_of_wf {s s' : State} (h : Acct s) (hwf : WF s') (hpool : s'.pool = s.pool) (hb : s'.bal = s.bal)
    (hsup : s'.supply = s.supply) (hv : s'.vals = s.vals) : SEff s s' where
  pool := hpool
  acct := {
    wf := hwf
    supplyOK := by unfold SupplyOK; rw [hsup, sumBal_congr hb]; exact h.supplyOK
    ue := unstakedEmpty_congr hv h.ue }
  bal := fun b _ => balOf_congr hb b
  net := by rw [hsup, balOf_congr hb]
  surplus := by unfold poolSurplus; rw [hpool, balOf_congr hb, stakeSum_congr hv]

/-- an update that touches neither balances, nor the supply, nor a validator record -/
theorem seff_of_same {s s' : State} (h : Acct s) (hf : SlashFrame s s') (hb : s'.bal = s.bal)
    (hsup : s'.supply = s.supply) (hv : s'.vals = s.vals) (hs : KeysAsc s'.sign) : SEff s s' :=
  seff_of_wf h (h.wf.of_slashFrame hf (by rw [hb]; exact h.wf.balWF) (by rw [hv]; exact h.wf.valsWF) hs)
    hf.pool hb hsup hv

/-- rewriting the record of an existing validator -/
theorem eff_setVal {s s' : State} (h : Acct s) {a : Addr} {v v' : Val} (hv : aget s.vals a = some v)
    (hf : SlashFrame s s') (hb : s'.bal = s.bal) (hsup : s'.supply = s.supply) (hsg : s'.sign = s.sign)
    (hvals : s'.vals = aset s.vals a v')
    (ht : 0 ≤ v'.tokens) (hst : v'.status ≤ 2) (hue : v'.status = 0 → v'.tokens = 0) :
    Eff s s' ∧ poolSurplus s' = poolSurplus s + stk v - stk v' := by
  refine ⟨⟨hf.pool, ⟨?_, ?_, ?_⟩, fun b _ => balOf_congr hb b, by rw [hsup, balOf_congr hb]⟩, ?_⟩
  · exact h.wf.of_slashFrame hf (by rw [hb]; exact h.wf.balWF)
      (by rw [hvals]; exact h.wf.valsWF.insert_of_aget hv ht hst) (by rw [hsg]; exact h.wf.signAsc)
  · unfold SupplyOK; rw [hsup, sumBal_congr hb]; exact h.supplyOK
  · exact unstakedEmpty_aset h.ue hvals hue
  · unfold poolSurplus
    rw [hf.pool, balOf_congr hb, stakeSum_aset h.wf.valsAsc a v' hvals, hv]
    simp; omega

/-- burning from the pool -/
theorem eff_burnPool {s s' : State} (h : Acct s) {x : Int} (hb : burnFrom s s.pool x = some s') :
    Eff s s' ∧ poolSurplus s' = poolSurplus s - x := by
  have hf := burnFrom_frame hb
  have hbal := balOf_burnFrom h.wf.balAsc hb
  refine ⟨⟨hf.pool, ⟨?_, ?_, ?_⟩, ?_, ?_⟩, ?_⟩
  · exact h.wf.of_bankFrame hf (balWF_burnFrom h.wf.balWF hb)
  · unfold SupplyOK; rw [burnFrom_supply hb, sumBal_burnFrom h.wf.balAsc hb, h.supplyOK]
  · exact unstakedEmpty_congr hf.vals h.ue
  · intro b hbne; rw [hbal]; simp [hbne]
  · rw [burnFrom_supply hb, hbal]; simp; omega
  · unfold poolSurplus; rw [hf.pool, hbal, stakeSum_congr hf.vals]; simp; omega
/-! ### slashing -/

/-- first half of `forceUnstake`: leave the power index and the unstaking queue -/
def fuPre (s : State) (a : Addr) (v : Val) : State :=
  if v.status == 1 then dequeue (delStaked s a v) a v.unstake else delStaked s a v

/-- burn a positive amount from the pool, ignoring a failure (as `forceUnstake` does) -/
def burnPoolD (s : State) (x : Int) : State := if x > 0 then (burnFrom s s.pool x).getD s else s

theorem forceUnstake_eq (s : State) (a : Addr) (v : Val) :
    forceUnstake s a v = setVal (burnPoolD (fuPre s a v) v.tokens) a { v with tokens := 0, status := 0 } := rfl

theorem fuPre_frame (s : State) (a : Addr) (v : Val) : SlashFrame s (fuPre s a v) := by
  unfold fuPre; split
  · exact (delStaked_frame _ _ _).trans (dequeue_frame _ _ _)
  · exact delStaked_frame _ _ _
@[simp] theorem fuPre_bal (s : State) (a : Addr) (v : Val) : (fuPre s a v).bal = s.bal := by
  unfold fuPre; split <;> rfl
@[simp] theorem fuPre_supply (s : State) (a : Addr) (v : Val) : (fuPre s a v).supply = s.supply := by
  unfold fuPre; split <;> rfl
@[simp] theorem fuPre_vals (s : State) (a : Addr) (v : Val) : (fuPre s a v).vals = s.vals := by
  unfold fuPre; split <;> rfl
@[simp] theorem fuPre_sign (s : State) (a : Addr) (v : Val) : (fuPre s a v).sign = s.sign := by
  unfold fuPre; split <;> rfl

theorem burnPoolD_cases (s : State) (x : Int) :
    burnPoolD s x = s ∧ (x ≤ 0 ∨ balOf s s.pool < x) ∨
    (0 < x ∧ ∃ s', burnFrom s s.pool x = some s' ∧ burnPoolD s x = s') := by
  unfold burnPoolD
  by_cases hx : x > 0
  · rw [if_pos hx]
    cases hb : burnFrom s s.pool x with
    | none =>
      left; refine ⟨rfl, Or.inr ?_⟩
      by_cases hlt : balOf s s.pool < x
      · exact hlt
      · rw [burnFrom_eq_some (by omega)] at hb; simp at hb
    | some s' => right; exact ⟨hx, s', rfl, rfl⟩
  · rw [if_neg hx]; left; exact ⟨rfl, Or.inl (by omega)⟩

theorem burnPoolD_frame (s : State) (x : Int) : BankFrame s (burnPoolD s x) := by
  rcases burnPoolD_cases s x with ⟨h, _⟩ | ⟨_, s', hb, h⟩
  · rw [h]; exact BankFrame.refl s
  · rw [h]; exact burnFrom_frame hb

theorem forceUnstake_frame (s : State) (a : Addr) (v : Val) : SlashFrame s (forceUnstake s a v) := by
  rw [forceUnstake_eq]
  exact ((fuPre_frame s a v).trans (burnPoolD_frame _ _).toSlashFrame).trans (setVal_frame _ _ _)

theorem forceUnstake_sign (s : State) (a : Addr) (v : Val) : (forceUnstake s a v).sign = s.sign := by
  rw [forceUnstake_eq, setVal_sign, (burnPoolD_frame _ _).sign, fuPre_sign]

theorem forceUnstake_vals (s : State) (a : Addr) (v : Val) :
    (forceUnstake s a v).vals = aset s.vals a { v with tokens := 0, status := 0 } := by
  rw [forceUnstake_eq, setVal_vals, (burnPoolD_frame _ _).vals, fuPre_vals]

/-- burning (at most the pool's balance) from the pool -/
theorem eff_burnPoolD {s : State} (h : Acct s) {x : Int} (hx0 : 0 ≤ x) (hx : x ≤ balOf s s.pool) :
    Eff s (burnPoolD s x) ∧ poolSurplus (burnPoolD s x) = poolSurplus s - x := by
  rcases burnPoolD_cases s x with ⟨h1, h2⟩ | ⟨_, s', hb, h1⟩
  · rw [h1]
    have : x = 0 := by omega
    subst this
    exact ⟨Eff.refl h, by omega⟩
  · rw [h1]; exact eff_burnPool h hb

theorem forceUnstake_seff {s : State} (h : Acct s) (hp : PoolBacks s) {a : Addr} {v : Val}
    (hv : aget s.vals a = some v) : SEff s (forceUnstake s a v) := by
  have hnn : 0 ≤ v.tokens := h.wf.tokNonneg _ (mem_of_aget hv)
  have hstk : stk v = v.tokens := by
    by_cases hs : v.status = 0
    · rw [stk_of_status_eq hs, h.ue a v hv hs]
    · exact stk_of_status_ne hs
  have hle : v.tokens ≤ balOf s s.pool := by
    have := stk_le_stakeSum h.wf.tokNonneg hv; unfold PoolBacks at hp; omega
  have e2 : SEff s (fuPre s a v) := seff_of_same h (fuPre_frame s a v) (by simp) (by simp) (by simp) (by simp [h.wf.signAsc])
  have hle2 : v.tokens ≤ balOf (fuPre s a v) (fuPre s a v).pool := by
    rw [(fuPre_frame s a v).pool, balOf_congr (fuPre_bal s a v)]; exact hle
  obtain ⟨e3, hs3⟩ := eff_burnPoolD e2.acct hnn hle2
  have hv3 : aget (burnPoolD (fuPre s a v) v.tokens).vals a = some v := by
    rw [(burnPoolD_frame _ _).vals, fuPre_vals]; exact hv
  obtain ⟨e4, hs4⟩ := eff_setVal (v' := { v with tokens := 0, status := 0 }) e3.acct hv3 (setVal_frame _ _ _) rfl rfl rfl rfl
      (by simp) (by simp) (by simp)
  rw [forceUnstake_eq]
  refine ⟨(e2.toEff.trans e3).trans e4, ?_⟩
  rw [hs4, hs3, e2.surplus, hstk]
  simp [stk]
/-- the state after `removeValidatorTokens` inside `slash` -/
def slashPre (s : State) (a : Addr) (v : Val) (burn : Int) : State :=
  setStaked (setVal (delStaked s a v) a { v with tokens := v.tokens - burn }) a { v with tokens := v.tokens - burn }

/-- `burnStakedTokens` and the forced unstake inside `slash` -/
def slashPost (s1 : State) (a : Addr) (v1 : Val) (burn : Int) : State :=
  if burn ≤ 0 then s1
  else match burnFrom s1 s1.pool burn with
    | none => s1
    | some s2 => if v1.tokens < s2.p.minStake then forceUnstake s2 a v1 else s2

theorem slash_cases (s : State) (a : Addr) (ih pw f : Int) :
    slash s a ih pw f = s ∨
    ∃ v, aget s.vals a = some v ∧ v.status ≠ 0 ∧
      slash s a ih pw f =
        slashPost (slashPre s a v (max (min (slashAmount pw f) v.tokens) 0)) a
          { v with tokens := v.tokens - max (min (slashAmount pw f) v.tokens) 0 }
          (max (min (slashAmount pw f) v.tokens) 0) := by
  unfold slash
  split
  · exact Or.inl rfl
  split
  · exact Or.inl rfl
  split
  · exact Or.inl rfl
  · rename_i v hv
    split
    · exact Or.inl rfl
    · rename_i hst
      right
      refine ⟨v, hv, by simpa using hst, rfl⟩
theorem slashPre_frame (s : State) (a : Addr) (v : Val) (burn : Int) : SlashFrame s (slashPre s a v burn) :=
  ((delStaked_frame _ _ _).trans (setVal_frame _ _ _)).trans (setStaked_frame _ _ _)
@[simp] theorem slashPre_bal (s : State) (a : Addr) (v : Val) (burn : Int) : (slashPre s a v burn).bal = s.bal := by
  simp [slashPre]
@[simp] theorem slashPre_supply (s : State) (a : Addr) (v : Val) (burn : Int) : (slashPre s a v burn).supply = s.supply := by
  simp [slashPre]
@[simp] theorem slashPre_sign (s : State) (a : Addr) (v : Val) (burn : Int) : (slashPre s a v burn).sign = s.sign := by
  simp [slashPre]
@[simp] theorem slashPre_vals (s : State) (a : Addr) (v : Val) (burn : Int) :
    (slashPre s a v burn).vals = aset s.vals a { v with tokens := v.tokens - burn } := by
  simp [slashPre]

theorem slashPost_frame (s1 : State) (a : Addr) (v1 : Val) (burn : Int) :
    SlashFrame s1 (slashPost s1 a v1 burn) ∧ (slashPost s1 a v1 burn).sign = s1.sign := by
  unfold slashPost
  split
  · exact ⟨SlashFrame.refl _, rfl⟩
  · split
    · exact ⟨SlashFrame.refl _, rfl⟩
    · rename_i s2 hb
      have hf := burnFrom_frame hb
      split
      · exact ⟨hf.toSlashFrame.trans (forceUnstake_frame _ _ _), (forceUnstake_sign _ _ _).trans hf.sign⟩
      · exact ⟨hf.toSlashFrame, hf.sign⟩

theorem slash_frame (s : State) (a : Addr) (ih pw f : Int) : SlashFrame s (slash s a ih pw f) := by
  rcases slash_cases s a ih pw f with h | ⟨v, _, _, h⟩
  · rw [h]; exact SlashFrame.refl s
  · rw [h]; exact (slashPre_frame _ _ _ _).trans (slashPost_frame _ _ _ _).1

theorem slash_sign (s : State) (a : Addr) (ih pw f : Int) : (slash s a ih pw f).sign = s.sign := by
  rcases slash_cases s a ih pw f with h | ⟨v, _, _, h⟩
  · rw [h]
  · rw [h, (slashPost_frame _ _ _ _).2, slashPre_sign]

theorem slash_seff {s : State} (h : Acct s) (hp : PoolBacks s) (a : Addr) (ih pw f : Int) :
    SEff s (slash s a ih pw f) := by
  rcases slash_cases s a ih pw f with h0 | ⟨v, hv, hst, h0⟩
  · rw [h0]; exact SEff.refl h
  rw [h0]
  generalize hburn : max (min (slashAmount pw f) v.tokens) 0 = burn
  have hnn : 0 ≤ v.tokens := h.wf.tokNonneg _ (mem_of_aget hv)
  have hb0 : 0 ≤ burn := by omega
  have hbv : burn ≤ v.tokens := by omega
  have hstk : stk v = v.tokens := stk_of_status_ne hst
  have hle : v.tokens ≤ balOf s s.pool := by
    have := stk_le_stakeSum h.wf.tokNonneg hv; unfold PoolBacks at hp; omega
  -- removeValidatorTokens
  obtain ⟨e1, hs1⟩ := eff_setVal (s' := slashPre s a v burn) (v' := { v with tokens := v.tokens - burn }) h hv
    (slashPre_frame _ _ _ _) (by simp) (by simp) (by simp) (by simp)
    (by simp; omega) (by simpa using h.wf.statusOK _ (mem_of_aget hv)) (by intro h'; exact absurd h' hst)
  have hstk1 : stk { v with tokens := v.tokens - burn } = v.tokens - burn := stk_of_status_ne hst
  rw [hstk, hstk1] at hs1
  have hv1 : aget (slashPre s a v burn).vals a = some { v with tokens := v.tokens - burn } := by simp
  unfold slashPost
  split
  · have : burn = 0 := by omega
    subst this
    exact ⟨e1, by rw [hs1]; omega⟩
  · rename_i hbpos
    split
    · rename_i hnone
      rw [burnFrom_eq_some (by rw [(slashPre_frame _ _ _ _).pool, balOf_congr (slashPre_bal _ _ _ _)]; omega)] at hnone
      simp at hnone
    · rename_i s2 hb
      obtain ⟨e2, hs2⟩ := eff_burnPool e1.acct hb
      have e12 : SEff s s2 := ⟨e1.trans e2, by rw [hs2, hs1]; omega⟩
      split
      · have hv2 : aget s2.vals a = some { v with tokens := v.tokens - burn } := by
          rw [(burnFrom_frame hb).vals]; exact hv1
        exact e12.trans (forceUnstake_seff e12.acct (e12.poolBacks hp) hv2)
      · exact e12
theorem jail_cases {s s' : State} {a : Addr} (hj : jail s a = some s') :
    ∃ v, aget s.vals a = some v ∧ v.jailed = false ∧
      s' = delStaked (setVal s a { v with jailed := true }) a { v with jailed := true } := by
  unfold jail at hj
  split at hj
  · simp at hj
  · rename_i v hv
    split at hj
    · simp at hj
    · rename_i hjl
      simp only [Option.some.injEq] at hj
      exact ⟨v, hv, by simpa using hjl, hj.symm⟩

theorem jail_frame {s s' : State} {a : Addr} (hj : jail s a = some s') :
    SlashFrame s s' ∧ s'.sign = s.sign := by
  obtain ⟨v, _, _, rfl⟩ := jail_cases hj
  exact ⟨(setVal_frame _ _ _).trans (delStaked_frame _ _ _), rfl⟩

theorem jail_seff {s s' : State} (h : Acct s) {a : Addr} (hj : jail s a = some s') : SEff s s' := by
  obtain ⟨v, hv, _, rfl⟩ := jail_cases hj
  obtain ⟨e, hs⟩ := eff_setVal (s' := delStaked (setVal s a { v with jailed := true }) a { v with jailed := true })
    (v' := { v with jailed := true }) h hv
    ((setVal_frame _ _ _).trans (delStaked_frame _ _ _)) rfl rfl rfl rfl
    (h.wf.tokNonneg _ (mem_of_aget hv)) (h.wf.statusOK _ (mem_of_aget hv)) (h.ue a v hv)
  refine ⟨e, ?_⟩
  rw [hs]
  have : stk { v with jailed := true } = stk v := rfl
  omega

/-- shape of the result of `handleSignature` -/
theorem handleSignature_cases {s s' : State} {a : Addr} {pw : Int} {signed : Bool}
    (hh : handleSignature s a pw signed = some s') :
    (∃ bits x, s' = { s with missedBits := bits, sign := aset s.sign a x }) ∨
    (∃ bits bits' ih x s3, jail (slash { s with missedBits := bits } a ih pw s.p.sfDown) a = some s3 ∧
        s' = { s3 with missedBits := bits', sign := aset s3.sign a x }) := by
  unfold handleSignature at hh
  split at hh
  · simp at hh
  split at hh
  · simp at hh
  rename_i si hsi
  split at hh
  · simp at hh
  simp only [] at hh
  generalize (if (!bitGet s.missedBits a (si.offset.tmod s.p.window) && !signed) = true then
      (bitSet s.missedBits a (si.offset.tmod s.p.window) true, si.missed + 1)
    else if (bitGet s.missedBits a (si.offset.tmod s.p.window) && !!signed) = true then
      (bitSet s.missedBits a (si.offset.tmod s.p.window) false, si.missed - 1)
    else (s.missedBits, si.missed)) = pr at hh
  split at hh
  · split at hh
    · split at hh
      · split at hh
        · simp at hh
        · rename_i s3 hj
          simp only [Option.some.injEq] at hh
          exact Or.inr ⟨_, _, _, _, s3, hj, hh.symm⟩
      · simp only [Option.some.injEq] at hh
        exact Or.inl ⟨_, _, hh.symm⟩
    · simp only [Option.some.injEq] at hh
      exact Or.inl ⟨_, _, hh.symm⟩
  · simp only [Option.some.injEq] at hh
    exact Or.inl ⟨_, _, hh.symm⟩

theorem handleSignature_frame {s s' : State} {a : Addr} {pw : Int} {signed : Bool}
    (hh : handleSignature s a pw signed = some s') : SlashFrame s s' := by
  rcases handleSignature_cases hh with ⟨bits, x, rfl⟩ | ⟨bits, bits', ih, x, s3, hj, rfl⟩
  · frame_rfl
  · have h1 : SlashFrame s { s with missedBits := bits } := by frame_rfl
    have h2 := slash_frame { s with missedBits := bits } a ih pw s.p.sfDown
    have h3 := (jail_frame hj).1
    have h4 : SlashFrame s3 { s3 with missedBits := bits', sign := aset s3.sign a x } := by frame_rfl
    exact ((h1.trans h2).trans h3).trans h4

theorem handleSignature_seff {s s' : State} (h : Acct s) (hp : PoolBacks s) {a : Addr} {pw : Int} {signed : Bool}
    (hh : handleSignature s a pw signed = some s') : SEff s s' := by
  rcases handleSignature_cases hh with ⟨bits, x, rfl⟩ | ⟨bits, bits', ih, x, s3, hj, rfl⟩
  · exact seff_of_same h (by frame_rfl) rfl rfl rfl (keysAsc_aset h.wf.signAsc _ _)
  · have e1 : SEff s { s with missedBits := bits } := seff_of_same h (by frame_rfl) rfl rfl rfl h.wf.signAsc
    have e2 := slash_seff e1.acct (e1.poolBacks hp) a ih pw s.p.sfDown
    have e3 := jail_seff e2.acct hj
    have e4 : SEff s3 { s3 with missedBits := bits', sign := aset s3.sign a x } :=
      seff_of_same e3.acct (by frame_rfl) rfl rfl rfl (keysAsc_aset e3.acct.wf.signAsc _ _)
    exact ((e1.trans e2).trans e3).trans e4
/-- shape of the result of `handleDoubleSign` -/
theorem handleDoubleSign_cases {s s' : State} {a : Addr} {ih et pw : Int}
    (hh : handleDoubleSign s a ih et pw = some s') :
    s' = s ∨
    ∃ s2 v2 x, (s2 = slash s a (ih - 1) pw s.p.sfDouble ∨ jail (slash s a (ih - 1) pw s.p.sfDouble) a = some s2) ∧
      aget s2.vals a = some v2 ∧
      s' = { forceUnstake s2 a v2 with sign := aset (forceUnstake s2 a v2).sign a x } := by
  unfold handleDoubleSign at hh
  split at hh
  · simp at hh
  split at hh
  · simp only [Option.some.injEq] at hh; exact Or.inl hh.symm
  split at hh
  · simp at hh
  rename_i v hv
  split at hh
  · simp at hh
  split at hh
  · simp at hh
  rename_i si hsi
  split at hh
  · simp at hh
  split at hh
  · simp at hh
  simp only [] at hh
  split at hh
  · simp at hh
  rename_i s2 hs2
  split at hh
  · simp at hh
  rename_i v2 hv2
  simp only [Option.some.injEq] at hh
  right
  refine ⟨s2, v2, _, ?_, hv2, hh.symm⟩
  split at hs2
  · exact Or.inr hs2
  · simp only [Option.some.injEq] at hs2; exact Or.inl hs2.symm

theorem handleDoubleSign_frame {s s' : State} {a : Addr} {ih et pw : Int}
    (hh : handleDoubleSign s a ih et pw = some s') : SlashFrame s s' := by
  rcases handleDoubleSign_cases hh with rfl | ⟨s2, v2, x, h2, hv2, rfl⟩
  · exact SlashFrame.refl _
  · have h1 := slash_frame s a (ih - 1) pw s.p.sfDouble
    have h12 : SlashFrame s s2 := by
      rcases h2 with rfl | hj
      · exact h1
      · exact h1.trans (jail_frame hj).1
    have h3 := forceUnstake_frame s2 a v2
    have h4 : SlashFrame (forceUnstake s2 a v2)
        { forceUnstake s2 a v2 with sign := aset (forceUnstake s2 a v2).sign a x } := by frame_rfl
    exact (h12.trans h3).trans h4

theorem handleDoubleSign_seff {s s' : State} (h : Acct s) (hp : PoolBacks s) {a : Addr} {ih et pw : Int}
    (hh : handleDoubleSign s a ih et pw = some s') : SEff s s' := by
  rcases handleDoubleSign_cases hh with rfl | ⟨s2, v2, x, h2, hv2, rfl⟩
  · exact SEff.refl h
  · have e1 := slash_seff h hp a (ih - 1) pw s.p.sfDouble
    have e12 : SEff s s2 := by
      rcases h2 with rfl | hj
      · exact e1
      · exact e1.trans (jail_seff e1.acct hj)
    have e3 := forceUnstake_seff e12.acct (e12.poolBacks hp) hv2
    have e4 : SEff (forceUnstake s2 a v2)
        { forceUnstake s2 a v2 with sign := aset (forceUnstake s2 a v2).sign a x } :=
      seff_of_same e3.acct (by frame_rfl) rfl rfl rfl (keysAsc_aset e3.acct.wf.signAsc _ _)
    exact (e12.trans e3).trans e4

/-! ### folds that may halt -/

/-- an invariant-style relation established by every step is established by the whole fold -/
theorem foldl_bind_rel {α : Type} (R : State → State → Prop)
    (f : State → α → Option State) (l : List α) (P : State → Prop)
    (hstep : ∀ s0 st x st', P st → R s0 st → f st x = some st' → P st' ∧ R s0 st')
    (s s' : State) (hP : P s) (hR : R s s)
    (hf : l.foldl (fun (st? : Option State) x => st?.bind fun st => f st x) (some s) = some s') :
    P s' ∧ R s s' := by
  suffices ∀ (l : List α) (st : State), P st → R s st →
      l.foldl (fun (st? : Option State) x => st?.bind fun st => f st x) (some st) = some s' → P s' ∧ R s s' from
    this l s hP hR hf
  intro l
  induction l with
  | nil => intro st hp hr h; simp only [List.foldl_nil, Option.some.injEq] at h; subst h; exact ⟨hp, hr⟩
  | cons x l ih =>
    intro st hp hr h
    simp only [List.foldl_cons, Option.bind_some] at h
    cases hx : f st x with
    | none =>
      rw [hx] at h
      have : ∀ l : List α, l.foldl (fun (st? : Option State) x => st?.bind fun st => f st x) none = none := by
        intro l; induction l with
        | nil => rfl
        | cons y l ih => simpa using ih
      rw [this] at h; simp at h
    | some st' =>
      rw [hx] at h
      obtain ⟨hp', hr'⟩ := hstep s st x st' hp hr hx
      exact ih st' hp' hr' h

/-! ### BeginBlock -/

theorem foldl_bind_none {α β : Type} (f : β → α → Option β) (l : List α) :
    l.foldl (fun (st? : Option β) x => st?.bind fun st => f st x) none = none := by
  induction l with
  | nil => rfl
  | cons y l ih => simpa using ih

/-- one custom burn -/
def burnOne (st : State) (e : Addr × Int) : Option State :=
  match aget st.vals e.1 with
  | none => none
  | some v =>
    if v.status == 2 && !Arith.isInt64 (power v.tokens) then none
    else some (slash st e.1 st.height (if v.status == 2 then power v.tokens else 0) e.2)

theorem burnValidators_eq (s : State) :
    burnValidators s =
      (s.burns.foldl (fun (st? : Option State) e => st?.bind fun st => burnOne st e) (some s)).map
        fun st => { st with burns := [] } := by
  unfold burnValidators
  simp only []
  congr 2
  funext st? e
  cases st? <;> rfl

theorem burnOne_spec {st st' : State} {e : Addr × Int} (h : Acct st) (hp : PoolBacks st)
    (hb : burnOne st e = some st') : SEff st st' ∧ SlashFrame st st' := by
  unfold burnOne at hb
  split at hb
  · simp at hb
  · split at hb
    · simp at hb
    simp only [Option.some.injEq] at hb; subst hb
    exact ⟨slash_seff h hp _ _ _ _, slash_frame _ _ _ _ _⟩

/-- the custom burns of BeginBlock: a slashing-type update, then the burn queue is emptied -/
theorem burnValidators_spec {s s' : State} (h : Acct s) (hp : PoolBacks s) (hb : burnValidators s = some s') :
    ∃ st, SEff s st ∧ SlashFrame s st ∧ s' = { st with burns := [] } := by
  rw [burnValidators_eq] at hb
  cases hf : s.burns.foldl (fun (st? : Option State) e => st?.bind fun st => burnOne st e) (some s) with
  | none => rw [hf] at hb; simp at hb
  | some st =>
    rw [hf] at hb; simp only [Option.map_some, Option.some.injEq] at hb
    obtain ⟨_, e, f⟩ := foldl_bind_rel (fun a b => SEff a b ∧ SlashFrame a b) burnOne s.burns
      (fun st => Acct st ∧ PoolBacks st)
      (by
        intro s0 st x st' ⟨ha, hpb⟩ ⟨e0, f0⟩ hx
        obtain ⟨e1, f1⟩ := burnOne_spec ha hpb hx
        exact ⟨⟨e1.acct, e1.poolBacks hpb⟩, e0.trans e1, f0.trans f1⟩)
      s st ⟨h, hp⟩ ⟨SEff.refl h, SlashFrame.refl s⟩ hf
    exact ⟨st, e, f, hb.symm⟩

/-- a successful `send` keeps the bank consistent -/
theorem send_bank {s s' : State} (h : BalWF s.bal) {src dst : Addr} {amt : Int} (hamt : 0 ≤ amt)
    (hs : send s src dst amt = some s') :
    BankFrame s s' ∧ BalWF s'.bal ∧ s'.supply = s.supply ∧ sumBal s' = sumBal s ∧
    ∀ b, balOf s' b = balOf s b - (if b = src then amt else 0) + (if b = dst then amt else 0) :=
  ⟨send_frame hs, balWF_send h hamt hs, send_supply hs, sumBal_send h.asc hs, balOf_send h.asc hs⟩

/-- `rewardFromFees`: a pure bank operation moving the collected fees -/
theorem rewardFromFees_spec {s : State} (h : WF s) :
    BankFrame s (rewardFromFees s) ∧ BalWF (rewardFromFees s).bal ∧ (rewardFromFees s).supply = s.supply ∧
    sumBal (rewardFromFees s) = sumBal s ∧
    ∀ b, balOf (rewardFromFees s) b = balOf s b - (if b = s.feeAcc then balOf s s.feeAcc else 0) +
      (if (aget s.vals s.proposer).isSome then (if b = s.proposer then balOf s s.feeAcc else 0)
       else (if b = s.posAcc then balOf s s.feeAcc else 0)) := by
  have hF : 0 ≤ balOf s s.feeAcc := balOf_nonneg h.balWF _
  unfold rewardFromFees
  simp only []
  cases h1 : send s s.feeAcc s.posAcc (balOf s s.feeAcc) with
  | none => rw [send_eq_some (Int.le_refl _)] at h1; simp at h1
  | some s1 =>
    obtain ⟨f1, w1, p1, m1, b1⟩ := send_bank h.balWF hF h1
    simp only []
    rw [f1.vals]
    split
    · rename_i hval
      have hpos : balOf s s.feeAcc ≤ balOf s1 s1.posAcc := by
        rw [f1.posAcc, b1]
        have := balOf_nonneg h.balWF s.posAcc
        have hne : s.posAcc ≠ s.feeAcc := fun e => h.modsDistinct.2.2.2.1 e.symm
        simp [hne]; omega
      cases h2 : send s1 s1.posAcc s.proposer (balOf s s.feeAcc) with
      | none => rw [send_eq_some hpos] at h2; simp at h2
      | some s2 =>
        obtain ⟨f2, w2, p2, m2, b2⟩ := send_bank w1 hF h2
        simp only [Option.getD_some]
        refine ⟨f1.trans f2, w2, p2.trans p1, m2.trans m1, ?_⟩
        intro b
        rw [b2, b1, f1.posAcc]
        by_cases hb : b = s.posAcc <;> simp [hb] <;> omega
    · rename_i hval
      refine ⟨f1, w1, p1, m1, ?_⟩
      intro b; rw [b1]

/-- one award: mint into the pool, pay out of the pool -/
def awardStep (st : State) (e : Addr × Int) : State :=
  (send (mint st st.pool e.2) (mint st st.pool e.2).pool e.1 e.2).getD (mint st st.pool e.2)

theorem awardStep_spec {st : State} (h : BalWF st.bal) {e : Addr × Int} (he : 0 ≤ e.2) :
    BankFrame st (awardStep st e) ∧ BalWF (awardStep st e).bal ∧ (awardStep st e).supply = st.supply + e.2 ∧
    sumBal (awardStep st e) = sumBal st + e.2 ∧
    ∀ b, balOf (awardStep st e) b = balOf st b + (if b = e.1 then e.2 else 0) := by
  have w1 := balWF_mint h st.pool he
  have b1 := balOf_mint h.asc st.pool e.2
  have hle : e.2 ≤ balOf (mint st st.pool e.2) (mint st st.pool e.2).pool := by
    rw [(mint_frame _ _ _).pool, b1]; have := balOf_nonneg h st.pool; simp; omega
  unfold awardStep
  cases h2 : send (mint st st.pool e.2) (mint st st.pool e.2).pool e.1 e.2 with
  | none => rw [send_eq_some hle] at h2; simp at h2
  | some s2 =>
    obtain ⟨f2, w2, p2, m2, b2⟩ := send_bank w1 he h2
    simp only [Option.getD_some]
    refine ⟨(mint_frame _ _ _).trans f2, w2, by rw [p2]; rfl, by rw [m2, sumBal_mint h.asc], ?_⟩
    intro b
    rw [b2, b1, (mint_frame _ _ _).pool]
    by_cases hb : b = st.pool <;> simp [hb]

theorem awardFold_spec (l : List (Addr × Int)) (hl : KeysAsc l) (hpos : ∀ e ∈ l, 0 ≤ e.2)
    (st : State) (h : BalWF st.bal) :
    BankFrame st (l.foldl awardStep st) ∧ BalWF (l.foldl awardStep st).bal ∧
    (l.foldl awardStep st).supply = st.supply + (l.map (·.2)).sum ∧
    sumBal (l.foldl awardStep st) = sumBal st + (l.map (·.2)).sum ∧
    ∀ b, balOf (l.foldl awardStep st) b = balOf st b + (aget l b).getD 0 := by
  induction l generalizing st with
  | nil => exact ⟨BankFrame.refl _, h, by simp, by simp, by simp⟩
  | cons e l ih =>
    obtain ⟨k, x⟩ := e
    have hl' := keysAsc_cons.1 hl
    obtain ⟨f1, w1, p1, m1, b1⟩ := awardStep_spec (e := (k, x)) h (hpos _ (by simp))
    obtain ⟨f2, w2, p2, m2, b2⟩ := ih hl'.2 (fun e he => hpos e (by simp [he])) _ w1
    simp only [List.foldl_cons]
    refine ⟨f1.trans f2, w2, ?_, ?_, ?_⟩
    · rw [p2, p1]; simp; omega
    · rw [m2, m1]; simp; omega
    · intro b
      rw [b2, b1, aget_cons]
      by_cases hb : k = b
      · subst hb
        rw [aget_eq_none_of_forall_lt hl'.1]; simp
      · have hb' : b ≠ k := fun e => hb e.symm
        simp [hb, hb']

theorem mintAwards_eq (s : State) :
    mintAwards s = if s.awards.any (fun e => e.2 < 0) then none
      else some { s.awards.foldl awardStep s with awards := [] } := rfl

/-- `mintValidatorAwards`: every queued award is minted and paid once, then the queue is emptied -/
theorem mintAwards_spec {s s' : State} (h : WF s) (hm : mintAwards s = some s') :
    (∀ e ∈ s.awards, 0 ≤ e.2) ∧
    ∃ st, s' = { st with awards := [] } ∧ BankFrame s st ∧ BalWF st.bal ∧
      st.supply = s.supply + awardSum s ∧ sumBal st = sumBal s + awardSum s ∧
      ∀ b, balOf st b = balOf s b + (aget s.awards b).getD 0 := by
  rw [mintAwards_eq] at hm
  split at hm
  · simp at hm
  · rename_i hany
    have hpos : ∀ e ∈ s.awards, 0 ≤ e.2 := by
      intro e he
      simp only [List.any_eq_true, decide_eq_true_eq, not_exists, not_and] at hany
      have := hany e he; omega
    simp only [Option.some.injEq] at hm
    exact ⟨hpos, _, hm.symm, awardFold_spec s.awards h.awardsAsc hpos s h.balWF⟩

theorem WF.with_height_time {s : State} (h : WF s) (ht tm : Int) : WF { s with height := ht, time := tm } :=
  { h with }
theorem WF.with_awards_nil {s : State} (h : WF s) : WF { s with awards := [] } :=
  { h with awardsAsc := keysAsc_nil }
theorem WF.with_burns_nil {s : State} (h : WF s) : WF { s with burns := [] } :=
  { h with burnsAsc := keysAsc_nil }
theorem WF.with_proposer {s : State} (h : WF s) (p : Addr) : WF { s with proposer := p } :=
  { h with }

/-- what BeginBlock's fee distribution does to account `b` -/
def feeShare (s : State) (b : Addr) : Int :=
  if s.height + 1 > 1 then
    (if (aget s.vals s.proposer).isSome then (if b = s.proposer then balOf s s.feeAcc else 0)
     else (if b = s.posAcc then balOf s s.feeAcc else 0)) - (if b = s.feeAcc then balOf s s.feeAcc else 0)
  else 0

/-- the state after the header update and the fee distribution -/
def beginPre (s : State) (time : Int) : State :=
  if s.height + 1 > 1 then rewardFromFees2 (rewardFromFees { s with height := s.height + 1, time := time })
  else { s with height := s.height + 1, time := time }

/-- the part of BeginBlock after the custom burns -/
def beginPost (s3 : State) (p : Addr) (votes : List Vote) (evs : List Evidence) : Option State :=
  evs.foldl (fun (st? : Option State) e => st?.bind fun st => handleDoubleSign st e.addr e.height e.time e.power)
    (votes.foldl (fun (st? : Option State) v => st?.bind fun st => handleSignature st v.addr v.power v.signed)
      (some { s3 with proposer := p }))

theorem beginBlock_eq (s : State) (time : Int) (p : Addr) (votes : List Vote) (evs : List Evidence) :
    beginBlock s time p votes evs =
      ((mintAwards (beginPre s time)).bind burnValidators).bind fun s3 => beginPost s3 p votes evs := by
  unfold beginBlock beginPre beginPost
  simp only []
  cases (mintAwards (if s.height + 1 > 1 then rewardFromFees2 (rewardFromFees { s with height := s.height + 1, time := time })
      else { s with height := s.height + 1, time := time })).bind burnValidators <;> rfl

theorem beginPre_spec {s : State} (h : WF s) (time : Int) :
    WF (beginPre s time) ∧ (beginPre s time).pool = s.pool ∧ (beginPre s time).vals = s.vals ∧
    (beginPre s time).awards = s.awards ∧ (beginPre s time).supply = s.supply ∧
    sumBal (beginPre s time) = sumBal s ∧
    ∀ b, balOf (beginPre s time) b = balOf s b + feeShare s b := by
  unfold beginPre feeShare
  have h0 : WF { s with height := s.height + 1, time := time } := h.with_height_time _ _
  split
  · obtain ⟨f, w, p, m, b⟩ := rewardFromFees_spec h0
    rw [rewardFromFees2_frame]
    refine ⟨(wf_bal2 _).2 (h0.of_bankFrame f w), f.pool, f.vals, f.awards, p, m, ?_⟩
    intro x
    show balOf (rewardFromFees { s with height := s.height + 1, time := time }) x = _
    rw [b]
    show balOf s x - (if x = s.feeAcc then balOf s s.feeAcc else 0) +
      (if (aget s.vals s.proposer).isSome then (if x = s.proposer then balOf s s.feeAcc else 0)
       else (if x = s.posAcc then balOf s s.feeAcc else 0)) = _
    omega
  · exact ⟨h0, rfl, rfl, rfl, rfl, rfl, fun b => by simp; rfl⟩

theorem votes_spec {s s' : State} (votes : List Vote) (h : Acct s) (hp : PoolBacks s)
    (hf : votes.foldl (fun (st? : Option State) v => st?.bind fun st => handleSignature st v.addr v.power v.signed)
      (some s) = some s') : SEff s s' ∧ SlashFrame s s' := by
  obtain ⟨_, e, f⟩ := foldl_bind_rel (fun a b => SEff a b ∧ SlashFrame a b)
    (fun st (v : Vote) => handleSignature st v.addr v.power v.signed) votes
    (fun st => Acct st ∧ PoolBacks st)
    (by
      intro s0 st x st' ⟨ha, hpb⟩ ⟨e0, f0⟩ hx
      have e1 := handleSignature_seff ha hpb hx
      exact ⟨⟨e1.acct, e1.poolBacks hpb⟩, e0.trans e1, f0.trans (handleSignature_frame hx)⟩)
    s s' ⟨h, hp⟩ ⟨SEff.refl h, SlashFrame.refl s⟩ hf
  exact ⟨e, f⟩

theorem evs_spec {s s' : State} (evs : List Evidence) (h : Acct s) (hp : PoolBacks s)
    (hf : evs.foldl (fun (st? : Option State) e => st?.bind fun st => handleDoubleSign st e.addr e.height e.time e.power)
      (some s) = some s') : SEff s s' ∧ SlashFrame s s' := by
  obtain ⟨_, e, f⟩ := foldl_bind_rel (fun a b => SEff a b ∧ SlashFrame a b)
    (fun st (e : Evidence) => handleDoubleSign st e.addr e.height e.time e.power) evs
    (fun st => Acct st ∧ PoolBacks st)
    (by
      intro s0 st x st' ⟨ha, hpb⟩ ⟨e0, f0⟩ hx
      have e1 := handleDoubleSign_seff ha hpb hx
      exact ⟨⟨e1.acct, e1.poolBacks hpb⟩, e0.trans e1, f0.trans (handleDoubleSign_frame hx)⟩)
    s s' ⟨h, hp⟩ ⟨SEff.refl h, SlashFrame.refl s⟩ hf
  exact ⟨e, f⟩

theorem beginPost_spec {s3 s' : State} {p : Addr} {votes : List Vote} {evs : List Evidence}
    (h : Acct s3) (hp : PoolBacks s3) (hb : beginPost s3 p votes evs = some s') :
    SEff s3 s' ∧ s'.proposer = p ∧ s'.awards = s3.awards := by
  unfold beginPost at hb
  cases hv : votes.foldl (fun (st? : Option State) v => st?.bind fun st => handleSignature st v.addr v.power v.signed)
      (some { s3 with proposer := p }) with
  | none => rw [hv, foldl_bind_none] at hb; simp at hb
  | some s5 =>
    rw [hv] at hb
    have e4 : SEff s3 { s3 with proposer := p } := seff_of_wf h (h.wf.with_proposer p) rfl rfl rfl rfl
    obtain ⟨e5, f5⟩ := votes_spec votes e4.acct (e4.poolBacks hp) hv
    obtain ⟨e6, f6⟩ := evs_spec evs e5.acct (e5.poolBacks (e4.poolBacks hp)) hb
    exact ⟨(e4.trans e5).trans e6, by rw [f6.proposer, f5.proposer], by rw [f6.awards, f5.awards]⟩

/-- everything the accounting theorems need to know about a successful BeginBlock -/
structure BeginSpec (s s' : State) (p : Addr) : Prop where
  acct : Acct s'
  pool : s'.pool = s.pool
  awardsNonneg : ∀ e ∈ s.awards, 0 ≤ e.2
  surplus : poolSurplus s' = poolSurplus s + (aget s.awards s.pool).getD 0
  net : s'.supply - stakeSum s' = s.supply - stakeSum s + awardSum s
  bal : ∀ b, b ≠ s.pool → balOf s' b = balOf s b + (aget s.awards b).getD 0 + feeShare s b
  proposer : s'.proposer = p
  awards : s'.awards = []

theorem beginBlock_spec {s s' : State} {time : Int} {p : Addr} {votes : List Vote} {evs : List Evidence}
    (h : Acct s) (hp : PoolBacks s) (hb : beginBlock s time p votes evs = some s') : BeginSpec s s' p := by
  rw [beginBlock_eq] at hb
  obtain ⟨w1, pool1, vals1, aw1, sup1, sum1, bal1⟩ := beginPre_spec h.wf time
  cases hm : mintAwards (beginPre s time) with
  | none => rw [hm] at hb; simp at hb
  | some s2 =>
    rw [hm] at hb
    simp only [Option.bind_some] at hb
    cases hbv : burnValidators s2 with
    | none => rw [hbv] at hb; simp at hb
    | some s3 =>
      rw [hbv] at hb
      simp only [Option.bind_some] at hb
      obtain ⟨hpos, st, rfl, f2, w2, sup2, sum2, bal2⟩ := mintAwards_spec w1 hm
      rw [aw1] at hpos bal2
      have hawardSum : awardSum (beginPre s time) = awardSum s := by unfold awardSum; rw [aw1]
      rw [hawardSum] at sup2 sum2
      -- the state after minting
      have wst : WF st := w1.of_bankFrame f2 w2
      have a2 : Acct { st with awards := [] } := by
        refine ⟨wst.with_awards_nil, ?_, ?_⟩
        · show st.supply = sumBal st
          rw [sup2, sum2, sup1, sum1, h.supplyOK]
        · exact unstakedEmpty_congr (f2.vals.trans vals1) h.ue
      have hfeePool : feeShare s s.pool = 0 := by
        unfold feeShare
        have hm := h.wf.modsDistinct
        split
        · split
          · rename_i hval
            obtain ⟨v, hv⟩ := Option.isSome_iff_exists.1 hval
            have := h.wf.val_not_mod hv
            simp [hm.1, Ne.symm this.1]
          · simp [hm.1, hm.2.1]
        · rfl
      have hstake2 : stakeSum { st with awards := [] } = stakeSum s := stakeSum_congr (f2.vals.trans vals1)
      have hsur2 : poolSurplus { st with awards := [] } = poolSurplus s + (aget s.awards s.pool).getD 0 := by
        unfold poolSurplus
        rw [hstake2]
        show balOf st st.pool - stakeSum s = _
        rw [f2.pool, pool1, bal2, bal1, hfeePool]; omega
      have hap : 0 ≤ (aget s.awards s.pool).getD 0 := by
        cases hg : aget s.awards s.pool with
        | none => simp
        | some x => simpa using hpos _ (mem_of_aget hg)
      have hp2 : PoolBacks { st with awards := [] } := by
        rw [poolBacks_iff] at *; rw [hsur2]; omega
      obtain ⟨st3, e3, f3, rfl⟩ := burnValidators_spec a2 hp2 hbv
      have e3' : SEff st3 { st3 with burns := [] } := seff_of_wf e3.acct e3.acct.wf.with_burns_nil rfl rfl rfl rfl
      have e23 := e3.trans e3'
      obtain ⟨e4, hprop, haw⟩ := beginPost_spec e23.acct (e23.poolBacks hp2) hb
      have e := e23.trans e4
      have hpool2 : ({ st with awards := [] } : State).pool = s.pool := f2.pool.trans pool1
      refine ⟨e.acct, e.pool.trans hpool2, hpos, by rw [e.surplus, hsur2], ?_, ?_, hprop, ?_⟩
      · rw [e.supply_stake, hstake2]
        show st.supply - stakeSum s = _
        rw [sup2, sup1]; omega
      · intro b hb
        rw [e.bal b (by rw [hpool2]; exact hb)]
        show balOf st b = _
        rw [bal2, bal1]; omega
      · rw [haw]; show st3.awards = []; rw [f3.awards]

/-! ### EndBlock -/

theorem scanIndex_prevAsc (s : State) (l : List (Int × Addr)) :
    ∀ (c : Nat) (ups prev rem : List (Addr × Int)) (tot : Int)
      (r : List (Addr × Int) × List (Addr × Int) × List (Addr × Int) × Int),
      KeysAsc prev → scanIndex s l c ups prev rem tot = some r → KeysAsc r.2.1 := by
  induction l with
  | nil =>
    intro c ups prev rem tot r hp hr
    simp only [scanIndex, Option.some.injEq] at hr; subst hr; exact hp
  | cons e l ih =>
    intro c ups prev rem tot r hp hr
    obtain ⟨pw, a⟩ := e
    unfold scanIndex at hr
    split at hr
    · simp only [Option.some.injEq] at hr; subst hr; exact hp
    · split at hr
      · simp at hr
      · split at hr
        · simp at hr
        · split at hr
          · simp at hr
          · simp only [] at hr
            refine ih _ _ _ _ _ r ?_ hr
            have : ∀ (c : Bool) (x : Int), KeysAsc (if c = true then aset prev a x else prev) := by
              intro c x; cases c
              · exact hp
              · exact keysAsc_aset hp _ _
            exact this _ _

theorem foldl_adel_keysAsc {α β : Type} (rem : List (Addr × β)) (p : List (Addr × α)) (hp : KeysAsc p) :
    KeysAsc (rem.foldl (fun p e => adel p e.1) p) := by
  induction rem generalizing p with
  | nil => exact hp
  | cons e rem ih => exact ih _ (keysAsc_adel hp _)

/-- `UpdateTendermintValidators` only rewrites the record of Tendermint's set -/
theorem updateValidators_cases {s s1 : State} {ups : List (Addr × Int)}
    (hu : updateValidators s = some (s1, ups)) :
    ∃ prev2 pt, s1 = { s with prev := prev2, prevTot := pt } ∧ (KeysAsc s.prev → KeysAsc prev2) := by
  unfold updateValidators at hu
  split at hu
  · simp at hu
  · rename_i upsRev prev1 remaining tot hscan
    split at hu
    · simp at hu
    · simp only [Option.some.injEq, Prod.mk.injEq] at hu
      refine ⟨_, _, hu.1.symm, fun hp => ?_⟩
      exact foldl_adel_keysAsc _ _ (scanIndex_prevAsc s _ _ _ _ _ _ _ hp hscan)

theorem updateValidators_seff {s s1 : State} {ups : List (Addr × Int)} (h : Acct s)
    (hu : updateValidators s = some (s1, ups)) : SEff s s1 ∧ s1.supply = s.supply := by
  obtain ⟨prev2, pt, rfl, hp⟩ := updateValidators_cases hu
  exact ⟨seff_of_wf h { h.wf with prevAsc := hp h.wf.prevAsc } rfl rfl rfl rfl, rfl⟩

/-- shape of a pay-out -/
theorem finishOne_cases {s s' : State} {a : Addr} (hf : finishOne s a = some s') :
    s' = s ∨ ∃ v s2, aget s.vals a = some v ∧ v.status = 1 ∧
      send (dequeue s a v.unstake) (dequeue s a v.unstake).pool a v.tokens = some s2 ∧
      s' = { s2 with vals := adel s2.vals a } := by
  unfold finishOne at hf
  split at hf
  · simp only [Option.some.injEq] at hf; exact Or.inl hf.symm
  · rename_i v hv
    split at hf
    · simp only [Option.some.injEq] at hf; exact Or.inl hf.symm
    · rename_i hst
      split at hf
      · simp at hf
      · simp only [] at hf
        split at hf
        · simp at hf
        · rename_i s2 hs2
          simp only [Option.some.injEq] at hf
          exact Or.inr ⟨v, s2, hv, by simpa using hst, hs2, hf.symm⟩

/-- Effect of an EndBlock-type update: accounting stays consistent, no coin is created or destroyed,
and the pool's surplus over the recorded stake is unchanged. -/
structure PayEff (s s' : State) : Prop where
  frame : SlashFrame s s'
  acct : Acct s'
  supply : s'.supply = s.supply
  surplus : poolSurplus s' = poolSurplus s

theorem PayEff.refl {s : State} (h : Acct s) : PayEff s s := ⟨SlashFrame.refl s, h, rfl, rfl⟩
theorem PayEff.trans {a b c : State} (h1 : PayEff a b) (h2 : PayEff b c) : PayEff a c :=
  ⟨h1.frame.trans h2.frame, h2.acct, h2.supply.trans h1.supply, h2.surplus.trans h1.surplus⟩
theorem PayEff.poolBacks {s s' : State} (h : PayEff s s') (hp : PoolBacks s) : PoolBacks s' := by
  rw [poolBacks_iff] at *; rw [h.surplus]; exact hp

/-- the pay-out of a mature validator: exact balances -/
theorem finishOne_exact {s s' : State} (h : Acct s) {a : Addr} {v : Val} (hv : aget s.vals a = some v)
    (hst : v.status = 1) (hf : finishOne s a = some s') :
    PayEff s s' ∧ s'.vals = adel s.vals a ∧
    ∀ b, balOf s' b = balOf s b - (if b = s.pool then v.tokens else 0) + (if b = a then v.tokens else 0) := by
  unfold finishOne at hf
  rw [hv] at hf
  simp only [hst, bne_self_eq_false, Bool.false_eq_true, if_false] at hf
  split at hf
  · simp at hf
  split at hf
  · simp at hf
  rename_i s2 hs2
  simp only [Option.some.injEq] at hf
  subst hf
  have hnn : 0 ≤ v.tokens := h.wf.tokNonneg _ (mem_of_aget hv)
  have hw1 : BalWF (dequeue s a v.unstake).bal := h.wf.balWF
  obtain ⟨f2, w2, p2, m2, b2⟩ := send_bank hw1 hnn hs2
  obtain ⟨sf, hsf⟩ : ∃ sf : State, sf = { s2 with vals := adel s2.vals a } := ⟨_, rfl⟩
  rw [← hsf]
  have hvals : sf.vals = adel s.vals a := by
    rw [hsf]; show adel s2.vals a = adel s.vals a
    rw [f2.vals]; rfl
  have hfr : SlashFrame s sf := by
    rw [hsf]; exact ((dequeue_frame s a v.unstake).trans f2.toSlashFrame).trans (by frame_rfl)
  have hbalf : sf.bal = s2.bal := by rw [hsf]
  have hsupf : sf.supply = s2.supply := by rw [hsf]
  have hsignf : sf.sign = s2.sign := by rw [hsf]
  clear hsf
  have hne := h.wf.val_not_mod hv
  have hbal : ∀ b, balOf sf b =
      balOf s b - (if b = s.pool then v.tokens else 0) + (if b = a then v.tokens else 0) := by
    intro b
    rw [balOf_congr hbalf, b2]; rfl
  refine ⟨⟨hfr, ⟨?_, ?_, ?_⟩, ?_, ?_⟩, hvals, hbal⟩
  · refine h.wf.of_slashFrame hfr (by rw [hbalf]; exact w2) ?_ ?_
    · rw [hvals]; exact h.wf.valsWF.erase a
    · rw [hsignf, f2.sign]; exact h.wf.signAsc
  · unfold SupplyOK
    rw [hsupf, sumBal_congr hbalf, p2, m2]; exact h.supplyOK
  · exact unstakedEmpty_adel h.ue h.wf.valsAsc hvals
  · rw [hsupf, p2]; rfl
  · unfold poolSurplus
    rw [stakeSum_adel a hvals, hv, hfr.pool, hbal]
    have : stk v = v.tokens := stk_of_status_ne (by omega)
    simp [this, Ne.symm hne.1]; omega

theorem finishOne_payEff {s s' : State} (h : Acct s) {a : Addr} (hf : finishOne s a = some s') : PayEff s s' := by
  rcases finishOne_cases hf with rfl | ⟨v, s2, hv, hst, _, _⟩
  · exact PayEff.refl h
  · exact (finishOne_exact h hv hst hf).1

/-- one slot of the unstaking queue -/
def finishSlot (st : State) (slot : Int × List Addr) : Option State :=
  (slot.2.foldl (fun (x? : Option State) a => x?.bind fun x => finishOne x a) (some st)).map
    fun x => { x with queue := qDel x.queue slot.1 }

theorem unstakeMature_eq (s : State) :
    unstakeMature s = (s.queue.filter (fun e => e.1 ≤ s.time)).foldl
      (fun (st? : Option State) slot => st?.bind fun st => finishSlot st slot) (some s) := rfl

theorem finishSlot_payEff {s s' : State} (h : Acct s) {slot : Int × List Addr}
    (hf : finishSlot s slot = some s') : PayEff s s' := by
  unfold finishSlot at hf
  cases hx : slot.2.foldl (fun (x? : Option State) a => x?.bind fun x => finishOne x a) (some s) with
  | none => rw [hx] at hf; simp at hf
  | some x =>
    rw [hx] at hf
    simp only [Option.map_some, Option.some.injEq] at hf
    subst hf
    obtain ⟨hax, e⟩ := foldl_bind_rel PayEff (fun x a => finishOne x a) slot.2 Acct
      (by
        intro s0 st a st' ha e0 hx
        have e1 := finishOne_payEff ha hx
        exact ⟨e1.acct, e0.trans e1⟩)
      s x h (PayEff.refl h) hx
    have e2 : SEff x { x with queue := qDel x.queue slot.1 } :=
      seff_of_same hax (by frame_rfl) rfl rfl rfl hax.wf.signAsc
    exact e.trans ⟨by frame_rfl, e2.acct, rfl, e2.surplus⟩

theorem unstakeMature_payEff {s s' : State} (h : Acct s) (hf : unstakeMature s = some s') : PayEff s s' := by
  rw [unstakeMature_eq] at hf
  exact (foldl_bind_rel PayEff finishSlot _ Acct
    (by
      intro s0 st slot st' ha e0 hx
      have e1 := finishSlot_payEff ha hx
      exact ⟨e1.acct, e0.trans e1⟩)
    s s' h (PayEff.refl h) hf).2

theorem endBlock_cases {s s' : State} {ups : List (Addr × Int)} (he : endBlock s = some (s', ups)) :
    ∃ s1, updateValidators s = some (s1, ups) ∧ unstakeMature s1 = some s' := by
  unfold endBlock at he
  split at he
  · simp at he
  · rename_i s1 ups1 hu
    cases hm : unstakeMature s1 with
    | none => rw [hm] at he; simp at he
    | some s2 =>
      rw [hm] at he
      simp only [Option.map_some, Option.some.injEq, Prod.mk.injEq] at he
      obtain ⟨rfl, rfl⟩ := he
      exact ⟨s1, hu, hm⟩

/-- EndBlock keeps the accounting consistent, creates and destroys nothing, and leaves the pool's
surplus alone -/
theorem endBlock_spec {s s' : State} {ups : List (Addr × Int)} (h : Acct s) (he : endBlock s = some (s', ups)) :
    Acct s' ∧ s'.pool = s.pool ∧ s'.supply = s.supply ∧ poolSurplus s' = poolSurplus s := by
  obtain ⟨s1, hu, hm⟩ := endBlock_cases he
  obtain ⟨e1, hsup1⟩ := updateValidators_seff h hu
  have e2 := unstakeMature_payEff e1.acct hm
  exact ⟨e2.acct, e2.frame.pool.trans e1.pool, e2.supply.trans hsup1, e2.surplus.trans e1.surplus⟩
/-! ### transactions -/

theorem lookup_mem {l : List (Nat × Addr)} {k : Nat} {a : Addr} (h : l.lookup k = some a) : (k, a) ∈ l := by
  induction l with
  | nil => simp at h
  | cons e l ih =>
    obtain ⟨k', a'⟩ := e
    simp only [List.lookup_cons] at h
    split at h
    · rename_i hk
      simp only [Option.some.injEq] at h
      have : k = k' := by simpa using hk
      subst this; subst h; simp
    · simp [ih h]

theorem keyAddr_isKey {s : State} {k : Nat} (h : (s.keys.lookup k).isSome) : ∃ e ∈ s.keys, e.2 = keyAddr s k := by
  obtain ⟨a, ha⟩ := Option.isSome_iff_exists.1 h
  exact ⟨(k, a), lookup_mem ha, by simp [keyAddr, ha]⟩

theorem digitsToInt_nonneg {cs : List Char} {n : Int} (h : digitsToInt cs = some n) : 0 ≤ n := by
  unfold digitsToInt at h
  split at h
  · simp at h
  · simp only [Option.some.injEq] at h
    subst h
    have : ∀ (l : List Char) (acc : Int), 0 ≤ acc →
        0 ≤ l.foldl (fun (acc : Int) c => acc * 10 + ((c.toNat - '0'.toNat : Nat) : Int)) acc := by
      intro l
      induction l with
      | nil => intro acc h; exact h
      | cons c l ih => intro acc h; exact ih _ (by show 0 ≤ acc * 10 + _; omega)
    exact this cs 0 (by omega)

theorem parseQuotedInt_nonneg {v : String} {n : Int} (h : parseQuotedInt v = some n) : 0 ≤ n := by
  unfold parseQuotedInt at h
  cases hu : unquote v with
  | none => rw [hu] at h; simp at h
  | some cs => rw [hu] at h; exact digitsToInt_nonneg h

/-- a parameter change touches only `p`, `acl` and `daoOwner`, and keeps the minimum stake non-negative -/
theorem applyParam_spec (s : State) (key val : String) :
    TxFrame s (applyParam s key val) ∧ (applyParam s key val).bal = s.bal ∧
    (applyParam s key val).supply = s.supply ∧ (applyParam s key val).vals = s.vals ∧
    (applyParam s key val).sign = s.sign ∧ (applyParam s key val).rel = s.rel ∧
    (0 ≤ s.p.minStake → 0 ≤ (applyParam s key val).p.minStake) := by
  unfold applyParam
  split
  all_goals first
    | exact ⟨by frame_rfl, rfl, rfl, rfl, rfl, rfl, fun h => h⟩
    | (split
       · first
         | exact ⟨by frame_rfl, rfl, rfl, rfl, rfl, rfl, fun h => h⟩
         | (rename_i n hn; exact ⟨by frame_rfl, rfl, rfl, rfl, rfl, rfl, fun _ => parseQuotedInt_nonneg hn⟩)
       · exact ⟨by frame_rfl, rfl, rfl, rfl, rfl, rfl, fun h => h⟩)

theorem anteOK_spec {s : State} {t : Tx} {sim : Bool} (h : anteOK s t sim = true) :
    0 ≤ t.feeEff ∧ (∃ k ∈ s.keys, k.2 = t.msg.signer s) ∧ t.feeEff ≤ balOf s (t.msg.signer s) := by
  unfold anteOK at h
  simp only [Bool.and_eq_true, decide_eq_true_eq] at h
  obtain ⟨⟨⟨⟨⟨hfee, _⟩, _⟩, hm⟩, _⟩, _⟩ := h
  refine ⟨by omega, ?_⟩
  split at hm
  · simp at hm
  · rename_i verif hverif
    simp only [Bool.and_eq_true, decide_eq_true_eq, beq_iff_eq] at hm
    obtain ⟨⟨⟨⟨⟨hv, _⟩, _⟩, _⟩, _⟩, hbal⟩ := hm
    refine ⟨?_, by omega⟩
    split at hverif
    · exact ⟨_, lookup_mem hverif, hv⟩
    · split at hverif
      · rename_i hany
        simp only [List.any_eq_true, Bool.and_eq_true, beq_iff_eq] at hany
        obtain ⟨k, hk, hk2, _⟩ := hany
        exact ⟨k, hk, hk2⟩
      · simp at hverif
theorem ite_none_left_eq_some {α : Type} {c : Prop} [Decidable c] {x : Option α} {y : α} :
    (if c then none else x) = some y ↔ ¬ c ∧ x = some y := by
  split <;> simp [*]

/-- shape of a successful `stake` -/
theorem handle_stake_cases {s s' : State} {k : Nat} {amt : Int} (hh : handle s (.stake k amt) = some s') :
    (s.keys.lookup k).isSome ∧ s.p.minStake ≤ amt ∧
    ∃ v s1 rel, v = (aget s.vals (keyAddr s k)).getD { status := 0, jailed := false, tokens := 0, unstake := 0 } ∧
      v.status = 0 ∧ send { s with rel := rel } (keyAddr s k) s.pool amt = some s1 ∧
      (s' = setStaked (setVal s1 (keyAddr s k) { v with tokens := v.tokens + amt, status := 2 }) (keyAddr s k)
              { v with tokens := v.tokens + amt, status := 2 } ∨
       ∃ x, s' = { setStaked (setVal s1 (keyAddr s k) { v with tokens := v.tokens + amt, status := 2 }) (keyAddr s k)
              { v with tokens := v.tokens + amt, status := 2 } with
            sign := aset (setStaked (setVal s1 (keyAddr s k) { v with tokens := v.tokens + amt, status := 2 })
              (keyAddr s k) { v with tokens := v.tokens + amt, status := 2 }).sign (keyAddr s k) x }) := by
  simp only [handle, ite_none_left_eq_some] at hh
  obtain ⟨hk, hst, htomb, hmin, hbal, hh⟩ := hh
  split at hh
  · simp at hh
  rename_i s1 hs1
  simp only [ite_none_left_eq_some, Option.some.injEq] at hh
  obtain ⟨_, hh⟩ := hh
  refine ⟨by simpa using hk, by omega, _, s1, _, rfl, by simpa using hst, hs1, ?_⟩
  split at hh
  · exact Or.inl hh.symm
  · exact Or.inr ⟨_, hh.symm⟩
/-- Effect of a message handler: accounting stays consistent; the pool's surplus grows by `don`
(coins sent to the pool address itself), the supply shrinks by `burn`. -/
structure TxEff (s s' : State) (don burn : Int) : Prop where
  frame : TxFrame s s'
  acct : Acct s'
  surplus : poolSurplus s' = poolSurplus s + don
  supply : s'.supply = s.supply - burn

theorem SEff.txEff {s s' : State} (e : SEff s s') (f : TxFrame s s') (hsup : s'.supply = s.supply) :
    TxEff s s' 0 0 := ⟨f, e.acct, by rw [e.surplus]; omega, by rw [hsup]; omega⟩

/-- staking: exact balances, exact record -/
theorem handle_stake_spec {s s' : State} (h : Acct s) {k : Nat} {amt : Int}
    (hh : handle s (.stake k amt) = some s') :
    TxEff s s' 0 0 ∧
    (∀ b, balOf s' b = balOf s b - (if b = keyAddr s k then amt else 0) + (if b = s.pool then amt else 0)) ∧
    ∃ v', aget s'.vals (keyAddr s k) = some v' ∧ v'.tokens = amt ∧ v'.status = 2 := by
  obtain ⟨hk, hmin, v, s1, rel, hv, hst, hs1, hs'⟩ := handle_stake_cases hh
  have hamt : 0 ≤ amt := by have := h.wf.minStakeNonneg; omega
  have hkey := keyAddr_isKey hk
  have hne := h.wf.key_not_mod hkey
  generalize keyAddr s k = a at *
  have hv0 : v.tokens = 0 ∧ ((aget s.vals a).map stk).getD 0 = 0 := by
    cases hg : aget s.vals a with
    | none => rw [hg] at hv; subst hv; simp
    | some v0 =>
      rw [hg] at hv; simp only [Option.getD_some] at hv; subst hv
      exact ⟨h.ue a v hg hst, by simp [stk_of_status_eq hst]⟩
  have hw0 : BalWF ({ s with rel := rel } : State).bal := h.wf.balWF
  obtain ⟨f1, w1, p1, m1, b1⟩ := send_bank hw0 hamt hs1
  generalize hv1 : ({ v with tokens := v.tokens + amt, status := 2 } : Val) = v1 at hs'
  have hv1t : v1.tokens = amt ∧ v1.status = 2 := by subst hv1; simp [hv0.1]
  have hf0 : TxFrame s { s with rel := rel } := by frame_rfl
  have hf2 : TxFrame s (setStaked (setVal s1 a v1) a v1) :=
    (hf0.trans f1.toTxFrame).trans ((setVal_frame _ _ _).trans (setStaked_frame _ _ _)).toTxFrame
  obtain ⟨hfr, hbal', hsup', hvals', hsign', hp'⟩ : TxFrame s s' ∧ s'.bal = s1.bal ∧ s'.supply = s1.supply ∧
      s'.vals = aset s.vals a v1 ∧ KeysAsc s'.sign ∧ s'.p = s.p := by
    have hs2sign : KeysAsc (setStaked (setVal s1 a v1) a v1).sign := by
      simp only [setStaked_sign, setVal_sign, f1.sign]; exact h.wf.signAsc
    have hs2vals : (setStaked (setVal s1 a v1) a v1).vals = aset s.vals a v1 := by
      simp only [setStaked_vals, setVal_vals, f1.vals]
    have hs2p : (setStaked (setVal s1 a v1) a v1).p = s.p := by
      rw [(setStaked_frame _ _ _).p, (setVal_frame _ _ _).p, f1.p]
    rcases hs' with rfl | ⟨x, rfl⟩
    · exact ⟨hf2, by simp, by simp, hs2vals, hs2sign, hs2p⟩
    · exact ⟨hf2.trans (by frame_rfl), by simp, by simp, hs2vals, keysAsc_aset hs2sign _ _, hs2p⟩
  have hbal : ∀ b, balOf s' b = balOf s b - (if b = a then amt else 0) + (if b = s.pool then amt else 0) := by
    intro b; rw [balOf_congr hbal', b1]; rfl
  have hwf : WF s' := by
    refine h.wf.of_parts hfr (by rw [hbal']; exact w1) ?_ hsign' (by rw [hp']; exact h.wf.minStakeNonneg)
    rw [hfr.keys, hvals']
    exact h.wf.valsWF.insert hkey (by omega) (by omega)
  refine ⟨⟨hfr, ⟨hwf, ?_, ?_⟩, ?_, ?_⟩, hbal, v1, by rw [hvals']; simp, hv1t.1, hv1t.2⟩
  · unfold SupplyOK
    rw [hsup', sumBal_congr hbal', p1, m1]; exact h.supplyOK
  · exact unstakedEmpty_aset h.ue hvals' (by intro h0; omega)
  · unfold poolSurplus
    rw [hfr.pool, hbal, stakeSum_aset h.wf.valsAsc a v1 hvals', hv0.2, stk_of_status_ne (by omega), hv1t.1]
    simp [Ne.symm hne.1]; omega
  · rw [hsup', p1]; show s.supply = s.supply - 0; omega
theorem handle_unstake_spec {s s' : State} (h : Acct s) {a : Addr}
    (hh : handle s (.unstake a) = some s') : SEff s s' ∧ TxFrame s s' ∧ s'.supply = s.supply := by
  simp only [handle] at hh
  split at hh
  · simp at hh
  rename_i v hv
  simp only [ite_none_left_eq_some, Option.some.injEq] at hh
  obtain ⟨hst, _, _, rfl⟩ := hh
  have hst : v.status = 2 := by simpa using hst
  have hfr : SlashFrame s (enqueue (setVal (delStaked s a v) a { v with status := 1, unstake := s.time + s.p.unstakingTime }) a
      (s.time + s.p.unstakingTime)) :=
    ((delStaked_frame _ _ _).trans (setVal_frame _ _ _)).trans (enqueue_frame _ _ _)
  obtain ⟨e, hs⟩ := eff_setVal (v' := { v with status := 1, unstake := s.time + s.p.unstakingTime }) h hv hfr
    rfl rfl rfl rfl (h.wf.tokNonneg _ (mem_of_aget hv)) (by simp) (by simp)
  refine ⟨⟨e, ?_⟩, hfr.toTxFrame, rfl⟩
  rw [hs, stk_of_status_ne (by omega), stk_of_status_ne (by simp)]
  simp

theorem handle_unjail_spec {s s' : State} (h : Acct s) {a : Addr}
    (hh : handle s (.unjail a) = some s') : SEff s s' ∧ TxFrame s s' ∧ s'.supply = s.supply := by
  simp only [handle] at hh
  split at hh
  · simp at hh
  rename_i v hv
  simp only [ite_none_left_eq_some] at hh
  obtain ⟨_, _, hh⟩ := hh
  split at hh
  · simp at hh
  simp only [ite_none_left_eq_some, Option.some.injEq] at hh
  obtain ⟨_, _, _, rfl⟩ := hh
  have hfr : SlashFrame s (setStaked (setVal s a { v with jailed := false }) a { v with jailed := false }) :=
    (setVal_frame _ _ _).trans (setStaked_frame _ _ _)
  obtain ⟨e, hs⟩ := eff_setVal (v' := { v with jailed := false }) h hv hfr
    (by simp) (by simp) (by simp) (by simp) (h.wf.tokNonneg _ (mem_of_aget hv)) (h.wf.statusOK _ (mem_of_aget hv))
    (h.ue a v hv)
  refine ⟨⟨e, ?_⟩, hfr.toTxFrame, by simp⟩
  rw [hs]
  have : stk { v with jailed := false } = stk v := rfl
  omega

/-- a bank transfer out of an account other than the pool -/
theorem send_txEff {s s' : State} (h : Acct s) {src dst : Addr} {amt : Int} (hamt : 0 ≤ amt)
    (hsrc : src ≠ s.pool) (hs : send s src dst amt = some s') :
    TxEff s s' (if dst = s.pool then amt else 0) 0 := by
  obtain ⟨f, w, p, m, b⟩ := send_bank h.wf.balWF hamt hs
  refine ⟨f.toTxFrame, ⟨h.wf.of_bankFrame f w, ?_, unstakedEmpty_congr f.vals h.ue⟩, ?_, by rw [p]; omega⟩
  · unfold SupplyOK; rw [p, m]; exact h.supplyOK
  · unfold poolSurplus
    rw [f.pool, b, stakeSum_congr f.vals]
    by_cases hd : dst = s.pool
    · subst hd; simp [Ne.symm hsrc]; omega
    · simp [Ne.symm hsrc, hd, Ne.symm hd]

theorem burnFrom_txEff {s s' : State} (h : Acct s) {acc : Addr} {amt : Int}
    (hacc : acc ≠ s.pool) (hs : burnFrom s acc amt = some s') : TxEff s s' 0 amt := by
  have f := burnFrom_frame hs
  have b := balOf_burnFrom h.wf.balAsc hs
  refine ⟨f.toTxFrame, ⟨h.wf.of_bankFrame f (balWF_burnFrom h.wf.balWF hs), ?_, unstakedEmpty_congr f.vals h.ue⟩, ?_,
    burnFrom_supply hs⟩
  · unfold SupplyOK; rw [burnFrom_supply hs, sumBal_burnFrom h.wf.balAsc hs, h.supplyOK]
  · unfold poolSurplus
    rw [f.pool, b, stakeSum_congr f.vals]
    simp [Ne.symm hacc]

theorem applyParam_txEff {s : State} (h : Acct s) (key val : String) : TxEff s (applyParam s key val) 0 0 := by
  obtain ⟨f, hb, hsup, hv, hsg, _, hp⟩ := applyParam_spec s key val
  refine ⟨f, ⟨?_, ?_, unstakedEmpty_congr hv h.ue⟩, ?_, by rw [hsup]; omega⟩
  · exact h.wf.of_parts f (by rw [hb]; exact h.wf.balWF) (by rw [f.keys, hv]; exact h.wf.valsWF)
      (by rw [hsg]; exact h.wf.signAsc) (hp h.wf.minStakeNonneg)
  · unfold SupplyOK; rw [hsup, sumBal_congr hb]; exact h.supplyOK
  · unfold poolSurplus; rw [f.pool, balOf_congr hb, stakeSum_congr hv]; omega

/-- every successful handler: consistent accounting, the surplus changes by the donation, the supply
by the DAO burn.  `hsend` (from `ValidateBasic`) and `hsigner` (from the ante handler) are only
needed for a plain `send`. -/
theorem handle_spec {s s' : State} (h : Acct s) {m : Msg}
    (hsigner : ∃ k ∈ s.keys, k.2 = m.signer s) (hbasic : m.basicOK = true) (hh : handle s m = some s') :
    TxEff s s' (donation s m) m.burnAmount ∧ 0 ≤ donation s m := by
  cases m with
  | stake k amt => exact ⟨(handle_stake_spec h hh).1, by simp [donation]⟩
  | unstake a =>
    obtain ⟨e, f, hs⟩ := handle_unstake_spec h hh
    exact ⟨e.txEff f hs, by simp [donation]⟩
  | unjail a =>
    obtain ⟨e, f, hs⟩ := handle_unjail_spec h hh
    exact ⟨e.txEff f hs, by simp [donation]⟩
  | send src dst amt =>
    simp only [handle] at hh
    have hamt : 0 < amt := by simp [Msg.basicOK] at hbasic; exact hbasic.2
    have hsrc := (h.wf.key_not_mod hsigner).1
    have := send_txEff h (by omega) hsrc hh
    simp only [donation, Msg.burnAmount, beq_iff_eq]
    exact ⟨this, by split <;> omega⟩
  | changeParam src key val =>
    simp only [handle] at hh
    split at hh
    · simp at hh
    simp only [ite_none_left_eq_some, Option.some.injEq] at hh
    obtain ⟨_, rfl⟩ := hh
    exact ⟨applyParam_txEff h key val, by simp [donation]⟩
  | daoTransfer src dst amt =>
    simp only [handle, ite_none_left_eq_some] at hh
    obtain ⟨_, hamt, hh⟩ := hh
    have := send_txEff h (by omega) (Ne.symm h.wf.modsDistinct.2.2.1) hh
    simp only [donation, Msg.burnAmount, beq_iff_eq]
    exact ⟨this, by split <;> omega⟩
  | daoBurn src amt =>
    simp only [handle, ite_none_left_eq_some] at hh
    obtain ⟨_, hamt, hh⟩ := hh
    exact ⟨burnFrom_txEff h (Ne.symm h.wf.modsDistinct.2.2.1) hh, by simp [donation]⟩
  | upgrade src ht ver =>
    simp only [handle] at hh
    split at hh
    · simp at hh
    simp only [ite_none_left_eq_some, Option.some.injEq] at hh
    obtain ⟨_, rfl⟩ := hh
    have e : TxEff s { s with upgrade := (ht, ver) } 0 0 :=
      (seff_of_wf h ((wf_upgrade (s := s) (ht, ver)).2 h.wf) rfl rfl rfl rfl).txEff (by frame_rfl) rfl
    exact ⟨by simpa [donation, Msg.burnAmount] using e, by simp [donation]⟩

theorem TxEff.refl {s : State} (h : Acct s) : TxEff s s 0 0 :=
  ⟨TxFrame.refl s, h, by omega, by omega⟩

theorem TxEff.trans {a b c : State} {d1 d2 b1 b2 : Int} (h1 : TxEff a b d1 b1) (h2 : TxEff b c d2 b2) :
    TxEff a c (d1 + d2) (b1 + b2) :=
  ⟨h1.frame.trans h2.frame, h2.acct, by rw [h2.surplus, h1.surplus]; omega, by rw [h2.supply, h1.supply]; omega⟩

theorem signer_congr {s s' : State} (hk : s'.keys = s.keys) (m : Msg) : m.signer s' = m.signer s := by
  cases m <;> simp [Msg.signer, keyAddr, hk]

theorem donation_congr {s s' : State} (hp : s'.pool = s.pool) (m : Msg) : donation s' m = donation s m := by
  cases m <;> simp [donation, hp]

/-- a change of the second denomination's balances only: no effect on the accounting of the staking coin -/
theorem txEff_bal2 {s : State} (h : Acct s) (b2 : List (Addr × Int)) : TxEff s { s with bal2 := b2 } 0 0 :=
  (seff_of_wf h ((wf_bal2 b2).2 h.wf) rfl rfl rfl rfl).txEff (by frame_rfl) rfl

/-- the ante handler's fee deduction (both denominations) -/
theorem afterAnte_spec {s : State} (h : Acct s) {t : Tx} {sim : Bool} (ha : anteOK s t sim = true) :
    TxEff s ((send2 ((send s (t.msg.signer s) s.feeAcc t.feeEff).getD s) (t.msg.signer s) s.feeAcc t.fee2).getD
      ((send s (t.msg.signer s) s.feeAcc t.feeEff).getD s)) 0 0 := by
  obtain ⟨hfee, hkey, hbal⟩ := anteOK_spec ha
  have e1 : TxEff s ((send s (t.msg.signer s) s.feeAcc t.feeEff).getD s) 0 0 := by
    cases hs : send s (t.msg.signer s) s.feeAcc t.feeEff with
    | none => rw [send_eq_some hbal] at hs; simp at hs
    | some sA =>
      have := send_txEff h hfee (h.wf.key_not_mod hkey).1 hs
      rw [if_neg (Ne.symm h.wf.modsDistinct.1)] at this
      exact this
  rw [send2_getD_frame]
  have := e1.trans (txEff_bal2 e1.acct
    ((send2 ((send s (t.msg.signer s) s.feeAcc t.feeEff).getD s) (t.msg.signer s) s.feeAcc t.fee2).getD
      ((send s (t.msg.signer s) s.feeAcc t.feeEff).getD s)).bal2)
  simpa using this

/-- `runTx`: consistent accounting; only a delivered, successful transaction may move the pool's
surplus (by its donation) or the supply (by its DAO burn) -/
theorem runTx_spec {s : State} (h : Acct s) (mode : Mode) (t : Tx) :
    TxEff s (runTx s mode t).1
      (if mode = .deliver ∧ (runTx s mode t).2 = true then donation s t.msg else 0)
      (if mode = .deliver ∧ (runTx s mode t).2 = true then t.msg.burnAmount else 0) ∧
    0 ≤ (if mode = .deliver ∧ (runTx s mode t).2 = true then donation s t.msg else 0) := by
  unfold runTx
  split
  · simp; exact TxEff.refl h
  split
  · simp; exact TxEff.refl h
  rename_i hbasic
  split
  · simp; exact TxEff.refl h
  rename_i hante
  have hante : anteOK s t (mode == .simulate) = true := by simpa using hante
  have hbasic : t.msg.basicOK = true := by simpa using hbasic
  have eA := afterAnte_spec h hante
  cases mode with
  | check => simp; exact TxEff.refl h
  | simulate => simp; exact TxEff.refl h
  | deliver =>
    simp only []
    cases hh : handle ((send2 ((send s (t.msg.signer s) s.feeAcc t.feeEff).getD s) (t.msg.signer s) s.feeAcc t.fee2).getD ((send s (t.msg.signer s) s.feeAcc t.feeEff).getD s)) t.msg with
    | none => simp; exact eA
    | some s' =>
      obtain ⟨_, hkey, _⟩ := anteOK_spec hante
      have hkey' : ∃ k ∈ ((send2 ((send s (t.msg.signer s) s.feeAcc t.feeEff).getD s) (t.msg.signer s) s.feeAcc t.fee2).getD ((send s (t.msg.signer s) s.feeAcc t.feeEff).getD s)).keys,
          k.2 = t.msg.signer ((send2 ((send s (t.msg.signer s) s.feeAcc t.feeEff).getD s) (t.msg.signer s) s.feeAcc t.fee2).getD ((send s (t.msg.signer s) s.feeAcc t.feeEff).getD s)) := by
        rw [signer_congr eA.frame.keys, eA.frame.keys]; exact hkey
      obtain ⟨e2, hd⟩ := handle_spec eA.acct hkey' hbasic hh
      rw [donation_congr eA.frame.pool] at e2 hd
      have := eA.trans e2
      simp only [Int.zero_add] at this
      simp
      exact ⟨this, hd⟩


/-! ### every operation -/

/-- the amount by which an operation may move the pool's surplus -/
def opDonation (s : State) (op : Op) (ok : Bool) : Int :=
  match op with
  | .tx .deliver t => if ok then donation s t.msg else 0
  | .begin _ _ _ _ => (aget s.awards s.pool).getD 0
  | _ => 0

/-- One operation keeps the accounting core of the invariant, moves the pool's surplus only by a
(non-negative) donation, and the pool account stays the pool account. -/
theorem step_core {s : State} {op : Op} {r : State × List (Addr × Int) × Bool}
    (h : Inv s) (hs : step s op = some r) :
    Acct r.1 ∧ poolSurplus r.1 = poolSurplus s + opDonation s op r.2.2 ∧ 0 ≤ opDonation s op r.2.2 := by
  have ha := h.acct
  cases op with
  | «begin» time proposer votes evs =>
    simp only [step] at hs
    cases hb : beginBlock s time proposer votes evs with
    | none => rw [hb] at hs; simp at hs
    | some s' =>
      rw [hb] at hs; simp only [Option.map_some, Option.some.injEq] at hs; subst hs
      have sp := beginBlock_spec ha h.pool hb
      refine ⟨sp.acct, sp.surplus, ?_⟩
      show 0 ≤ (aget s.awards s.pool).getD 0
      cases hg : aget s.awards s.pool with
      | none => simp
      | some x => simpa using sp.awardsNonneg _ (mem_of_aget hg)
  | endBlock =>
    simp only [step] at hs
    cases he : endBlock s with
    | none => rw [he] at hs; simp at hs
    | some r' =>
      rw [he] at hs; simp only [Option.map_some, Option.some.injEq] at hs; subst hs
      obtain ⟨a, _, _, hsur⟩ := endBlock_spec (ups := r'.2) ha he
      exact ⟨a, by rw [hsur]; simp [opDonation], by simp [opDonation]⟩
  | commit =>
    simp only [step, Option.some.injEq] at hs; subst hs
    have e : SEff s { s with cHeight := s.height, cTime := s.time, index := s.blockTxs ++ s.index, blockTxs := [] } :=
      seff_of_wf ha { ha.wf with } rfl rfl rfl rfl
    exact ⟨e.acct, by rw [e.surplus]; simp [opDonation], by simp [opDonation]⟩
  | award a amt =>
    simp only [step, Option.some.injEq] at hs; subst hs
    have e : SEff s { s with awards := aset s.awards a (((aget s.awards a).getD 0) + amt) } :=
      seff_of_wf ha { ha.wf with awardsAsc := keysAsc_aset ha.wf.awardsAsc _ _ } rfl rfl rfl rfl
    exact ⟨e.acct, by rw [e.surplus]; simp [opDonation], by simp [opDonation]⟩
  | burn a raw =>
    simp only [step, Option.some.injEq] at hs; subst hs
    have e : SEff s { s with burns := aset s.burns a (((aget s.burns a).getD 0) + raw) } :=
      seff_of_wf ha { ha.wf with burnsAsc := keysAsc_aset ha.wf.burnsAsc _ _ } rfl rfl rfl rfl
    exact ⟨e.acct, by rw [e.surplus]; simp [opDonation], by simp [opDonation]⟩
  | tx mode t =>
    simp only [step, Option.some.injEq] at hs; subst hs
    obtain ⟨e, hd⟩ := runTx_spec ha mode t
    have e2 : SEff (runTx s mode t).1 (if mode == .deliver then
        { (runTx s mode t).1 with blockTxs := t.id :: (runTx s mode t).1.blockTxs } else (runTx s mode t).1) := by
      split
      · exact seff_of_wf e.acct { e.acct.wf with } rfl rfl rfl rfl
      · exact SEff.refl e.acct
    refine ⟨e2.acct, ?_, ?_⟩
    · rw [e2.surplus, e.surplus]
      cases mode <;> simp [opDonation]
    · cases mode <;> simp_all [opDonation]

theorem step_wf (s : State) (op : Op) (r : State × List (Addr × Int) × Bool)
    (h : Inv s) (hs : step s op = some r) : WF r.1 := (step_core h hs).1.wf

theorem step_supplyOK (s : State) (op : Op) (r : State × List (Addr × Int) × Bool)
    (h : Inv s) (hs : step s op = some r) : SupplyOK r.1 := (step_core h hs).1.supplyOK

theorem step_unstakedEmpty (s : State) (op : Op) (r : State × List (Addr × Int) × Bool)
    (h : Inv s) (hs : step s op = some r) : UnstakedEmpty r.1 := (step_core h hs).1.ue

/-- C04, exact form: the pool's surplus over the recorded stake changes only by coins sent to the
pool address itself (a send / DAO transfer whose recipient is the pool, or an award to the pool). -/
theorem step_poolSurplus (s : State) (op : Op) (r : State × List (Addr × Int) × Bool)
    (h : Inv s) (hs : step s op = some r) :
    poolSurplus r.1 = poolSurplus s +
      (match op with
       | .tx .deliver t => if r.2.2 then donation s t.msg else 0
       | .begin _ _ _ _ => (aget s.awards s.pool).getD 0
       | _ => 0) := by
  have := (step_core h hs).2.1
  cases op with
  | tx mode t => cases mode <;> exact this
  | _ => exact this

theorem step_poolBacks (s : State) (op : Op) (r : State × List (Addr × Int) × Bool)
    (h : Inv s) (hs : step s op = some r) : PoolBacks r.1 := by
  obtain ⟨_, h1, h2⟩ := step_core h hs
  have := (poolBacks_iff s).1 h.pool
  rw [poolBacks_iff, h1]; omega

end Posmint.Chain
