import Posmint.Model.KVSpec
/-! Helper lemmas for C15 (cachekv overlay semantics, merge iterator). -/
namespace Posmint.KV

/-! ### `blt` is a strict total order -/

theorem blt_irrefl (a : Bytes) : blt a a = false := by
  induction a with
  | nil => rfl
  | cons x xs ih => simp [blt, ih]

theorem blt_trans {a b c : Bytes} : blt a b = true → blt b c = true → blt a c = true := by
  induction a generalizing b c with
  | nil => cases b <;> cases c <;> simp [blt]
  | cons x xs ih =>
    cases b with
    | nil => simp [blt]
    | cons y ys =>
      cases c with
      | nil => simp [blt]
      | cons z zs =>
        simp only [blt, Bool.or_eq_true, decide_eq_true_eq, Bool.and_eq_true, beq_iff_eq]
        intro h1 h2
        rcases h1 with h1 | ⟨h1, h1'⟩ <;> rcases h2 with h2 | ⟨h2, h2'⟩
        · left; omega
        · left; omega
        · left; omega
        · right; exact ⟨by omega, ih h1' h2'⟩

theorem blt_asymm {a b : Bytes} (h : blt a b = true) : blt b a = false := by
  cases h' : blt b a with
  | false => rfl
  | true => have := blt_trans h h'; rw [blt_irrefl] at this; cases this

theorem blt_total {a b : Bytes} : blt a b = false → blt b a = false → a = b := by
  induction a generalizing b with
  | nil => cases b <;> simp [blt]
  | cons x xs ih =>
    cases b with
    | nil => simp [blt]
    | cons y ys =>
      simp only [blt, Bool.or_eq_false_iff, decide_eq_false_iff_not, Bool.and_eq_false_iff,
        beq_eq_false_iff_ne, ne_eq, List.cons.injEq]
      intro ⟨h1, h1'⟩ ⟨h2, h2'⟩
      have hxy : x = y := by omega
      subst hxy
      simp at h1' h2'
      exact ⟨rfl, ih h1' h2'⟩

theorem blt_ne {a b : Bytes} (h : blt a b = true) : a ≠ b := by
  intro hab; subst hab; rw [blt_irrefl] at h; cases h

theorem blt_append_left (p a b : Bytes) : blt (p ++ a) (p ++ b) = blt a b := by
  induction p with
  | nil => rfl
  | cons x xs ih => simp [blt, ih]

theorem ble_append_left (p a b : Bytes) : ble (p ++ a) (p ++ b) = ble a b := by
  simp [ble, blt_append_left]

theorem cmpLt_irrefl (asc : Bool) (a : Bytes) : cmpLt asc a a = false := by
  cases asc <;> simp [cmpLt, blt_irrefl]

theorem cmpLt_trans {asc : Bool} {a b c : Bytes} :
    cmpLt asc a b = true → cmpLt asc b c = true → cmpLt asc a c = true := by
  cases asc <;> simp only [cmpLt, if_true, if_false, Bool.false_eq_true]
  · exact fun h1 h2 => blt_trans h2 h1
  · exact blt_trans

theorem cmpLt_asymm {asc : Bool} {a b : Bytes} (h : cmpLt asc a b = true) : cmpLt asc b a = false := by
  cases h' : cmpLt asc b a with
  | false => rfl
  | true => have := cmpLt_trans h h'; rw [cmpLt_irrefl] at this; cases this

theorem cmpLt_total {asc : Bool} {a b : Bytes} :
    cmpLt asc a b = false → cmpLt asc b a = false → a = b := by
  cases asc <;> simp only [cmpLt, if_true, if_false, Bool.false_eq_true]
  · exact fun h1 h2 => blt_total h2 h1
  · exact blt_total

theorem cmpLt_ne {asc : Bool} {a b : Bytes} (h : cmpLt asc a b = true) : a ≠ b := by
  intro hab; subst hab; rw [cmpLt_irrefl] at h; cases h

theorem cmpLt_append_left (asc : Bool) (p a b : Bytes) :
    cmpLt asc (p ++ a) (p ++ b) = cmpLt asc a b := by
  cases asc <;> simp [cmpLt, blt_append_left]

/-! ### Sortedness as `Pairwise` -/

/-- keys strictly increasing w.r.t. the iteration order -/
def PW {α : Type} (asc : Bool) (l : List (Bytes × α)) : Prop :=
  l.Pairwise (fun x y => cmpLt asc x.1 y.1 = true)

theorem sortedAsc_iff_pairwise {α : Type} (l : List (Bytes × α)) :
    SortedAsc l ↔ l.Pairwise (fun x y => blt x.1 y.1 = true) := by
  induction l with
  | nil => simp [SortedAsc]
  | cons a t ih =>
    cases t with
    | nil => simp [SortedAsc]
    | cons b rest =>
      simp only [SortedAsc, ih]
      rw [List.pairwise_cons (a := a), List.pairwise_cons]
      constructor
      · rintro ⟨hab, hb, hr⟩
        refine ⟨?_, hb, hr⟩
        intro y hy
        rcases List.mem_cons.1 hy with rfl | hy
        · exact hab
        · exact blt_trans hab (hb y hy)
      · rintro ⟨ha, hb, hr⟩
        exact ⟨ha b (List.mem_cons_self), hb, hr⟩

theorem sortedAsc_iff_PW {α : Type} (l : List (Bytes × α)) : SortedAsc l ↔ PW true l := by
  rw [sortedAsc_iff_pairwise]; simp [PW, cmpLt]

theorem sortedDir_iff_PW {α : Type} (asc : Bool) (l : List (Bytes × α)) : SortedDir asc l ↔ PW asc l := by
  cases asc
  · simp only [SortedDir, Bool.false_eq_true, if_false, sortedAsc_iff_pairwise, List.pairwise_reverse]
    simp [PW, cmpLt]
  · simp only [SortedDir, if_true]; exact sortedAsc_iff_PW l

theorem PW_reverse {α : Type} (asc : Bool) (l : List (Bytes × α)) : PW asc l.reverse ↔ PW (!asc) l := by
  unfold PW
  rw [List.pairwise_reverse]
  cases asc <;> simp [cmpLt]

theorem PW.filter {α : Type} {asc : Bool} {l : List (Bytes × α)} (p : Bytes × α → Bool) (h : PW asc l) :
    PW asc (l.filter p) := List.Pairwise.filter p h

theorem PW.key_unique {α : Type} {asc : Bool} {l : List (Bytes × α)} (h : PW asc l) {k : Bytes} {v w : α}
    (hv : (k, v) ∈ l) (hw : (k, w) ∈ l) : v = w := by
  induction l with
  | nil => cases hv
  | cons a t ih =>
    rw [PW, List.pairwise_cons] at h
    rcases List.mem_cons.1 hv with hv1 | hv1 <;> rcases List.mem_cons.1 hw with hw1 | hw1
    · rw [← hv1] at hw1; cases hw1; rfl
    · rw [← hv1] at h; have := h.1 _ hw1; simp [cmpLt_irrefl] at this
    · rw [← hw1] at h; have := h.1 _ hv1; simp [cmpLt_irrefl] at this
    · exact ih h.2 hv1 hw1

theorem PW.nodup_keys {α : Type} {asc : Bool} {l : List (Bytes × α)} (h : PW asc l) :
    (l.map (·.1)).Nodup := by
  unfold PW at h
  rw [List.Nodup, List.pairwise_map]
  exact h.imp (fun hxy => cmpLt_ne hxy)

/-! ### `kvGet` / `kvSet` / `kvDel` on sorted lists -/

theorem kvGet_of_not_mem {m : Items} {k : Bytes} (h : k ∉ m.map (·.1)) : kvGet m k = none := by
  induction m with
  | nil => rfl
  | cons a t ih =>
    obtain ⟨k', v'⟩ := a
    simp only [List.map_cons, List.mem_cons, not_or] at h
    simp only [kvGet, beq_iff_eq]
    rw [if_neg (fun hh => h.1 hh.symm)]
    exact ih h.2

theorem kvGet_mem {m : Items} {k v : Bytes} (h : kvGet m k = some v) : (k, v) ∈ m := by
  induction m with
  | nil => cases h
  | cons a t ih =>
    obtain ⟨k', v'⟩ := a
    simp only [kvGet, beq_iff_eq] at h
    split at h
    · cases h; subst_vars; exact List.mem_cons_self
    · exact List.mem_cons_of_mem _ (ih h)

theorem kvGet_eq_some_iff {asc : Bool} {m : Items} (hs : PW asc m) (k v : Bytes) :
    kvGet m k = some v ↔ (k, v) ∈ m := by
  refine ⟨kvGet_mem, ?_⟩
  intro h
  cases hg : kvGet m k with
  | none =>
    exfalso
    induction m with
    | nil => cases h
    | cons a t ih =>
      obtain ⟨k', v'⟩ := a
      simp only [kvGet, beq_iff_eq] at hg
      split at hg
      · cases hg
      · rw [PW, List.pairwise_cons] at hs
        rcases List.mem_cons.1 h with h | h
        · cases h; contradiction
        · exact ih hs.2 h hg
  | some w => rw [hs.key_unique h (kvGet_mem hg)]

theorem mem_kvSet {m : Items} {k v : Bytes} {x : Bytes × Bytes} (h : x ∈ kvSet m k v) :
    x = (k, v) ∨ x ∈ m := by
  induction m with
  | nil => simp [kvSet] at h; exact Or.inl h
  | cons a t ih =>
    obtain ⟨k', v'⟩ := a
    simp only [kvSet] at h
    split at h
    · rcases List.mem_cons.1 h with h | h
      · exact Or.inl h
      · exact Or.inr h
    · split at h
      · rcases List.mem_cons.1 h with h | h
        · exact Or.inl h
        · exact Or.inr (List.mem_cons_of_mem _ h)
      · rcases List.mem_cons.1 h with h | h
        · exact Or.inr (h ▸ List.mem_cons_self)
        · rcases ih h with h | h
          · exact Or.inl h
          · exact Or.inr (List.mem_cons_of_mem _ h)

theorem kvSet_sorted {m : Items} (hs : PW true m) (k v : Bytes) : PW true (kvSet m k v) := by
  induction m with
  | nil => simp [kvSet, PW]
  | cons a t ih =>
    obtain ⟨k', v'⟩ := a
    have hs' := hs
    rw [PW, List.pairwise_cons] at hs
    simp only [kvSet]
    split
    · rename_i hlt
      rw [PW, List.pairwise_cons]
      refine ⟨?_, hs'⟩
      intro y hy
      rcases List.mem_cons.1 hy with rfl | hy
      · simpa [cmpLt] using hlt
      · exact cmpLt_trans (asc := true) (by simpa [cmpLt] using hlt) (hs.1 y hy)
    · split
      · rename_i _ heq
        have heq : k = k' := by simpa using heq
        subst heq
        rw [PW, List.pairwise_cons]
        exact ⟨hs.1, hs.2⟩
      · rename_i hnlt hne
        have hne : k ≠ k' := by simpa using hne
        have hlt : blt k' k = true := by
          cases h : blt k' k with
          | true => rfl
          | false => exact absurd (blt_total (by simpa using hnlt) h) hne
        rw [PW, List.pairwise_cons]
        refine ⟨?_, ih hs.2⟩
        intro y hy
        rcases mem_kvSet hy with rfl | hy
        · simpa [cmpLt] using hlt
        · exact hs.1 y hy

theorem kvGet_kvSet {m : Items} (hs : PW true m) (k v q : Bytes) :
    kvGet (kvSet m k v) q = if q = k then some v else kvGet m q := by
  induction m with
  | nil =>
    simp only [kvSet, kvGet, beq_iff_eq]
    by_cases hq : q = k
    · simp [hq]
    · simp [hq, Ne.symm hq]
  | cons a t ih =>
    obtain ⟨k', v'⟩ := a
    rw [PW, List.pairwise_cons] at hs
    simp only [kvSet]
    split
    · simp only [kvGet, beq_iff_eq]
      by_cases hq : q = k
      · simp [hq]
      · simp [hq, Ne.symm hq]
    · split
      · rename_i _ heq
        have heq : k = k' := by simpa using heq
        subst heq
        simp only [kvGet, beq_iff_eq]
        by_cases hq : q = k
        · simp [hq]
        · simp [hq, Ne.symm hq]
      · rename_i hnlt hne
        have hne : k ≠ k' := by simpa using hne
        simp only [kvGet, beq_iff_eq, ih hs.2]
        by_cases hq : k' = q
        · subst hq; simp [Ne.symm hne]
        · simp [hq]

theorem mem_kvDel {m : Items} {k : Bytes} {x : Bytes × Bytes} (h : x ∈ kvDel m k) : x ∈ m := by
  induction m with
  | nil => simp [kvDel] at h
  | cons a t ih =>
    obtain ⟨k', v'⟩ := a
    simp only [kvDel] at h
    split at h
    · exact List.mem_cons_of_mem _ h
    · rcases List.mem_cons.1 h with h | h
      · exact h ▸ List.mem_cons_self
      · exact List.mem_cons_of_mem _ (ih h)

theorem kvDel_sorted {m : Items} (hs : PW true m) (k : Bytes) : PW true (kvDel m k) := by
  induction m with
  | nil => simp [kvDel, PW]
  | cons a t ih =>
    obtain ⟨k', v'⟩ := a
    rw [PW, List.pairwise_cons] at hs
    simp only [kvDel]
    split
    · exact hs.2
    · rw [PW, List.pairwise_cons]
      exact ⟨fun y hy => hs.1 y (mem_kvDel hy), ih hs.2⟩

theorem kvGet_kvDel {m : Items} (hs : PW true m) (k q : Bytes) :
    kvGet (kvDel m k) q = if q = k then none else kvGet m q := by
  induction m with
  | nil => simp [kvDel, kvGet]
  | cons a t ih =>
    obtain ⟨k', v'⟩ := a
    have hnd := hs.nodup_keys
    rw [PW, List.pairwise_cons] at hs
    simp only [kvDel]
    split
    · rename_i heq
      have heq : k = k' := by simpa using heq
      subst heq
      simp only [kvGet, beq_iff_eq]
      by_cases hq : q = k
      · subst hq
        simp only [List.map_cons, List.nodup_cons] at hnd
        simp [kvGet_of_not_mem hnd.1]
      · simp [hq, Ne.symm hq]
    · rename_i hne
      have hne : k ≠ k' := by simpa using hne
      simp only [kvGet, beq_iff_eq, ih hs.2]
      by_cases hq : k' = q
      · subst hq; simp [Ne.symm hne]
      · simp [hq]

/-! ### the cache map -/

theorem cacheLookup_filter_ne (l : List (Bytes × CVal)) (k q : Bytes) :
    cacheLookup (l.filter (fun e => !(e.1 == k))) q = if q = k then none else cacheLookup l q := by
  induction l with
  | nil => simp [cacheLookup]
  | cons a t ih =>
    obtain ⟨k', c'⟩ := a
    by_cases hk : k' = k
    · subst hk
      simp only [List.filter_cons, beq_self_eq_true, Bool.not_true, Bool.false_eq_true, if_false, ih,
        cacheLookup, beq_iff_eq]
      by_cases hq : q = k'
      · simp [hq]
      · simp [hq, Ne.symm hq]
    · have : (!(k' == k)) = true := by simpa using hk
      simp only [List.filter_cons, this, if_true, cacheLookup, beq_iff_eq, ih]
      by_cases hq : k' = q
      · subst hq; simp [hk]
      · simp [hq]

theorem cacheLookup_cacheStore (l : List (Bytes × CVal)) (k : Bytes) (c : CVal) (q : Bytes) :
    cacheLookup (cacheStore l k c) q = if q = k then some c else cacheLookup l q := by
  simp only [cacheStore, cacheLookup, beq_iff_eq, cacheLookup_filter_ne]
  by_cases hq : q = k
  · simp [hq]
  · simp [hq, Ne.symm hq]

theorem cacheStore_nodup {l : List (Bytes × CVal)} (h : (l.map (·.1)).Nodup) (k : Bytes) (c : CVal) :
    ((cacheStore l k c).map (·.1)).Nodup := by
  simp only [cacheStore, List.map_cons, List.nodup_cons]
  constructor
  · simp [List.mem_map, List.mem_filter]
  · exact h.sublist ((List.filter_sublist).map _)

theorem cacheLookup_mem {l : List (Bytes × CVal)} {k : Bytes} {cv : CVal} (h : cacheLookup l k = some cv) :
    (k, cv) ∈ l := by
  induction l with
  | nil => cases h
  | cons a t ih =>
    obtain ⟨k', c'⟩ := a
    simp only [cacheLookup, beq_iff_eq] at h
    split at h
    · cases h; subst_vars; exact List.mem_cons_self
    · exact List.mem_cons_of_mem _ (ih h)

theorem cacheLookup_none_of_not_mem {l : List (Bytes × CVal)} {k : Bytes} (h : k ∉ l.map (·.1)) :
    cacheLookup l k = none := by
  induction l with
  | nil => rfl
  | cons a t ih =>
    obtain ⟨k', c'⟩ := a
    simp only [List.map_cons, List.mem_cons, not_or] at h
    simp only [cacheLookup, beq_iff_eq]
    rw [if_neg (fun hh => h.1 hh.symm)]
    exact ih h.2

theorem cacheLookup_of_mem {l : List (Bytes × CVal)} (hnd : (l.map (·.1)).Nodup) {k : Bytes} {cv : CVal}
    (h : (k, cv) ∈ l) : cacheLookup l k = some cv := by
  induction l with
  | nil => cases h
  | cons a t ih =>
    obtain ⟨k', c'⟩ := a
    simp only [List.map_cons, List.nodup_cons] at hnd
    simp only [cacheLookup, beq_iff_eq]
    rcases List.mem_cons.1 h with h | h
    · cases h; simp
    · have : k' ≠ k := by
        intro hk; subst hk
        exact hnd.1 (List.mem_map.2 ⟨_, h, rfl⟩)
      rw [if_neg this]; exact ih hnd.2 h

/-! ### `setCacheValue` preserves the cache invariant -/

theorem cacheInv_clean {c : CacheData} (hc : CacheInv c) {k : Bytes} (hk : cacheLookup c.cache k = none)
    (v : Option Bytes) : CacheInv (setCacheValue c k v false false) := by
  have hL : ∀ q, cacheLookup (setCacheValue c k v false false).cache q =
      if q = k then some ⟨v, false, false⟩ else cacheLookup c.cache q := by
    intro q; simp [setCacheValue, cacheLookup_cacheStore]
  have hne_of : ∀ {q cv}, cacheLookup c.cache q = some cv → q ≠ k := by
    intro q cv h hq; subst hq; rw [hk] at h; cases h
  refine ⟨cacheStore_nodup hc.nodupCache _ _, hc.nodupUnsorted, ?_, ?_, ?_, ?_, hc.sortedAsc, ?_⟩
  · intro q hq
    obtain ⟨cv, h1, h2⟩ := hc.unsortedDirty q hq
    exact ⟨cv, by rw [hL, if_neg (hne_of h1)]; exact h1, h2⟩
  · intro q cv h1 h2
    rw [hL] at h1
    split at h1
    · cases h1; cases h2
    · exact hc.dirtyTracked q cv h1 h2
  · intro q ov h1 h2
    obtain ⟨cv, h3, h4⟩ := hc.sortedCurrent q ov h1 h2
    exact ⟨cv, by rw [hL, if_neg (hne_of h3)]; exact h3, h4⟩
  · intro q ov h1
    obtain ⟨cv, h3, h4⟩ := hc.sortedDirty q ov h1
    exact ⟨cv, by rw [hL, if_neg (hne_of h3)]; exact h3, h4⟩
  · intro q cv h1 h2
    rw [hL] at h1
    split at h1
    · cases h1; cases h2
    · exact hc.deletedIff q cv h1 h2

theorem cacheInv_dirty {c : CacheData} (hc : CacheInv c) (k : Bytes) (v : Option Bytes) (d : Bool)
    (hd : d = true ↔ v = none) : CacheInv (setCacheValue c k v d true) := by
  have hL : ∀ q, cacheLookup (setCacheValue c k v d true).cache q =
      if q = k then some ⟨v, d, true⟩ else cacheLookup c.cache q := by
    intro q; simp [setCacheValue, cacheLookup_cacheStore]
  have hU : ∀ q, q ∈ (setCacheValue c k v d true).unsorted ↔ q = k ∨ q ∈ c.unsorted := by
    intro q
    simp only [setCacheValue, if_true]
    split
    · rename_i hcont
      have : k ∈ c.unsorted := by simpa using hcont
      constructor
      · exact Or.inr
      · rintro (rfl | h)
        · exact this
        · exact h
    · simp
  have hS : (setCacheValue c k v d true).sorted = c.sorted := rfl
  refine ⟨cacheStore_nodup hc.nodupCache _ _, ?_, ?_, ?_, ?_, ?_, hc.sortedAsc, ?_⟩
  · simp only [setCacheValue, if_true]
    split
    · exact hc.nodupUnsorted
    · rename_i hcont
      exact List.nodup_cons.2 ⟨by simpa using hcont, hc.nodupUnsorted⟩
  · intro q hq
    rw [hL]
    by_cases hqk : q = k
    · exact ⟨_, by rw [if_pos hqk], rfl⟩
    · rw [if_neg hqk]
      rcases (hU q).1 hq with h | h
      · exact absurd h hqk
      · exact hc.unsortedDirty q h
  · intro q cv h1 h2
    rw [hL] at h1
    rw [hU, hS]
    by_cases hqk : q = k
    · exact Or.inl (Or.inl hqk)
    · rw [if_neg hqk] at h1
      rcases hc.dirtyTracked q cv h1 h2 with h | h
      · exact Or.inl (Or.inr h)
      · exact Or.inr h
  · intro q ov h1 h2
    rw [hU, not_or] at h2
    rw [hL, if_neg h2.1]
    exact hc.sortedCurrent q ov h1 h2.2
  · intro q ov h1
    rw [hL]
    by_cases hqk : q = k
    · exact ⟨_, by rw [if_pos hqk], rfl⟩
    · rw [if_neg hqk]; exact hc.sortedDirty q ov h1
  · intro q cv h1 h2
    rw [hL] at h1
    split at h1
    · cases h1; exact hd
    · exact hc.deletedIff q cv h1 h2

/-! ### monadic plumbing -/

theorem bind_ok_iff {ε α β : Type} (x : Except ε α) (f : α → Except ε β) (b : β) :
    (x >>= f) = .ok b ↔ ∃ a, x = .ok a ∧ f a = .ok b := by
  cases x with
  | error e => simp [bind, Except.bind]
  | ok a => simp [bind, Except.bind]

/-! ### point operations refine the view -/

theorem get_refines' (s : Store) : ∀ (k : Bytes) (e : Env) (v : Option Bytes) (s' : Store) (e' : Env),
    s.WF → s.get k e = .ok (v, s', e') →
    v = s.view k ∧ s'.WF ∧ ∀ q, s'.view q = s.view q := by
  induction s with
  | mem m =>
    intro k e v s' e' hwf h
    simp only [Store.get, Except.ok.injEq, Prod.mk.injEq] at h
    obtain ⟨rfl, rfl, rfl⟩ := h
    exact ⟨rfl, hwf, fun _ => rfl⟩
  | cache c p ih =>
    intro k e v s' e' hwf h
    obtain ⟨hc, hp, hclean⟩ := hwf
    simp only [Store.get] at h
    split at h
    · rename_i cv hcv
      simp only [Except.ok.injEq, Prod.mk.injEq] at h
      obtain ⟨rfl, rfl, rfl⟩ := h
      exact ⟨by simp [Store.view, hcv], ⟨hc, hp, hclean⟩, fun _ => rfl⟩
    · rename_i hnone
      rw [bind_ok_iff] at h
      obtain ⟨⟨v1, p1, e1⟩, h1, h2⟩ := h
      simp only [Except.ok.injEq, Prod.mk.injEq] at h2
      obtain ⟨rfl, rfl, rfl⟩ := h2
      obtain ⟨hv, hp1, hview⟩ := ih k e v1 p1 e1 hp h1
      have hL : ∀ q, cacheLookup (setCacheValue c k v1 false false).cache q =
          if q = k then some ⟨v1, false, false⟩ else cacheLookup c.cache q := by
        intro q; simp [setCacheValue, cacheLookup_cacheStore]
      refine ⟨by simp [Store.view, hnone, hv], ⟨cacheInv_clean hc hnone v1, hp1, ?_⟩, ?_⟩
      · intro q cv h3 h4
        rw [hL] at h3
        split at h3
        · cases h3; subst_vars; simp [hview]
        · rw [hview]; exact hclean q cv h3 h4
      · intro q
        simp only [Store.view, hL]
        by_cases hq : q = k
        · subst hq; simp [hnone, hv]
        · simp [hq, hview]
  | pfx pre p ih =>
    intro k e v s' e' hwf h
    simp only [Store.get] at h
    rw [bind_ok_iff] at h
    obtain ⟨⟨v1, p1, e1⟩, h1, h2⟩ := h
    simp only [Except.ok.injEq, Prod.mk.injEq] at h2
    obtain ⟨rfl, rfl, rfl⟩ := h2
    obtain ⟨hv, hp1, hview⟩ := ih (pre ++ k) e v1 p1 e1 hwf h1
    exact ⟨hv, hp1, fun q => hview _⟩
  | gas p ih =>
    intro k e v s' e' hwf h
    simp only [Store.get] at h
    rw [bind_ok_iff] at h
    obtain ⟨ea, _, h⟩ := h
    rw [bind_ok_iff] at h
    obtain ⟨⟨v1, p1, e1⟩, h1, h2⟩ := h
    simp only [] at h2
    rw [bind_ok_iff] at h2
    obtain ⟨eb, _, h2⟩ := h2
    simp only [Except.ok.injEq, Prod.mk.injEq] at h2
    obtain ⟨rfl, rfl, rfl⟩ := h2
    obtain ⟨hv, hp1, hview⟩ := ih k ea v1 p1 e1 hwf h1
    exact ⟨hv, hp1, fun q => hview _⟩
  | trace p ih =>
    intro k e v s' e' hwf h
    simp only [Store.get] at h
    rw [bind_ok_iff] at h
    obtain ⟨⟨v1, p1, e1⟩, h1, h2⟩ := h
    simp only [Except.ok.injEq, Prod.mk.injEq] at h2
    obtain ⟨rfl, rfl, rfl⟩ := h2
    obtain ⟨hv, hp1, hview⟩ := ih k e v1 p1 e1 hwf h1
    exact ⟨hv, hp1, fun q => hview _⟩

theorem has_refines' (s : Store) : ∀ (k : Bytes) (e : Env) (b : Bool) (s' : Store) (e' : Env),
    s.WF → s.has k e = .ok (b, s', e') →
    b = (s.view k).isSome ∧ s'.WF ∧ ∀ q, s'.view q = s.view q := by
  induction s with
  | mem m =>
    intro k e v s' e' hwf h
    simp only [Store.has, Except.ok.injEq, Prod.mk.injEq] at h
    obtain ⟨rfl, rfl, rfl⟩ := h
    exact ⟨rfl, hwf, fun _ => rfl⟩
  | cache c p ih =>
    intro k e v s' e' hwf h
    simp only [Store.has] at h
    rw [bind_ok_iff] at h
    obtain ⟨⟨v1, p1, e1⟩, h1, h2⟩ := h
    simp only [Except.ok.injEq, Prod.mk.injEq] at h2
    obtain ⟨rfl, rfl, rfl⟩ := h2
    obtain ⟨hv, hp1, hview⟩ := get_refines' _ k e v1 p1 e1 hwf h1
    exact ⟨by rw [hv], hp1, hview⟩
  | pfx pre p ih =>
    intro k e v s' e' hwf h
    simp only [Store.has] at h
    rw [bind_ok_iff] at h
    obtain ⟨⟨v1, p1, e1⟩, h1, h2⟩ := h
    simp only [Except.ok.injEq, Prod.mk.injEq] at h2
    obtain ⟨rfl, rfl, rfl⟩ := h2
    obtain ⟨hv, hp1, hview⟩ := ih (pre ++ k) e v1 p1 e1 hwf h1
    exact ⟨hv, hp1, fun q => hview _⟩
  | gas p ih =>
    intro k e v s' e' hwf h
    simp only [Store.has] at h
    rw [bind_ok_iff] at h
    obtain ⟨ea, _, h⟩ := h
    rw [bind_ok_iff] at h
    obtain ⟨⟨v1, p1, e1⟩, h1, h2⟩ := h
    simp only [Except.ok.injEq, Prod.mk.injEq] at h2
    obtain ⟨rfl, rfl, rfl⟩ := h2
    obtain ⟨hv, hp1, hview⟩ := ih k ea v1 p1 e1 hwf h1
    exact ⟨hv, hp1, fun q => hview _⟩
  | trace p ih =>
    intro k e v s' e' hwf h
    simp only [Store.has] at h
    rw [bind_ok_iff] at h
    obtain ⟨⟨v1, p1, e1⟩, h1, h2⟩ := h
    simp only [Except.ok.injEq, Prod.mk.injEq] at h2
    obtain ⟨rfl, rfl, rfl⟩ := h2
    obtain ⟨hv, hp1, hview⟩ := ih k e v1 p1 e1 hwf h1
    exact ⟨hv, hp1, fun q => hview _⟩

theorem cache_write_refines {c : CacheData} {p : Store} (hwf : (Store.cache c p).WF) (k : Bytes)
    (v : Option Bytes) (d : Bool) (hd : d = true ↔ v = none) :
    (Store.cache (setCacheValue c k v d true) p).WF ∧
    ∀ q, (Store.cache (setCacheValue c k v d true) p).view q =
      if q = k then v else (Store.cache c p).view q := by
  obtain ⟨hc, hp, hclean⟩ := hwf
  have hL : ∀ q, cacheLookup (setCacheValue c k v d true).cache q =
      if q = k then some ⟨v, d, true⟩ else cacheLookup c.cache q := by
    intro q; simp [setCacheValue, cacheLookup_cacheStore]
  refine ⟨⟨cacheInv_dirty hc k v d hd, hp, ?_⟩, ?_⟩
  · intro q cv h1 h2
    rw [hL] at h1
    split at h1
    · cases h1; cases h2
    · exact hclean q cv h1 h2
  · intro q
    simp only [Store.view, hL]
    by_cases hq : q = k <;> simp [hq]

theorem set_refines' (s : Store) : ∀ (k v : Bytes) (e : Env) (s' : Store) (e' : Env),
    s.WF → s.set k v e = .ok (s', e') →
    s'.WF ∧ ∀ q, s'.view q = if q = k then some v else s.view q := by
  induction s with
  | mem m =>
    intro k v e s' e' hwf h
    simp only [Store.set, Except.ok.injEq, Prod.mk.injEq] at h
    obtain ⟨rfl, rfl⟩ := h
    simp only [Store.WF, sortedAsc_iff_PW] at hwf ⊢
    exact ⟨kvSet_sorted hwf k v, fun q => kvGet_kvSet hwf k v q⟩
  | cache c p ih =>
    intro k v e s' e' hwf h
    simp only [Store.set, Except.ok.injEq, Prod.mk.injEq] at h
    obtain ⟨rfl, rfl⟩ := h
    exact cache_write_refines hwf k (some v) false (by simp)
  | pfx pre p ih =>
    intro k v e s' e' hwf h
    simp only [Store.set] at h
    rw [bind_ok_iff] at h
    obtain ⟨⟨p1, e1⟩, h1, h2⟩ := h
    simp only [Except.ok.injEq, Prod.mk.injEq] at h2
    obtain ⟨rfl, rfl⟩ := h2
    obtain ⟨hp1, hview⟩ := ih (pre ++ k) v e p1 e1 hwf h1
    refine ⟨hp1, fun q => ?_⟩
    simp only [Store.view, hview, List.append_cancel_left_eq]
  | gas p ih =>
    intro k v e s' e' hwf h
    simp only [Store.set] at h
    rw [bind_ok_iff] at h
    obtain ⟨ea, _, h⟩ := h
    rw [bind_ok_iff] at h
    obtain ⟨eb, _, h⟩ := h
    rw [bind_ok_iff] at h
    obtain ⟨⟨p1, e1⟩, h1, h2⟩ := h
    simp only [Except.ok.injEq, Prod.mk.injEq] at h2
    obtain ⟨rfl, rfl⟩ := h2
    exact ih k v eb p1 e1 hwf h1
  | trace p ih =>
    intro k v e s' e' hwf h
    simp only [Store.set] at h
    rw [bind_ok_iff] at h
    obtain ⟨⟨p1, e1⟩, h1, h2⟩ := h
    simp only [Except.ok.injEq, Prod.mk.injEq] at h2
    obtain ⟨rfl, rfl⟩ := h2
    exact ih k v _ p1 e1 hwf h1

theorem delete_refines' (s : Store) : ∀ (k : Bytes) (e : Env) (s' : Store) (e' : Env),
    s.WF → s.delete k e = .ok (s', e') →
    s'.WF ∧ ∀ q, s'.view q = if q = k then none else s.view q := by
  induction s with
  | mem m =>
    intro k e s' e' hwf h
    simp only [Store.delete, Except.ok.injEq, Prod.mk.injEq] at h
    obtain ⟨rfl, rfl⟩ := h
    simp only [Store.WF, sortedAsc_iff_PW] at hwf ⊢
    exact ⟨kvDel_sorted hwf k, fun q => kvGet_kvDel hwf k q⟩
  | cache c p ih =>
    intro k e s' e' hwf h
    simp only [Store.delete, Except.ok.injEq, Prod.mk.injEq] at h
    obtain ⟨rfl, rfl⟩ := h
    exact cache_write_refines hwf k none true (by simp)
  | pfx pre p ih =>
    intro k e s' e' hwf h
    simp only [Store.delete] at h
    rw [bind_ok_iff] at h
    obtain ⟨⟨p1, e1⟩, h1, h2⟩ := h
    simp only [Except.ok.injEq, Prod.mk.injEq] at h2
    obtain ⟨rfl, rfl⟩ := h2
    obtain ⟨hp1, hview⟩ := ih (pre ++ k) e p1 e1 hwf h1
    refine ⟨hp1, fun q => ?_⟩
    simp only [Store.view, hview, List.append_cancel_left_eq]
  | gas p ih =>
    intro k e s' e' hwf h
    simp only [Store.delete] at h
    rw [bind_ok_iff] at h
    obtain ⟨ea, _, h⟩ := h
    rw [bind_ok_iff] at h
    obtain ⟨⟨p1, e1⟩, h1, h2⟩ := h
    simp only [Except.ok.injEq, Prod.mk.injEq] at h2
    obtain ⟨rfl, rfl⟩ := h2
    exact ih k ea p1 e1 hwf h1
  | trace p ih =>
    intro k e s' e' hwf h
    simp only [Store.delete] at h
    rw [bind_ok_iff] at h
    obtain ⟨⟨p1, e1⟩, h1, h2⟩ := h
    simp only [Except.ok.injEq, Prod.mk.injEq] at h2
    obtain ⟨rfl, rfl⟩ := h2
    exact ih k _ p1 e1 hwf h1

/-! ### `insertSorted` / `sortByKey` -/

theorem mem_insertSorted {α : Type} (k : Bytes) (a : α) (l : List (Bytes × α)) (x : Bytes × α) :
    x ∈ insertSorted k a l ↔ x = (k, a) ∨ x ∈ l := by
  induction l with
  | nil => simp [insertSorted]
  | cons h t ih =>
    obtain ⟨k', a'⟩ := h
    simp only [insertSorted]
    split
    · simp only [List.mem_cons, ih]; exact or_left_comm
    · simp only [List.mem_cons]

theorem mem_sortByKey {α : Type} (l : List (Bytes × α)) (x : Bytes × α) :
    x ∈ sortByKey l ↔ x ∈ l := by
  induction l with
  | nil => simp [sortByKey]
  | cons h t ih =>
    have : sortByKey (h :: t) = insertSorted h.1 h.2 (sortByKey t) := rfl
    rw [this, mem_insertSorted, ih, List.mem_cons]

theorem insertSorted_sorted {α : Type} (k : Bytes) (a : α) {l : List (Bytes × α)} (hs : PW true l)
    (hk : k ∉ l.map (·.1)) : PW true (insertSorted k a l) := by
  induction l with
  | nil => simp [insertSorted, PW]
  | cons h t ih =>
    obtain ⟨k', a'⟩ := h
    have hs' := hs
    rw [PW, List.pairwise_cons] at hs
    simp only [List.map_cons, List.mem_cons, not_or] at hk
    simp only [insertSorted]
    split
    · rename_i hlt
      rw [PW, List.pairwise_cons]
      refine ⟨?_, ih hs.2 hk.2⟩
      intro y hy
      rcases (mem_insertSorted _ _ _ _).1 hy with rfl | hy
      · simpa [cmpLt] using hlt
      · exact hs.1 y hy
    · rename_i hnlt
      have hlt : blt k k' = true := by
        cases h : blt k k' with
        | true => rfl
        | false => exact absurd (blt_total h (by simpa using hnlt)) hk.1
      rw [PW, List.pairwise_cons]
      refine ⟨?_, hs'⟩
      intro y hy
      rcases List.mem_cons.1 hy with rfl | hy
      · simpa [cmpLt] using hlt
      · exact cmpLt_trans (asc := true) (by simpa [cmpLt] using hlt) (hs.1 y hy)

theorem sortByKey_sorted {α : Type} {l : List (Bytes × α)} (hnd : (l.map (·.1)).Nodup) :
    PW true (sortByKey l) := by
  induction l with
  | nil => simp [sortByKey, PW]
  | cons h t ih =>
    have : sortByKey (h :: t) = insertSorted h.1 h.2 (sortByKey t) := rfl
    rw [this]
    simp only [List.map_cons, List.nodup_cons] at hnd
    refine insertSorted_sorted _ _ (ih hnd.2) ?_
    intro hmem
    obtain ⟨x, hx, hxk⟩ := List.mem_map.1 hmem
    exact hnd.1 (List.mem_map.2 ⟨x, (mem_sortByKey _ _).1 hx, hxk⟩)

theorem sortByKey_nodup_keys {α : Type} {l : List (Bytes × α)} (hnd : (l.map (·.1)).Nodup) :
    ((sortByKey l).map (·.1)).Nodup := (sortByKey_sorted hnd).nodup_keys

/-! ### `Write` -/

theorem applyDirty_refines (l : List (Bytes × CVal)) : ∀ (p : Store) (e : Env) (p' : Store) (e' : Env),
    p.WF → (∀ k cv, (k, cv) ∈ l → (cv.deleted = true ↔ cv.value = none)) → (l.map (·.1)).Nodup →
    applyDirty l p e = .ok (p', e') →
    p'.WF ∧ (∀ q cv, (q, cv) ∈ l → p'.view q = cv.value) ∧
      (∀ q, q ∉ l.map (·.1) → p'.view q = p.view q) := by
  induction l with
  | nil =>
    intro p e p' e' hwf _ _ h
    simp only [applyDirty, Except.ok.injEq, Prod.mk.injEq] at h
    obtain ⟨rfl, rfl⟩ := h
    exact ⟨hwf, by simp, fun _ _ => rfl⟩
  | cons a t ih =>
    obtain ⟨k, cv⟩ := a
    intro p e p' e' hwf hdel hnd h
    simp only [List.map_cons, List.nodup_cons] at hnd
    have hdel' : ∀ k cv, (k, cv) ∈ t → (cv.deleted = true ↔ cv.value = none) :=
      fun k cv h => hdel k cv (List.mem_cons_of_mem _ h)
    -- one step: some intermediate store p1 with the head applied
    have step : ∃ p1 e1, p1.WF ∧ (∀ q, p1.view q = if q = k then cv.value else p.view q) ∧
        applyDirty t p1 e1 = .ok (p', e') := by
      simp only [applyDirty] at h
      split at h
      · rename_i hd
        rw [bind_ok_iff] at h
        obtain ⟨⟨p1, e1⟩, h1, h2⟩ := h
        obtain ⟨hw1, hv1⟩ := delete_refines' p k e p1 e1 hwf h1
        have : cv.value = none := (hdel k cv List.mem_cons_self).1 hd
        exact ⟨p1, e1, hw1, by rw [this]; exact hv1, h2⟩
      · rename_i hd
        split at h
        · rename_i hv
          exact absurd ((hdel k cv List.mem_cons_self).2 hv) hd
        · rename_i v hv
          rw [bind_ok_iff] at h
          obtain ⟨⟨p1, e1⟩, h1, h2⟩ := h
          obtain ⟨hw1, hv1⟩ := set_refines' p k v e p1 e1 hwf h1
          exact ⟨p1, e1, hw1, by rw [hv]; exact hv1, h2⟩
    obtain ⟨p1, e1, hw1, hv1, h2⟩ := step
    obtain ⟨hw', hin, hout⟩ := ih p1 e1 p' e' hw1 hdel' hnd.2 h2
    refine ⟨hw', ?_, ?_⟩
    · intro q cv' hmem
      rcases List.mem_cons.1 hmem with hmem | hmem
      · cases hmem
        rw [hout k hnd.1, hv1, if_pos rfl]
      · exact hin q cv' hmem
    · intro q hq
      simp only [List.map_cons, List.mem_cons, not_or] at hq
      rw [hout q hq.2, hv1, if_neg hq.1]

theorem cacheInv_empty : CacheInv CacheData.empty := by
  refine ⟨by simp [CacheData.empty], by simp [CacheData.empty], ?_, ?_, ?_, ?_, by simp [CacheData.empty, SortedAsc], ?_⟩ <;>
    simp [CacheData.empty, cacheLookup]

theorem write_refines' (c : CacheData) (p : Store) (e : Env) (s' : Store) (e' : Env)
    (hwf : (Store.cache c p).WF) (h : (Store.cache c p).write e = .ok (s', e')) :
    ∃ p', s' = .cache CacheData.empty p' ∧ s'.WF ∧
      (∀ q, p'.view q = (Store.cache c p).view q) ∧ (∀ q, s'.view q = (Store.cache c p).view q) := by
  obtain ⟨hc, hp, hclean⟩ := hwf
  simp only [Store.write] at h
  rw [bind_ok_iff] at h
  obtain ⟨⟨p1, e1⟩, h1, h2⟩ := h
  simp only [Except.ok.injEq, Prod.mk.injEq] at h2
  obtain ⟨rfl, rfl⟩ := h2
  have hnd0 : ((c.cache.filter (fun kc => kc.2.dirty)).map (·.1)).Nodup :=
    hc.nodupCache.sublist ((List.filter_sublist).map _)
  have hmem : ∀ k cv, (k, cv) ∈ sortByKey (c.cache.filter (fun kc => kc.2.dirty)) ↔
      (cacheLookup c.cache k = some cv ∧ cv.dirty = true) := by
    intro k cv
    rw [mem_sortByKey, List.mem_filter]
    constructor
    · rintro ⟨h1, h2⟩; exact ⟨cacheLookup_of_mem hc.nodupCache h1, h2⟩
    · rintro ⟨h1, h2⟩; exact ⟨cacheLookup_mem h1, h2⟩
  obtain ⟨hw1, hin, hout⟩ := applyDirty_refines _ p e p1 e1 hp
    (fun k cv hm => hc.deletedIff k cv ((hmem k cv).1 hm).1 ((hmem k cv).1 hm).2)
    (sortByKey_nodup_keys hnd0) h1
  have hview : ∀ q, p1.view q = (Store.cache c p).view q := by
    intro q
    simp only [Store.view]
    cases hl : cacheLookup c.cache q with
    | none =>
      simp only []
      apply hout
      intro hm
      obtain ⟨⟨k, cv⟩, hx, rfl⟩ := List.mem_map.1 hm
      have := ((hmem k cv).1 hx).1
      simp only [] at hl
      rw [hl] at this; cases this
    | some cv =>
      simp only []
      cases hd : cv.dirty with
      | true => exact hin q cv ((hmem q cv).2 ⟨hl, hd⟩)
      | false =>
        rw [hclean q cv hl hd]
        apply hout
        intro hm
        obtain ⟨⟨k, cv'⟩, hx, rfl⟩ := List.mem_map.1 hm
        have := (hmem k cv').1 hx
        simp only [] at hl
        rw [hl] at this
        obtain ⟨h3, h4⟩ := this
        cases h3; rw [hd] at h4; cases h4
  refine ⟨p1, rfl, ⟨cacheInv_empty, hw1, ?_⟩, hview, ?_⟩
  · intro k cv h; simp [CacheData.empty, cacheLookup] at h
  · intro q
    rw [← hview q]
    simp [Store.view, CacheData.empty, cacheLookup]

theorem PW.head_lt {α : Type} {asc : Bool} {a : Bytes × α} {t : List (Bytes × α)} (h : PW asc (a :: t)) :
    ∀ y ∈ t, cmpLt asc a.1 y.1 = true := (List.pairwise_cons.1 h).1

theorem PW.tail {α : Type} {asc : Bool} {a : Bytes × α} {t : List (Bytes × α)} (h : PW asc (a :: t)) :
    PW asc t := (List.pairwise_cons.1 h).2

theorem PW.cons {α : Type} {asc : Bool} {a : Bytes × α} {t : List (Bytes × α)}
    (h1 : ∀ y ∈ t, cmpLt asc a.1 y.1 = true) (h2 : PW asc t) : PW asc (a :: t) :=
  List.pairwise_cons.2 ⟨h1, h2⟩

/-- a key below the head of a sorted list is not a key of the list -/
theorem PW.not_mem_of_lt {α : Type} {asc : Bool} {a : Bytes × α} {t : List (Bytes × α)} (h : PW asc (a :: t))
    {k : Bytes} (hk : cmpLt asc k a.1 = true) : k ∉ (a :: t).map (·.1) := by
  intro hm
  obtain ⟨x, hx, rfl⟩ := List.mem_map.1 hm
  rcases List.mem_cons.1 hx with rfl | hx
  · rw [cmpLt_irrefl] at hk; cases hk
  · have := cmpLt_trans hk (h.head_lt x hx); rw [cmpLt_irrefl] at this; cases this

theorem PW.head_not_mem {α : Type} {asc : Bool} {a : Bytes × α} {t : List (Bytes × α)} (h : PW asc (a :: t)) :
    a.1 ∉ t.map (·.1) := by
  intro hm
  obtain ⟨x, hx, hxa⟩ := List.mem_map.1 hm
  have := h.head_lt x hx; rw [hxa, cmpLt_irrefl] at this; cases this

theorem mem_mergeDirty_sub (u s : List (Bytes × Option Bytes)) (x : Bytes × Option Bytes) :
    x ∈ mergeDirty u s → x ∈ u ∨ x ∈ s := by
  fun_induction mergeDirty u s
  all_goals grind

theorem mem_mergeDirty {u s : List (Bytes × Option Bytes)} (hu : PW true u) (hs : PW true s)
    (x : Bytes × Option Bytes) :
    x ∈ mergeDirty u s ↔ x ∈ u ∨ (x.1 ∉ u.map (·.1) ∧ x ∈ s) := by
  fun_induction mergeDirty u s
  case case1 s => simp
  case case2 u hne => simp
  case case3 uk uv us sk sv ss hlt ih =>
    have ih := ih hu.tail hs
    have h1 : ∀ y ∈ (sk, sv) :: ss, y.1 ≠ uk := by
      intro y hy hyk
      have hlt' : cmpLt true uk sk = true := by simpa [cmpLt] using hlt
      exact hs.not_mem_of_lt hlt' (List.mem_map.2 ⟨y, hy, hyk⟩)
    simp only [List.mem_cons, ih, List.map_cons, not_or]
    grind
  case case4 uk uv us sk sv ss hnlt hlt ih =>
    have ih := ih hu hs.tail
    have h1 : sk ∉ ((uk, uv) :: us).map (·.1) := by
      have hlt' : cmpLt true sk uk = true := by simpa [cmpLt] using hlt
      exact hu.not_mem_of_lt hlt'
    simp only [List.mem_cons, ih]
    grind
  case case5 uk uv us sk sv ss hnlt hnlt' ih =>
    have ih := ih hu.tail hs.tail
    have hk : uk = sk := blt_total (by simpa using hnlt) (by simpa using hnlt')
    subst hk
    have h1 : ∀ y ∈ ss, y.1 ≠ uk := by
      intro y hy hyk
      exact hs.head_not_mem (List.mem_map.2 ⟨y, hy, hyk⟩)
    simp only [List.mem_cons, ih, List.map_cons, not_or]
    grind

theorem mergeDirty_sorted {u s : List (Bytes × Option Bytes)} (hu : PW true u) (hs : PW true s) :
    PW true (mergeDirty u s) := by
  fun_induction mergeDirty u s
  case case1 s => exact hs
  case case2 u hne => exact hu
  case case3 uk uv us sk sv ss hlt ih =>
    have hlt' : cmpLt true uk sk = true := by simpa [cmpLt] using hlt
    refine PW.cons ?_ (ih hu.tail hs)
    intro y hy
    rcases mem_mergeDirty_sub _ _ _ hy with hy | hy
    · exact hu.head_lt y hy
    · rcases List.mem_cons.1 hy with rfl | hy
      · exact hlt'
      · exact cmpLt_trans hlt' (hs.head_lt y hy)
  case case4 uk uv us sk sv ss hnlt hlt ih =>
    have hlt' : cmpLt true sk uk = true := by simpa [cmpLt] using hlt
    refine PW.cons ?_ (ih hu hs.tail)
    intro y hy
    rcases mem_mergeDirty_sub _ _ _ hy with hy | hy
    · rcases List.mem_cons.1 hy with rfl | hy
      · exact hlt'
      · exact cmpLt_trans hlt' (hu.head_lt y hy)
    · exact hs.head_lt y hy
  case case5 uk uv us sk sv ss hnlt hnlt' ih =>
    have hk : uk = sk := blt_total (by simpa using hnlt) (by simpa using hnlt')
    subst hk
    refine PW.cons ?_ (ih hu.tail hs.tail)
    intro y hy
    rcases mem_mergeDirty_sub _ _ _ hy with hy | hy
    · exact hu.head_lt y hy
    · exact hs.head_lt y hy

/-! ### `dirtyItems` -/

/-- the current value of a key in the cache map -/
def curVal (c : CacheData) (k : Bytes) : Option Bytes :=
  match cacheLookup c.cache k with | some cv => cv.value | none => none

/-- the freshly sorted part of `dirtyItems` -/
def movedItems (c : CacheData) (a : Bytes) (b : Option Bytes) : List (Bytes × Option Bytes) :=
  sortByKey ((c.unsorted.filter (fun k => inDomain k a b)).map fun k => (k, curVal c k))

theorem dirtyItems_eq (c : CacheData) (a : Bytes) (b : Option Bytes) :
    dirtyItems c a b = { c with
      unsorted := c.unsorted.filter (fun k => !inDomain k a b)
      sorted := mergeDirty (movedItems c a b) c.sorted } := rfl

theorem mem_movedItems {c : CacheData} {a : Bytes} {b : Option Bytes} (x : Bytes × Option Bytes) :
    x ∈ movedItems c a b ↔ (x.1 ∈ c.unsorted ∧ inDomain x.1 a b = true ∧ x.2 = curVal c x.1) := by
  obtain ⟨k, ov⟩ := x
  simp only [movedItems, mem_sortByKey, List.mem_map, List.mem_filter, Prod.mk.injEq]
  constructor
  · rintro ⟨k', ⟨h1, h2⟩, rfl, rfl⟩; exact ⟨h1, h2, rfl⟩
  · rintro ⟨h1, h2, h3⟩; exact ⟨k, ⟨h1, h2⟩, rfl, h3.symm⟩

theorem mem_keys_movedItems {c : CacheData} {a : Bytes} {b : Option Bytes} (k : Bytes) :
    k ∈ (movedItems c a b).map (·.1) ↔ (k ∈ c.unsorted ∧ inDomain k a b = true) := by
  constructor
  · intro h
    obtain ⟨x, hx, rfl⟩ := List.mem_map.1 h
    have := (mem_movedItems x).1 hx
    exact ⟨this.1, this.2.1⟩
  · rintro ⟨h1, h2⟩
    exact List.mem_map.2 ⟨(k, curVal c k), (mem_movedItems _).2 ⟨h1, h2, rfl⟩, rfl⟩

theorem movedItems_sorted {c : CacheData} (hc : CacheInv c) (a : Bytes) (b : Option Bytes) :
    PW true (movedItems c a b) := by
  apply sortByKey_sorted
  rw [List.map_map]
  have : ((fun x : Bytes × Option Bytes => x.1) ∘ fun k => (k, curVal c k)) = id := rfl
  rw [this, List.map_id]
  exact hc.nodupUnsorted.filter _

theorem dirtyItems_inv {c : CacheData} (hc : CacheInv c) (a : Bytes) (b : Option Bytes) :
    CacheInv (dirtyItems c a b) := by
  have hU := movedItems_sorted hc a b
  have hS : PW true c.sorted := (sortedAsc_iff_PW _).1 hc.sortedAsc
  have hmem := fun x => mem_mergeDirty hU hS x
  rw [dirtyItems_eq]
  refine ⟨hc.nodupCache, hc.nodupUnsorted.filter _, ?_, ?_, ?_, ?_, ?_, hc.deletedIff⟩
  · intro k hk
    exact hc.unsortedDirty k (List.mem_filter.1 hk).1
  · intro k cv h1 h2
    simp only [List.mem_filter, hmem, mem_keys_movedItems, mem_movedItems]
    rcases hc.dirtyTracked k cv h1 h2 with h | ⟨ov, h⟩
    · by_cases hd : inDomain k a b = true
      · exact Or.inr ⟨curVal c k, Or.inl ⟨h, hd, rfl⟩⟩
      · exact Or.inl ⟨h, by simpa using hd⟩
    · by_cases hd : k ∈ c.unsorted ∧ inDomain k a b = true
      · exact Or.inr ⟨curVal c k, Or.inl ⟨hd.1, hd.2, rfl⟩⟩
      · exact Or.inr ⟨ov, Or.inr ⟨hd, h⟩⟩
  · intro k ov h1 h2
    simp only [hmem, mem_keys_movedItems, mem_movedItems] at h1
    simp only [List.mem_filter, not_and, Bool.not_eq_true', Bool.not_eq_false] at h2
    rcases h1 with ⟨h3, h4, h5⟩ | ⟨h3, h4⟩
    · obtain ⟨cv, h6, h7⟩ := hc.unsortedDirty k h3
      refine ⟨cv, h6, h7, ?_⟩
      rw [h5, curVal, h6]
    · have : k ∉ c.unsorted := fun hk => h3 ⟨hk, h2 hk⟩
      exact hc.sortedCurrent k ov h4 this
  · intro k ov h1
    simp only [hmem, mem_movedItems] at h1
    rcases h1 with ⟨h3, _, _⟩ | ⟨_, h4⟩
    · exact hc.unsortedDirty k h3
    · exact hc.sortedDirty k ov h4
  · exact (sortedAsc_iff_PW _).2 (mergeDirty_sorted hU hS)

theorem dirtyItems_cache (c : CacheData) (a : Bytes) (b : Option Bytes) :
    (dirtyItems c a b).cache = c.cache := rfl

/-- after `dirtyItems`, the sorted list holds exactly the current value of every dirty key of the domain -/
theorem dirtyItems_sorted_mem {c : CacheData} (hc : CacheInv c) (a : Bytes) (b : Option Bytes)
    (k : Bytes) (hd : inDomain k a b = true) (ov : Option Bytes) :
    (k, ov) ∈ (dirtyItems c a b).sorted ↔
      ∃ cv, cacheLookup c.cache k = some cv ∧ cv.dirty = true ∧ cv.value = ov := by
  have hc' := dirtyItems_inv hc a b
  have hnu : k ∉ (dirtyItems c a b).unsorted := by
    simp [dirtyItems_eq, hd]
  constructor
  · intro h
    exact hc'.sortedCurrent k ov h hnu
  · rintro ⟨cv, h1, h2, h3⟩
    rcases hc'.dirtyTracked k cv h1 h2 with h | ⟨ov', h⟩
    · exact absurd h hnu
    · obtain ⟨cv', h4, _, h6⟩ := hc'.sortedCurrent k ov' h hnu
      rw [dirtyItems_cache, h1] at h4
      cases h4
      rw [← h3, h6]; exact h

/-! ### `memItems` -/

theorem inDomain_of_lt_of_not {a : Bytes} {b : Option Bytes} {x y : Bytes} (hxa : ble a x = true)
    (hx : inDomain x a b = false) (hxy : blt x y = true) : inDomain y a b = false := by
  cases b with
  | none => simp [inDomain, hxa] at hx
  | some e =>
    simp only [inDomain, hxa, Bool.true_and] at hx
    simp only [inDomain, Bool.and_eq_false_iff]
    right
    cases h : blt y e with
    | false => rfl
    | true => rw [blt_trans hxy h] at hx; cases hx

theorem ble_of_lt {a x y : Bytes} (hxa : ble a x = true) (hxy : blt x y = true) : ble a y = true := by
  simp only [ble, Bool.not_eq_true'] at *
  cases h : blt y a with
  | false => rfl
  | true => rw [blt_trans hxy h] at hxa; cases hxa

theorem takeWhile_inDomain_eq_filter {α : Type} {l : List (Bytes × α)} (hs : PW true l) (a : Bytes)
    (b : Option Bytes) (hge : ∀ y ∈ l, ble a y.1 = true) :
    l.takeWhile (fun e => inDomain e.1 a b) = l.filter (fun e => inDomain e.1 a b) := by
  induction l with
  | nil => rfl
  | cons x t ih =>
    have ih := ih hs.tail (fun y hy => hge y (List.mem_cons_of_mem _ hy))
    by_cases hx : inDomain x.1 a b = true
    · simp [hx, ih]
    · have hx : inDomain x.1 a b = false := by simpa using hx
      simp only [List.takeWhile_cons, List.filter_cons, hx, Bool.false_eq_true, if_false]
      symm
      rw [List.filter_eq_nil_iff]
      intro y hy
      have hlt : blt x.1 y.1 = true := by simpa [cmpLt] using hs.head_lt y hy
      simp [inDomain_of_lt_of_not (hge x List.mem_cons_self) hx hlt]

theorem run_eq_filter {α : Type} {l : List (Bytes × α)} (hs : PW true l) (a : Bytes) (b : Option Bytes) :
    (l.dropWhile (fun e => !inDomain e.1 a b)).takeWhile (fun e => inDomain e.1 a b) =
      l.filter (fun e => inDomain e.1 a b) := by
  induction l with
  | nil => rfl
  | cons x t ih =>
    by_cases hx : inDomain x.1 a b = true
    · have hxa : ble a x.1 = true := by
        simp only [inDomain, Bool.and_eq_true] at hx; exact hx.1
      simp only [List.dropWhile_cons, hx, Bool.not_true, Bool.false_eq_true, if_false]
      apply takeWhile_inDomain_eq_filter hs
      intro y hy
      rcases List.mem_cons.1 hy with rfl | hy
      · exact hxa
      · exact ble_of_lt hxa (by simpa [cmpLt] using hs.head_lt y hy)
    · have hx : inDomain x.1 a b = false := by simpa using hx
      simp only [List.dropWhile_cons, hx, Bool.not_false, if_true, List.filter_cons, Bool.false_eq_true,
        if_false]
      exact ih hs.tail

theorem memItems_eq {l : List (Bytes × Option Bytes)} (hs : PW true l) (a : Bytes) (b : Option Bytes)
    (asc : Bool) :
    memItems l a b asc =
      if asc then l.filter (fun e => inDomain e.1 a b) else (l.filter (fun e => inDomain e.1 a b)).reverse := by
  simp only [memItems, run_eq_filter hs]

theorem PW_dir_of_filter {α : Type} {l : List (Bytes × α)} (hs : PW true l) (p : Bytes × α → Bool) (asc : Bool) :
    PW asc (if asc then l.filter p else (l.filter p).reverse) := by
  cases asc
  · simp only [Bool.false_eq_true, if_false]
    rw [PW_reverse]; exact hs.filter p
  · exact hs.filter p

theorem mem_dir_filter {α : Type} (l : List (Bytes × α)) (p : Bytes × α → Bool) (asc : Bool) (x : Bytes × α) :
    x ∈ (if asc then l.filter p else (l.filter p).reverse) ↔ x ∈ l ∧ p x = true := by
  cases asc <;> simp

/-! ### The merge iterator -/

/-- prepend a cache item unless it is a delete -/
def consOpt (k : Bytes) (ov : Option Bytes) (rest : Items) : Items :=
  match ov with
  | none => rest
  | some v => (k, v) :: rest

/-- the non-deleted items of a cache item list -/
def liveItems : List (Bytes × Option Bytes) → Items
  | [] => []
  | (k, ov) :: cs => consOpt k ov (liveItems cs)

/-- Specification of the merge: a plain two-list merge where the cache wins and `none` deletes. -/
def mergeSpec (asc : Bool) : Items → List (Bytes × Option Bytes) → Items
  | [], c => liveItems c
  | p, [] => p
  | (pk, pv) :: ps, (ck, cv) :: cs =>
    if cmpLt asc pk ck then (pk, pv) :: mergeSpec asc ps ((ck, cv) :: cs)
    else if pk == ck then consOpt ck cv (mergeSpec asc ps cs)
    else consOpt ck cv (mergeSpec asc ((pk, pv) :: ps) cs)
termination_by p c => p.length + c.length

/-- one `Valid/Key/Value/Next` round on an already advanced iterator -/
def drainStep (asc : Bool) (fuel : Nat) (pc : Items × List (Bytes × Option Bytes)) : Items :=
  match mergeCur asc pc.1 pc.2 with
  | none => []
  | some kv => kv :: mergeDrain asc fuel (mergeNext asc pc.1 pc.2).1 (mergeNext asc pc.1 pc.2).2

theorem mergeDrain_succ (asc : Bool) (fuel : Nat) (p : Items) (c : List (Bytes × Option Bytes)) :
    mergeDrain asc (fuel + 1) p c = drainStep asc fuel (skipUntil asc p c) := by
  simp only [mergeDrain, drainStep]
  cases skipUntil asc p c with
  | mk p' c' =>
    simp only []
    cases mergeCur asc p' c' with
    | none => rfl
    | some kv => rfl

theorem mergeSpec_nil_right (asc : Bool) (p : Items) : mergeSpec asc p [] = p := by
  cases p <;> simp [mergeSpec, liveItems]

/-- skipping leading deletes below the parent's key does not change the merge -/
theorem mergeSpec_skipCacheDeletes (asc : Bool) (pk pv : Bytes) (ps : Items) (cs : List (Bytes × Option Bytes)) :
    mergeSpec asc ((pk, pv) :: ps) (skipCacheDeletes asc (some pk) cs) = mergeSpec asc ((pk, pv) :: ps) cs := by
  induction cs with
  | nil => simp [skipCacheDeletes]
  | cons h t ih =>
    obtain ⟨k, v⟩ := h
    simp only [skipCacheDeletes]
    split
    · rename_i hc
      simp only [Bool.and_eq_true, Option.isNone_iff_eq_none, beforeUntil] at hc
      obtain ⟨rfl, hlt⟩ := hc
      rw [ih]
      have h1 : cmpLt asc pk k = false := cmpLt_asymm hlt
      have h2 : (pk == k) = false := by
        simpa using (cmpLt_ne hlt).symm
      simp [mergeSpec, h1, h2, consOpt]
    · rfl

theorem drainStep_nil (asc : Bool) (fuel : Nat)
    (IH : ∀ p c, p.length + c.length < fuel → mergeDrain asc fuel p c = mergeSpec asc p c)
    (c : List (Bytes × Option Bytes)) (hc : c.length ≤ fuel) :
    drainStep asc fuel ([], skipCacheDeletes asc none c) = mergeSpec asc [] c := by
  induction c with
  | nil => simp [skipCacheDeletes, drainStep, mergeCur, mergeSpec, liveItems]
  | cons h t ih =>
    obtain ⟨k, v⟩ := h
    simp only [List.length_cons] at hc
    cases v with
    | none =>
      simp only [skipCacheDeletes, Option.isNone_none, beforeUntil, Bool.and_self, if_true]
      rw [ih (by omega)]
      simp [mergeSpec, liveItems, consOpt]
    | some v =>
      simp only [skipCacheDeletes, Option.isNone_some, Bool.false_and, Bool.false_eq_true, if_false,
        drainStep, mergeCur, mergeNext, List.tail_cons, Option.getD_some]
      rw [IH [] t (by simp; omega)]
      simp [mergeSpec, liveItems, consOpt]

theorem drainStep_skipUntil (asc : Bool) (fuel : Nat)
    (IH : ∀ p c, p.length + c.length < fuel → mergeDrain asc fuel p c = mergeSpec asc p c)
    (p : Items) (c : List (Bytes × Option Bytes)) (hlen : p.length + c.length ≤ fuel) :
    drainStep asc fuel (skipUntil asc p c) = mergeSpec asc p c := by
  fun_induction skipUntil asc p c
  case case1 c => exact drainStep_nil asc fuel IH c (by simpa using hlen)
  case case2 p hne =>
    cases p with
    | nil => exact absurd rfl hne
    | cons h t =>
      obtain ⟨pk, pv⟩ := h
      simp only [drainStep, mergeCur, mergeNext, List.tail_cons]
      rw [IH t [] (by simp at hlen ⊢; omega), mergeSpec_nil_right, mergeSpec_nil_right]
  case case3 pk pv ps ck cv cs hlt =>
    simp only [drainStep, mergeCur, mergeNext, hlt, if_true]
    rw [IH _ _ (by simp at hlen ⊢; omega)]
    simp [mergeSpec, hlt]
  case case4 pk pv ps ck cs hnlt heq ih =>
    rw [ih (by simp at hlen ⊢; omega)]
    simp [mergeSpec, hnlt, heq, consOpt]
  case case5 pk pv ps ck cs hnlt heq v =>
    have hnlt : cmpLt asc pk ck = false := by simpa using hnlt
    simp only [drainStep, mergeCur, mergeNext, hnlt, heq, if_true, if_false, Bool.false_eq_true,
      Option.getD_some]
    rw [IH _ _ (by simp at hlen ⊢; omega)]
    simp [mergeSpec, hnlt, heq, consOpt]
    simpa using heq
  case case6 pk pv ps ck cs hnlt hne ih =>
    have hl := skipCacheDeletes_length_le asc (some pk) cs
    rw [ih (by simp at hlen ⊢; omega), mergeSpec_skipCacheDeletes]
    simp [mergeSpec, hnlt, hne, consOpt]
  case case7 pk pv ps ck cs hnlt hne v =>
    simp only [drainStep, mergeCur, mergeNext, hnlt, hne, if_false, Bool.false_eq_true,
      Option.getD_some]
    rw [IH _ _ (by simp at hlen ⊢; omega)]
    simp [mergeSpec, hnlt, hne, consOpt]

theorem mergeDrain_eq_mergeSpec (asc : Bool) (fuel : Nat) :
    ∀ (p : Items) (c : List (Bytes × Option Bytes)), p.length + c.length < fuel →
      mergeDrain asc fuel p c = mergeSpec asc p c := by
  induction fuel with
  | zero => intro p c h; omega
  | succ n ih =>
    intro p c h
    rw [mergeDrain_succ]
    exact drainStep_skipUntil asc n ih p c (by omega)

theorem mem_consOpt (k : Bytes) (ov : Option Bytes) (rest : Items) (x : Bytes × Bytes) :
    x ∈ consOpt k ov rest ↔ (x.1 = k ∧ ov = some x.2) ∨ x ∈ rest := by
  obtain ⟨xk, xv⟩ := x
  cases ov with
  | none => simp [consOpt]
  | some v => simp [consOpt, eq_comm]

theorem mem_liveItems (c : List (Bytes × Option Bytes)) (x : Bytes × Bytes) :
    x ∈ liveItems c ↔ (x.1, some x.2) ∈ c := by
  induction c with
  | nil => simp [liveItems]
  | cons h t ih =>
    obtain ⟨k, ov⟩ := h
    simp only [liveItems, mem_consOpt, ih, List.mem_cons, Prod.mk.injEq]
    grind

theorem mem_mergeSpec_sub (asc : Bool) (p : Items) (c : List (Bytes × Option Bytes)) (x : Bytes × Bytes) :
    x ∈ mergeSpec asc p c → x ∈ p ∨ (x.1, some x.2) ∈ c := by
  fun_induction mergeSpec asc p c
  case case1 c => intro h; exact Or.inr ((mem_liveItems _ _).1 h)
  case case2 p hne => intro h; exact Or.inl h
  case case3 pk pv ps ck cv cs hlt ih =>
    simp only [List.mem_cons] at ih ⊢; grind
  case case4 pk pv ps ck cv cs hnlt heq ih =>
    simp only [mem_consOpt, List.mem_cons, Prod.mk.injEq] at ih ⊢; grind
  case case5 pk pv ps ck cv cs hnlt hne ih =>
    simp only [mem_consOpt, List.mem_cons, Prod.mk.injEq] at ih ⊢; grind

theorem PW_consOpt {asc : Bool} {k : Bytes} {ov : Option Bytes} {rest : Items}
    (h1 : ∀ y ∈ rest, cmpLt asc k y.1 = true) (h2 : PW asc rest) : PW asc (consOpt k ov rest) := by
  cases ov with
  | none => exact h2
  | some v => exact PW.cons h1 h2

theorem mem_mergeSpec {asc : Bool} {p : Items} {c : List (Bytes × Option Bytes)} (hp : PW asc p)
    (hc : PW asc c) (x : Bytes × Bytes) :
    x ∈ mergeSpec asc p c ↔ (x.1, some x.2) ∈ c ∨ (x.1 ∉ c.map (·.1) ∧ x ∈ p) := by
  fun_induction mergeSpec asc p c
  case case1 c => simp [mem_liveItems]
  case case2 p hne => simp
  case case3 pk pv ps ck cv cs hlt ih =>
    have ih := ih hp.tail hc
    have h1 : pk ∉ ((ck, cv) :: cs).map (·.1) := hc.not_mem_of_lt hlt
    simp only [List.mem_cons, ih]
    grind
  case case4 pk pv ps ck cv cs hnlt heq ih =>
    have ih := ih hp.tail hc.tail
    have hk : pk = ck := by simpa using heq
    subst hk
    have h1 : ∀ y ∈ ps, y.1 ≠ pk := fun y hy hyk => hp.head_not_mem (List.mem_map.2 ⟨y, hy, hyk⟩)
    have h2 : pk ∉ cs.map (·.1) := hc.head_not_mem
    simp only [mem_consOpt, List.mem_cons, ih, List.map_cons, not_or, Prod.mk.injEq]
    grind
  case case5 pk pv ps ck cv cs hnlt hne ih =>
    have ih := ih hp hc.tail
    have hne : pk ≠ ck := by simpa using hne
    have hlt : cmpLt asc ck pk = true := by
      cases h : cmpLt asc ck pk with
      | true => rfl
      | false => exact absurd (cmpLt_total (by simpa using hnlt) h) hne
    have h1 : ck ∉ ((pk, pv) :: ps).map (·.1) := hp.not_mem_of_lt hlt
    have h2 : ck ∉ cs.map (·.1) := hc.head_not_mem
    simp only [mem_consOpt, List.mem_cons, ih, List.map_cons, not_or, Prod.mk.injEq]
    grind

theorem PW_liveItems {asc : Bool} {c : List (Bytes × Option Bytes)} (hc : PW asc c) : PW asc (liveItems c) := by
  induction c with
  | nil => simp [liveItems, PW]
  | cons h t ih =>
    obtain ⟨k, ov⟩ := h
    refine PW_consOpt ?_ (ih hc.tail)
    intro y hy
    exact hc.head_lt (y.1, some y.2) ((mem_liveItems _ _).1 hy)

theorem mergeSpec_sorted {asc : Bool} {p : Items} {c : List (Bytes × Option Bytes)} (hp : PW asc p)
    (hc : PW asc c) : PW asc (mergeSpec asc p c) := by
  fun_induction mergeSpec asc p c
  case case1 c => exact PW_liveItems hc
  case case2 p hne => exact hp
  case case3 pk pv ps ck cv cs hlt ih =>
    refine PW.cons ?_ (ih hp.tail hc)
    intro y hy
    rcases mem_mergeSpec_sub _ _ _ _ hy with hy | hy
    · exact hp.head_lt y hy
    · rcases List.mem_cons.1 hy with hy | hy
      · cases hy; exact hlt
      · exact cmpLt_trans hlt (hc.head_lt _ hy)
  case case4 pk pv ps ck cv cs hnlt heq ih =>
    have hk : pk = ck := by simpa using heq
    subst hk
    refine PW_consOpt ?_ (ih hp.tail hc.tail)
    intro y hy
    rcases mem_mergeSpec_sub _ _ _ _ hy with hy | hy
    · exact hp.head_lt y hy
    · exact hc.head_lt _ hy
  case case5 pk pv ps ck cv cs hnlt hne ih =>
    have hne : pk ≠ ck := by simpa using hne
    have hlt : cmpLt asc ck pk = true := by
      cases h : cmpLt asc ck pk with
      | true => rfl
      | false => exact absurd (cmpLt_total (by simpa using hnlt) h) hne
    refine PW_consOpt ?_ (ih hp hc.tail)
    intro y hy
    rcases mem_mergeSpec_sub _ _ _ _ hy with hy | hy
    · rcases List.mem_cons.1 hy with hy | hy
      · cases hy; exact hlt
      · exact cmpLt_trans hlt (hp.head_lt _ hy)
    · exact hc.head_lt _ hy

/-! ### One cache layer of `Store.items` -/

theorem cache_items_refines {c : CacheData} {p : Store} {a : Bytes} {b : Option Bytes} {asc : Bool}
    {pit : Items} (hc : CacheInv c)
    (hclean : ∀ k cv, cacheLookup c.cache k = some cv → cv.dirty = false → cv.value = p.view k)
    (hps : PW asc pit)
    (hpm : ∀ k v, (k, v) ∈ pit ↔ (p.view k = some v ∧ inDomain k a b = true)) :
    let cit := memItems (dirtyItems c a b).sorted a b asc
    let its := mergeDrain asc (pit.length + cit.length + 1) pit cit
    PW asc its ∧ ∀ k v, (k, v) ∈ its ↔ ((Store.cache c p).view k = some v ∧ inDomain k a b = true) := by
  intro cit its
  have hc' := dirtyItems_inv hc a b
  have hS : PW true (dirtyItems c a b).sorted := (sortedAsc_iff_PW _).1 hc'.sortedAsc
  have hcit : cit = if asc then (dirtyItems c a b).sorted.filter (fun e => inDomain e.1 a b)
      else ((dirtyItems c a b).sorted.filter (fun e => inDomain e.1 a b)).reverse := memItems_eq hS a b asc
  have hcs : PW asc cit := by rw [hcit]; exact PW_dir_of_filter hS _ asc
  have hcm : ∀ k ov, (k, ov) ∈ cit ↔
      (inDomain k a b = true ∧ ∃ cv, cacheLookup c.cache k = some cv ∧ cv.dirty = true ∧ cv.value = ov) := by
    intro k ov
    rw [hcit, mem_dir_filter]
    constructor
    · rintro ⟨h1, h2⟩
      exact ⟨h2, (dirtyItems_sorted_mem hc a b k h2 ov).1 h1⟩
    · rintro ⟨h1, h2⟩
      exact ⟨(dirtyItems_sorted_mem hc a b k h1 ov).2 h2, h1⟩
  have hits : its = mergeSpec asc pit cit := mergeDrain_eq_mergeSpec asc _ pit cit (by omega)
  rw [hits]
  refine ⟨mergeSpec_sorted hps hcs, ?_⟩
  intro k v
  rw [mem_mergeSpec hps hcs]
  simp only [Store.view]
  have hkeys : k ∈ cit.map (·.1) ↔
      (inDomain k a b = true ∧ ∃ cv, cacheLookup c.cache k = some cv ∧ cv.dirty = true) := by
    constructor
    · intro h
      obtain ⟨⟨k', ov⟩, hx, rfl⟩ := List.mem_map.1 h
      obtain ⟨h1, cv, h2, h3, _⟩ := (hcm k' ov).1 hx
      exact ⟨h1, cv, h2, h3⟩
    · rintro ⟨h1, cv, h2, h3⟩
      exact List.mem_map.2 ⟨(k, cv.value), (hcm k cv.value).2 ⟨h1, cv, h2, h3, rfl⟩, rfl⟩
  rw [hkeys, hcm, hpm]
  cases hl : cacheLookup c.cache k with
  | none => simp
  | some cv =>
    cases hd : cv.dirty with
    | true => simp [hd]; grind
    | false =>
      have := hclean k cv hl hd
      simp [hd, this]

/-! ### prefixes -/

theorem takeWhile_eq_self {α : Type} {p : α → Bool} {l : List α} (h : ∀ x ∈ l, p x = true) :
    l.takeWhile p = l := by
  induction l with
  | nil => rfl
  | cons a t ih =>
    rw [List.takeWhile_cons_of_pos (h a List.mem_cons_self), ih (fun x hx => h x (List.mem_cons_of_mem _ hx))]

theorem all_of_dropWhile_eq_nil {α : Type} {p : α → Bool} {l : List α} (h : l.dropWhile p = []) :
    ∀ x ∈ l, p x = true := by
  induction l with
  | nil => intro x hx; cases hx
  | cons a t ih =>
    by_cases ha : p a = true
    · rw [List.dropWhile_cons_of_pos ha] at h
      intro x hx
      rcases List.mem_cons.1 hx with rfl | hx
      · exact ha
      · exact ih h x hx
    · rw [List.dropWhile_cons_of_neg ha] at h; cases h

theorem of_mem_takeWhile {α : Type} {p : α → Bool} {l : List α} {x : α} (h : x ∈ l.takeWhile p) :
    p x = true := by
  have := List.all_takeWhile (l := l) (p := p)
  rw [List.all_eq_true] at this
  exact this x h

theorem hasPrefix_append (pre k : Bytes) : hasPrefix (pre ++ k) pre = true := by
  induction pre with
  | nil => cases k <;> rfl
  | cons x xs ih => simp [hasPrefix, ih]

theorem hasPrefix_nil (k : Bytes) : hasPrefix k [] = true := by cases k <;> rfl

theorem eq_append_of_hasPrefix {k pre : Bytes} (h : hasPrefix k pre = true) :
    k = pre ++ k.drop pre.length := by
  induction pre generalizing k with
  | nil => simp
  | cons x xs ih =>
    cases k with
    | nil => simp [hasPrefix] at h
    | cons y ys =>
      simp only [hasPrefix, Bool.and_eq_true, beq_iff_eq] at h
      obtain ⟨rfl, h⟩ := h
      simp only [List.length_cons, List.drop_succ_cons, List.cons_append, List.cons.injEq, true_and]
      exact ih h

/-- keys between `pre ++ a` and `pre ++ e` start with `pre` -/
theorem hasPrefix_of_between {pre a e k : Bytes} (h1 : blt k (pre ++ a) = false)
    (h2 : blt k (pre ++ e) = true) : hasPrefix k pre = true := by
  induction pre generalizing k with
  | nil => exact hasPrefix_nil k
  | cons x xs ih =>
    cases k with
    | nil => simp [blt] at h1
    | cons y ys =>
      simp only [List.cons_append, blt, Bool.or_eq_false_iff, decide_eq_false_iff_not,
        Bool.and_eq_false_iff, beq_eq_false_iff_ne, ne_eq, Bool.or_eq_true, decide_eq_true_eq,
        Bool.and_eq_true, beq_iff_eq] at h1 h2
      have hxy : y = x := by omega
      subst hxy
      simp only [Nat.lt_irrefl, not_false_eq_true, not_true_eq_false, false_or, true_and] at h1 h2
      simp [hasPrefix, ih h1 h2]

/-- byte strings not below `0xFF…0xFF ++ a` start with `0xFF…0xFF` -/
theorem hasPrefix_of_ge_ff {t a k : Bytes} (ht : ∀ y ∈ t, y = 255) (hk : IsBytes k)
    (h1 : blt k (t ++ a) = false) : hasPrefix k t = true := by
  induction t generalizing k with
  | nil => exact hasPrefix_nil k
  | cons x xs ih =>
    have hx : x = 255 := ht x List.mem_cons_self
    subst hx
    cases k with
    | nil => simp [blt] at h1
    | cons y ys =>
      have hy : y < 256 := hk y List.mem_cons_self
      simp only [List.cons_append, blt, Bool.or_eq_false_iff, decide_eq_false_iff_not,
        Bool.and_eq_false_iff, beq_eq_false_iff_ne, ne_eq] at h1
      have hxy : y = 255 := by omega
      subst hxy
      simp only [not_true_eq_false, false_or] at h1
      have := ih (fun y hy => ht y (List.mem_cons_of_mem _ hy))
        (fun z hz => hk z (List.mem_cons_of_mem _ hz)) h1.2
      simp [hasPrefix, this]

theorem hasPrefix_of_between_end {q t a k : Bytes} {x : Nat} (ht : ∀ y ∈ t, y = 255) (hk : IsBytes k)
    (h1 : blt k (q ++ x :: t ++ a) = false) (h2 : blt k (q ++ [x + 1]) = true) :
    hasPrefix k (q ++ x :: t) = true := by
  induction q generalizing k with
  | nil =>
    cases k with
    | nil => simp [blt] at h1
    | cons y ys =>
      simp only [List.nil_append, List.cons_append, blt, Bool.or_eq_false_iff, decide_eq_false_iff_not,
        Bool.and_eq_false_iff, beq_eq_false_iff_ne, ne_eq, Bool.or_eq_true, decide_eq_true_eq,
        Bool.and_eq_true, beq_iff_eq] at h1 h2
      have h2' : y < x + 1 := by
        rcases h2 with h2 | ⟨_, h2⟩
        · exact h2
        · cases ys <;> simp [blt] at h2
      have hxy : y = x := by omega
      subst hxy
      simp only [not_true_eq_false, false_or] at h1
      have := hasPrefix_of_ge_ff ht (fun z hz => hk z (List.mem_cons_of_mem _ hz)) h1.2
      simp [hasPrefix, this]
  | cons z zs ih =>
    cases k with
    | nil => simp [blt] at h1
    | cons y ys =>
      simp only [List.cons_append, blt, Bool.or_eq_false_iff, decide_eq_false_iff_not,
        Bool.and_eq_false_iff, beq_eq_false_iff_ne, ne_eq, Bool.or_eq_true, decide_eq_true_eq,
        Bool.and_eq_true, beq_iff_eq] at h1 h2
      have hxy : y = z := by omega
      subst hxy
      simp only [Nat.lt_irrefl, not_false_eq_true, not_true_eq_false, false_or, true_and] at h1 h2
      have := ih (fun z hz => hk z (List.mem_cons_of_mem _ hz)) (by simpa using h1) h2
      simp [hasPrefix, this]

theorem blt_end_of_hasPrefix {q t k : Bytes} {x : Nat} (h : hasPrefix k (q ++ x :: t) = true) :
    blt k (q ++ [x + 1]) = true := by
  induction q generalizing k with
  | nil =>
    cases k with
    | nil => simp [hasPrefix] at h
    | cons y ys =>
      simp only [List.nil_append, hasPrefix, Bool.and_eq_true, beq_iff_eq] at h
      simp [blt, h.1]
  | cons z zs ih =>
    cases k with
    | nil => simp [hasPrefix] at h
    | cons y ys =>
      simp only [List.cons_append, hasPrefix, Bool.and_eq_true, beq_iff_eq] at h
      simp [blt, h.1, ih h.2]

theorem prefixEnd_none {pre : Bytes} (h : prefixEnd pre = none) : ∀ y ∈ pre, y = 255 := by
  unfold prefixEnd at h
  split at h
  · rename_i hd
    intro y hy
    simpa using all_of_dropWhile_eq_nil hd y (List.mem_reverse.2 hy)
  · cases h

theorem prefixEnd_some {pre e : Bytes} (h : prefixEnd pre = some e) :
    ∃ q x t, pre = q ++ x :: t ∧ (∀ y ∈ t, y = 255) ∧ e = q ++ [x + 1] := by
  unfold prefixEnd at h
  split at h
  · cases h
  · rename_i x rest hd
    simp only [Option.some.injEq] at h
    refine ⟨rest.reverse, x, (pre.reverse.takeWhile (· == 255)).reverse, ?_, ?_, ?_⟩
    · have := List.takeWhile_append_dropWhile (p := (· == 255)) (l := pre.reverse)
      rw [hd] at this
      have h2 := congrArg List.reverse this
      simp only [List.reverse_reverse, List.reverse_append, List.reverse_cons, List.append_assoc,
        List.singleton_append] at h2
      exact h2.symm
    · intro y hy
      have := of_mem_takeWhile (List.mem_reverse.1 hy)
      simpa using this
    · rw [← h]; simp

/-- within the parent's range of a prefix iterator every byte-string key starts with the prefix -/
theorem hasPrefix_of_inDomain {pre a k : Bytes} {b : Option Bytes} (hk : IsBytes k)
    (h : inDomain k (pre ++ a) (match b with | none => prefixEnd pre | some e => some (pre ++ e)) = true) :
    hasPrefix k pre = true := by
  simp only [inDomain, ble, Bool.and_eq_true, Bool.not_eq_true'] at h
  obtain ⟨h1, h2⟩ := h
  cases b with
  | some e => exact hasPrefix_of_between h1 h2
  | none =>
    simp only [] at h2
    cases hpe : prefixEnd pre with
    | none => exact hasPrefix_of_ge_ff (prefixEnd_none hpe) hk h1
    | some e =>
      obtain ⟨q, x, t, rfl, ht, rfl⟩ := prefixEnd_some hpe
      rw [hpe] at h2
      exact hasPrefix_of_between_end ht hk (by simpa using h1) h2

theorem inDomain_prefix (pre a k : Bytes) (b : Option Bytes) :
    inDomain (pre ++ k) (pre ++ a) (match b with | none => prefixEnd pre | some e => some (pre ++ e)) =
      inDomain k a b := by
  cases b with
  | some e => simp [inDomain, ble_append_left, blt_append_left]
  | none =>
    simp only [inDomain, ble_append_left]
    cases hpe : prefixEnd pre with
    | none => rfl
    | some e =>
      obtain ⟨q, x, t, rfl, ht, rfl⟩ := prefixEnd_some hpe
      have := blt_end_of_hasPrefix (hasPrefix_append (q ++ x :: t) k)
      simp only [this]

/-! ### One prefix layer of `Store.items` -/

theorem pfx_items_refines {pre : Bytes} {p : Store} {a : Bytes} {b : Option Bytes} {asc : Bool} {pit : Items}
    (hbytes : ∀ k v, p.view k = some v → IsBytes k)
    (hps : PW asc pit)
    (hpm : ∀ k v, (k, v) ∈ pit ↔ (p.view k = some v ∧
      inDomain k (pre ++ a) (match b with | none => prefixEnd pre | some e => some (pre ++ e)) = true)) :
    let its := (pit.takeWhile (fun kv => hasPrefix kv.1 pre)).map (fun kv => (kv.1.drop pre.length, kv.2))
    PW asc its ∧ ∀ k v, (k, v) ∈ its ↔ ((Store.pfx pre p).view k = some v ∧ inDomain k a b = true) := by
  intro its
  have hall : ∀ x ∈ pit, hasPrefix x.1 pre = true := by
    intro x hx
    obtain ⟨h1, h2⟩ := (hpm x.1 x.2).1 hx
    exact hasPrefix_of_inDomain (hbytes _ _ h1) h2
  have htw : pit.takeWhile (fun kv => hasPrefix kv.1 pre) = pit := by
    exact takeWhile_eq_self hall
  have hits : its = pit.map (fun kv => (kv.1.drop pre.length, kv.2)) := by
    simp only [its, htw]
  rw [hits]
  constructor
  · unfold PW at hps ⊢
    rw [List.pairwise_map]
    refine List.Pairwise.imp_of_mem ?_ hps
    intro x y hx hy hxy
    rw [eq_append_of_hasPrefix (hall x hx), eq_append_of_hasPrefix (hall y hy), cmpLt_append_left] at hxy
    exact hxy
  · intro k v
    have : (k, v) ∈ pit.map (fun kv => (kv.1.drop pre.length, kv.2)) ↔ (pre ++ k, v) ∈ pit := by
      rw [List.mem_map]
      constructor
      · rintro ⟨⟨k', v'⟩, hx, heq⟩
        simp only [Prod.mk.injEq] at heq
        obtain ⟨rfl, rfl⟩ := heq
        rw [← eq_append_of_hasPrefix (hall _ hx)]; exact hx
      · intro hx
        exact ⟨(pre ++ k, v), hx, by simp⟩
    rw [this, hpm, inDomain_prefix]
    rfl

/-! ### Keys are byte strings -/

/-- Every key held anywhere in the stack, and every prefix, is a byte string (numbers `< 256`).
In the Go code this holds by typing (`[]byte`); the model's `Bytes = List Nat` needs it stated. -/
def Store.BytesOK : Store → Prop
  | .mem m => ∀ kv ∈ m, IsBytes kv.1
  | .cache c p => (∀ kc ∈ c.cache, IsBytes kc.1) ∧ p.BytesOK
  | .pfx pre p => IsBytes pre ∧ p.BytesOK
  | .gas p => p.BytesOK
  | .trace p => p.BytesOK

theorem isBytes_append {a b : Bytes} : IsBytes (a ++ b) ↔ IsBytes a ∧ IsBytes b := by
  simp only [IsBytes, List.mem_append]
  constructor
  · intro h; exact ⟨fun x hx => h x (Or.inl hx), fun x hx => h x (Or.inr hx)⟩
  · rintro ⟨h1, h2⟩ x (hx | hx)
    · exact h1 x hx
    · exact h2 x hx

theorem Store.BytesOK.view_bytes {s : Store} (hs : s.BytesOK) : ∀ {k v : Bytes}, s.view k = some v → IsBytes k := by
  induction s with
  | mem m => intro k v h; exact hs _ (kvGet_mem h)
  | cache c p ih =>
    intro k v h
    simp only [Store.view] at h
    split at h
    · rename_i cv hl; exact hs.1 _ (cacheLookup_mem hl)
    · exact ih hs.2 h
  | pfx pre p ih => intro k v h; exact (isBytes_append.1 (ih hs.2 h)).2
  | gas p ih => intro k v h; exact ih hs h
  | trace p ih => intro k v h; exact ih hs h

theorem mem_cacheStore {l : List (Bytes × CVal)} {k : Bytes} {c : CVal} {x : Bytes × CVal}
    (h : x ∈ cacheStore l k c) : x = (k, c) ∨ x ∈ l := by
  simp only [cacheStore, List.mem_cons, List.mem_filter] at h
  rcases h with h | h
  · exact Or.inl h
  · exact Or.inr h.1

theorem setCacheValue_bytes {c : CacheData} (hc : ∀ kc ∈ c.cache, IsBytes kc.1) {k : Bytes} (hk : IsBytes k)
    (v : Option Bytes) (d1 d2 : Bool) : ∀ kc ∈ (setCacheValue c k v d1 d2).cache, IsBytes kc.1 := by
  intro kc h
  rcases mem_cacheStore h with rfl | h
  · exact hk
  · exact hc kc h

theorem get_bytesOK (s : Store) : ∀ (k : Bytes) (e : Env) (v : Option Bytes) (s' : Store) (e' : Env),
    s.BytesOK → IsBytes k → s.get k e = .ok (v, s', e') → s'.BytesOK := by
  induction s with
  | mem m =>
    intro k e v s' e' hb hk h
    simp only [Store.get, Except.ok.injEq, Prod.mk.injEq] at h
    obtain ⟨_, rfl, _⟩ := h; exact hb
  | cache c p ih =>
    intro k e v s' e' hb hk h
    simp only [Store.get] at h
    split at h
    · simp only [Except.ok.injEq, Prod.mk.injEq] at h
      obtain ⟨_, rfl, _⟩ := h; exact hb
    · rw [bind_ok_iff] at h
      obtain ⟨⟨v1, p1, e1⟩, h1, h2⟩ := h
      simp only [Except.ok.injEq, Prod.mk.injEq] at h2
      obtain ⟨_, rfl, _⟩ := h2
      exact ⟨setCacheValue_bytes hb.1 hk _ _ _, ih k e v1 p1 e1 hb.2 hk h1⟩
  | pfx pre p ih =>
    intro k e v s' e' hb hk h
    simp only [Store.get] at h
    rw [bind_ok_iff] at h
    obtain ⟨⟨v1, p1, e1⟩, h1, h2⟩ := h
    simp only [Except.ok.injEq, Prod.mk.injEq] at h2
    obtain ⟨_, rfl, _⟩ := h2
    exact ⟨hb.1, ih _ e v1 p1 e1 hb.2 (isBytes_append.2 ⟨hb.1, hk⟩) h1⟩
  | gas p ih =>
    intro k e v s' e' hb hk h
    simp only [Store.get] at h
    rw [bind_ok_iff] at h
    obtain ⟨ea, _, h⟩ := h
    rw [bind_ok_iff] at h
    obtain ⟨⟨v1, p1, e1⟩, h1, h2⟩ := h
    simp only [] at h2
    rw [bind_ok_iff] at h2
    obtain ⟨eb, _, h2⟩ := h2
    simp only [Except.ok.injEq, Prod.mk.injEq] at h2
    obtain ⟨_, rfl, _⟩ := h2
    exact ih k ea v1 p1 e1 hb hk h1
  | trace p ih =>
    intro k e v s' e' hb hk h
    simp only [Store.get] at h
    rw [bind_ok_iff] at h
    obtain ⟨⟨v1, p1, e1⟩, h1, h2⟩ := h
    simp only [Except.ok.injEq, Prod.mk.injEq] at h2
    obtain ⟨_, rfl, _⟩ := h2
    exact ih k e v1 p1 e1 hb hk h1

theorem has_bytesOK (s : Store) : ∀ (k : Bytes) (e : Env) (b : Bool) (s' : Store) (e' : Env),
    s.BytesOK → IsBytes k → s.has k e = .ok (b, s', e') → s'.BytesOK := by
  induction s with
  | mem m =>
    intro k e v s' e' hb hk h
    simp only [Store.has, Except.ok.injEq, Prod.mk.injEq] at h
    obtain ⟨_, rfl, _⟩ := h; exact hb
  | cache c p ih =>
    intro k e v s' e' hb hk h
    simp only [Store.has] at h
    rw [bind_ok_iff] at h
    obtain ⟨⟨v1, p1, e1⟩, h1, h2⟩ := h
    simp only [Except.ok.injEq, Prod.mk.injEq] at h2
    obtain ⟨_, rfl, _⟩ := h2
    exact get_bytesOK _ k e v1 p1 e1 hb hk h1
  | pfx pre p ih =>
    intro k e v s' e' hb hk h
    simp only [Store.has] at h
    rw [bind_ok_iff] at h
    obtain ⟨⟨v1, p1, e1⟩, h1, h2⟩ := h
    simp only [Except.ok.injEq, Prod.mk.injEq] at h2
    obtain ⟨_, rfl, _⟩ := h2
    exact ⟨hb.1, ih _ e v1 p1 e1 hb.2 (isBytes_append.2 ⟨hb.1, hk⟩) h1⟩
  | gas p ih =>
    intro k e v s' e' hb hk h
    simp only [Store.has] at h
    rw [bind_ok_iff] at h
    obtain ⟨ea, _, h⟩ := h
    rw [bind_ok_iff] at h
    obtain ⟨⟨v1, p1, e1⟩, h1, h2⟩ := h
    simp only [Except.ok.injEq, Prod.mk.injEq] at h2
    obtain ⟨_, rfl, _⟩ := h2
    exact ih k ea v1 p1 e1 hb hk h1
  | trace p ih =>
    intro k e v s' e' hb hk h
    simp only [Store.has] at h
    rw [bind_ok_iff] at h
    obtain ⟨⟨v1, p1, e1⟩, h1, h2⟩ := h
    simp only [Except.ok.injEq, Prod.mk.injEq] at h2
    obtain ⟨_, rfl, _⟩ := h2
    exact ih k e v1 p1 e1 hb hk h1

theorem set_bytesOK (s : Store) : ∀ (k v : Bytes) (e : Env) (s' : Store) (e' : Env),
    s.BytesOK → IsBytes k → s.set k v e = .ok (s', e') → s'.BytesOK := by
  induction s with
  | mem m =>
    intro k v e s' e' hb hk h
    simp only [Store.set, Except.ok.injEq, Prod.mk.injEq] at h
    obtain ⟨rfl, _⟩ := h
    intro kv hkv
    rcases mem_kvSet hkv with rfl | hkv
    · exact hk
    · exact hb kv hkv
  | cache c p ih =>
    intro k v e s' e' hb hk h
    simp only [Store.set, Except.ok.injEq, Prod.mk.injEq] at h
    obtain ⟨rfl, _⟩ := h
    exact ⟨setCacheValue_bytes hb.1 hk _ _ _, hb.2⟩
  | pfx pre p ih =>
    intro k v e s' e' hb hk h
    simp only [Store.set] at h
    rw [bind_ok_iff] at h
    obtain ⟨⟨p1, e1⟩, h1, h2⟩ := h
    simp only [Except.ok.injEq, Prod.mk.injEq] at h2
    obtain ⟨rfl, _⟩ := h2
    exact ⟨hb.1, ih _ v e p1 e1 hb.2 (isBytes_append.2 ⟨hb.1, hk⟩) h1⟩
  | gas p ih =>
    intro k v e s' e' hb hk h
    simp only [Store.set] at h
    rw [bind_ok_iff] at h
    obtain ⟨ea, _, h⟩ := h
    rw [bind_ok_iff] at h
    obtain ⟨eb, _, h⟩ := h
    rw [bind_ok_iff] at h
    obtain ⟨⟨p1, e1⟩, h1, h2⟩ := h
    simp only [Except.ok.injEq, Prod.mk.injEq] at h2
    obtain ⟨rfl, _⟩ := h2
    exact ih k v eb p1 e1 hb hk h1
  | trace p ih =>
    intro k v e s' e' hb hk h
    simp only [Store.set] at h
    rw [bind_ok_iff] at h
    obtain ⟨⟨p1, e1⟩, h1, h2⟩ := h
    simp only [Except.ok.injEq, Prod.mk.injEq] at h2
    obtain ⟨rfl, _⟩ := h2
    exact ih k v _ p1 e1 hb hk h1

theorem delete_bytesOK (s : Store) : ∀ (k : Bytes) (e : Env) (s' : Store) (e' : Env),
    s.BytesOK → IsBytes k → s.delete k e = .ok (s', e') → s'.BytesOK := by
  induction s with
  | mem m =>
    intro k e s' e' hb hk h
    simp only [Store.delete, Except.ok.injEq, Prod.mk.injEq] at h
    obtain ⟨rfl, _⟩ := h
    intro kv hkv
    exact hb kv (mem_kvDel hkv)
  | cache c p ih =>
    intro k e s' e' hb hk h
    simp only [Store.delete, Except.ok.injEq, Prod.mk.injEq] at h
    obtain ⟨rfl, _⟩ := h
    exact ⟨setCacheValue_bytes hb.1 hk _ _ _, hb.2⟩
  | pfx pre p ih =>
    intro k e s' e' hb hk h
    simp only [Store.delete] at h
    rw [bind_ok_iff] at h
    obtain ⟨⟨p1, e1⟩, h1, h2⟩ := h
    simp only [Except.ok.injEq, Prod.mk.injEq] at h2
    obtain ⟨rfl, _⟩ := h2
    exact ⟨hb.1, ih _ e p1 e1 hb.2 (isBytes_append.2 ⟨hb.1, hk⟩) h1⟩
  | gas p ih =>
    intro k e s' e' hb hk h
    simp only [Store.delete] at h
    rw [bind_ok_iff] at h
    obtain ⟨ea, _, h⟩ := h
    rw [bind_ok_iff] at h
    obtain ⟨⟨p1, e1⟩, h1, h2⟩ := h
    simp only [Except.ok.injEq, Prod.mk.injEq] at h2
    obtain ⟨rfl, _⟩ := h2
    exact ih k ea p1 e1 hb hk h1
  | trace p ih =>
    intro k e s' e' hb hk h
    simp only [Store.delete] at h
    rw [bind_ok_iff] at h
    obtain ⟨⟨p1, e1⟩, h1, h2⟩ := h
    simp only [Except.ok.injEq, Prod.mk.injEq] at h2
    obtain ⟨rfl, _⟩ := h2
    exact ih k _ p1 e1 hb hk h1

theorem applyDirty_bytesOK (l : List (Bytes × CVal)) : ∀ (p : Store) (e : Env) (p' : Store) (e' : Env),
    p.BytesOK → (∀ kc ∈ l, IsBytes kc.1) → applyDirty l p e = .ok (p', e') → p'.BytesOK := by
  induction l with
  | nil =>
    intro p e p' e' hb _ h
    simp only [applyDirty, Except.ok.injEq, Prod.mk.injEq] at h
    obtain ⟨rfl, _⟩ := h; exact hb
  | cons a t ih =>
    obtain ⟨k, cv⟩ := a
    intro p e p' e' hb hl h
    have hk : IsBytes k := hl (k, cv) List.mem_cons_self
    have hl' : ∀ kc ∈ t, IsBytes kc.1 := fun kc h => hl kc (List.mem_cons_of_mem _ h)
    simp only [applyDirty] at h
    split at h
    · rw [bind_ok_iff] at h
      obtain ⟨⟨p1, e1⟩, h1, h2⟩ := h
      exact ih p1 e1 p' e' (delete_bytesOK p k e p1 e1 hb hk h1) hl' h2
    · split at h
      · exact ih p e p' e' hb hl' h
      · rename_i v _
        rw [bind_ok_iff] at h
        obtain ⟨⟨p1, e1⟩, h1, h2⟩ := h
        exact ih p1 e1 p' e' (set_bytesOK p k v e p1 e1 hb hk h1) hl' h2

theorem write_bytesOK (s : Store) (e : Env) (s' : Store) (e' : Env)
    (hb : s.BytesOK) (h : s.write e = .ok (s', e')) : s'.BytesOK := by
  cases s with
  | cache c p =>
    simp only [Store.write] at h
    rw [bind_ok_iff] at h
    obtain ⟨⟨p1, e1⟩, h1, h2⟩ := h
    simp only [Except.ok.injEq, Prod.mk.injEq] at h2
    obtain ⟨rfl, _⟩ := h2
    refine ⟨by simp [CacheData.empty], applyDirty_bytesOK _ p e p1 e1 hb.2 ?_ h1⟩
    intro kc hkc
    exact hb.1 kc (List.mem_filter.1 ((mem_sortByKey _ _).1 hkc)).1
  | mem m => simp [Store.write] at h
  | pfx pre p => simp [Store.write] at h
  | gas p => simp [Store.write] at h
  | trace p => simp [Store.write] at h

theorem items_bytesOK (s : Store) : ∀ (a : Bytes) (b : Option Bytes) (asc : Bool) (its : Items) (s' : Store),
    s.BytesOK → s.items a b asc = some (its, s') → s'.BytesOK := by
  induction s with
  | mem m =>
    intro a b asc its s' hb h
    simp only [Store.items, Option.some.injEq, Prod.mk.injEq] at h
    obtain ⟨_, rfl⟩ := h; exact hb
  | cache c p ih =>
    intro a b asc its s' hb h
    simp only [Store.items] at h
    split at h
    · cases h
    · rename_i pit p' hp
      simp only [Option.some.injEq, Prod.mk.injEq] at h
      obtain ⟨_, rfl⟩ := h
      exact ⟨hb.1, ih _ _ _ _ _ hb.2 hp⟩
  | pfx pre p ih =>
    intro a b asc its s' hb h
    simp only [Store.items] at h
    split at h
    · cases h
    · rename_i pit p' hp
      simp only [Option.some.injEq, Prod.mk.injEq] at h
      obtain ⟨_, rfl⟩ := h
      exact ⟨hb.1, ih _ _ _ _ _ hb.2 hp⟩
  | gas p ih => intro a b asc its s' hb h; simp [Store.items] at h
  | trace p ih => intro a b asc its s' hb h; simp [Store.items] at h

/-! ### `Store.items` refines the overlay view -/

theorem iter_refines' (s : Store) : ∀ (a : Bytes) (b : Option Bytes) (asc : Bool) (its : Items) (s' : Store),
    s.WF → s.Lower → s.BytesOK → s.items a b asc = some (its, s') →
    PW asc its ∧
    (∀ k v, (k, v) ∈ its ↔ (s.view k = some v ∧ inDomain k a b = true)) ∧
    s'.WF ∧ (∀ q, s'.view q = s.view q) := by
  induction s with
  | mem m =>
    intro a b asc its s' hwf _ _ h
    simp only [Store.items, Option.some.injEq, Prod.mk.injEq] at h
    obtain ⟨rfl, rfl⟩ := h
    have hm : PW true m := (sortedAsc_iff_PW _).1 hwf
    have hk : kvRange m a b asc = if asc then m.filter (fun kv => inDomain kv.1 a b)
        else (m.filter (fun kv => inDomain kv.1 a b)).reverse := rfl
    refine ⟨?_, ?_, hwf, fun _ => rfl⟩
    · rw [hk]; exact PW_dir_of_filter hm _ asc
    · intro k v
      rw [hk, mem_dir_filter]
      simp only [Store.view, kvGet_eq_some_iff hm]
  | cache c p ih =>
    intro a b asc its s' hwf hl hb h
    obtain ⟨hc, hp, hclean⟩ := hwf
    simp only [Store.items] at h
    split at h
    · cases h
    · rename_i pit p' hpi
      simp only [Option.some.injEq, Prod.mk.injEq] at h
      obtain ⟨rfl, rfl⟩ := h
      obtain ⟨hps, hpm, hp', hpv⟩ := ih a b asc pit p' hp hl hb.2 hpi
      obtain ⟨h1, h2⟩ := cache_items_refines (a := a) (b := b) hc hclean hps hpm
      refine ⟨h1, h2, ⟨dirtyItems_inv hc a b, hp', ?_⟩, ?_⟩
      · intro k cv h3 h4
        rw [hpv]; exact hclean k cv h3 h4
      · intro q
        simp only [Store.view, dirtyItems_cache, hpv]
  | pfx pre p ih =>
    intro a b asc its s' hwf hl hb h
    simp only [Store.items] at h
    split at h
    · cases h
    · rename_i pit p' hpi
      simp only [Option.some.injEq, Prod.mk.injEq] at h
      obtain ⟨rfl, rfl⟩ := h
      obtain ⟨hps, hpm, hp', hpv⟩ := ih _ _ asc pit p' hwf hl hb.2 hpi
      obtain ⟨h1, h2⟩ := pfx_items_refines (a := a) (b := b) (fun k v h => hb.2.view_bytes h) hps hpm
      exact ⟨h1, h2, hp', fun q => hpv _⟩
  | gas p ih => intro a b asc its s' _ hl; cases hl
  | trace p ih => intro a b asc its s' _ hl; cases hl

/-! ### Executable well-formedness checks (for concrete non-vacuity examples) -/

def sortedAscB {α : Type} : List (Bytes × α) → Bool
  | [] => true
  | [_] => true
  | a :: b :: rest => blt a.1 b.1 && sortedAscB (b :: rest)

theorem sortedAscB_sound {α : Type} (l : List (Bytes × α)) (h : sortedAscB l = true) : SortedAsc l := by
  induction l with
  | nil => trivial
  | cons a t ih =>
    cases t with
    | nil => trivial
    | cons b rest =>
      simp only [sortedAscB, Bool.and_eq_true] at h
      exact ⟨h.1, ih h.2⟩

def dirtyAt (c : CacheData) (k : Bytes) : Bool :=
  match cacheLookup c.cache k with | some cv => cv.dirty | none => false

theorem dirtyAt_iff {c : CacheData} {k : Bytes} :
    dirtyAt c k = true ↔ ∃ cv, cacheLookup c.cache k = some cv ∧ cv.dirty = true := by
  unfold dirtyAt
  cases cacheLookup c.cache k <;> simp

/-- a decidable (Boolean) version of `CacheInv` -/
def CacheData.check (c : CacheData) : Bool :=
  decide (c.cache.map (·.1)).Nodup &&
  decide c.unsorted.Nodup &&
  c.unsorted.all (dirtyAt c) &&
  c.cache.all (fun kc => !kc.2.dirty || c.unsorted.contains kc.1 || (c.sorted.map (·.1)).contains kc.1) &&
  c.sorted.all (fun ko => c.unsorted.contains ko.1 ||
    (match cacheLookup c.cache ko.1 with | some cv => cv.dirty && cv.value == ko.2 | none => false)) &&
  c.sorted.all (fun ko => dirtyAt c ko.1) &&
  sortedAscB c.sorted &&
  c.cache.all (fun kc => !kc.2.dirty || (kc.2.deleted == kc.2.value.isNone))

theorem CacheData.check_sound {c : CacheData} (h : c.check = true) : CacheInv c := by
  simp only [CacheData.check, Bool.and_eq_true, decide_eq_true_eq, List.all_eq_true] at h
  obtain ⟨⟨⟨⟨⟨⟨⟨h1, h2⟩, h3⟩, h4⟩, h5⟩, h6⟩, h7⟩, h8⟩ := h
  refine ⟨h1, h2, ?_, ?_, ?_, ?_, sortedAscB_sound _ h7, ?_⟩
  · intro k hk; exact dirtyAt_iff.1 (h3 k hk)
  · intro k cv hl hd
    have := h4 (k, cv) (cacheLookup_mem hl)
    simp only [hd, Bool.not_true, Bool.false_or, Bool.or_eq_true, List.contains_iff_mem, List.mem_map] at this
    rcases this with h | ⟨⟨k', ov⟩, hx, rfl⟩
    · exact Or.inl h
    · exact Or.inr ⟨ov, hx⟩
  · intro k ov hm hnu
    have := h5 (k, ov) hm
    simp only [Bool.or_eq_true, List.contains_iff_mem] at this
    rcases this with h | h
    · exact absurd h hnu
    · split at h
      · rename_i cv hl
        simp only [Bool.and_eq_true, beq_iff_eq] at h
        exact ⟨cv, hl, h.1, h.2⟩
      · cases h
  · intro k ov hm; exact dirtyAt_iff.1 (h6 (k, ov) hm)
  · intro k cv hl hd
    have := h8 (k, cv) (cacheLookup_mem hl)
    simp only [hd, Bool.not_true, Bool.false_or, beq_iff_eq] at this
    rw [this]; simp

/-- a decidable (Boolean) version of `Store.WF` -/
def Store.wfCheck : Store → Bool
  | .mem m => sortedAscB m
  | .cache c p => c.check && p.wfCheck && c.cache.all (fun kc => kc.2.dirty || kc.2.value == p.view kc.1)
  | .pfx _ p => p.wfCheck
  | .gas p => p.wfCheck
  | .trace p => p.wfCheck

theorem Store.wfCheck_sound (s : Store) (h : s.wfCheck = true) : s.WF := by
  induction s with
  | mem m => exact sortedAscB_sound _ h
  | cache c p ih =>
    simp only [Store.wfCheck, Bool.and_eq_true, List.all_eq_true] at h
    refine ⟨CacheData.check_sound h.1.1, ih h.1.2, ?_⟩
    intro k cv hl hd
    have := h.2 (k, cv) (cacheLookup_mem hl)
    simpa [hd] using this
  | pfx pre p ih => exact ih h
  | gas p ih => exact ih h
  | trace p ih => exact ih h

end Posmint.KV
