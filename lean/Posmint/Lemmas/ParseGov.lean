import Posmint.Model.Chain
/-! Helper lemmas for the decoders of the governance values (`parseAcl`, `parseUpgrade`; C17). -/
namespace Posmint.Chain.ParseGov
open Posmint.Chain

/-! ### `stripPrefix`, `untilQuote` -/

theorem stripPrefix_append (p rest : List Char) : stripPrefix p (p ++ rest) = some rest := by
  induction p with
  | nil => simp [stripPrefix]
  | cons a p ih => simp [stripPrefix, ih]

theorem untilQuote_append (cs rest : List Char) (h : '"' ∉ cs) :
    untilQuote (cs ++ '"' :: rest) = some (cs, rest) := by
  have hall : ∀ x ∈ cs, (x != '"') = true := by
    intro x hx
    simp only [bne_iff_ne, ne_eq]
    intro hxe; exact h (hxe ▸ hx)
  have hd : (cs ++ '"' :: rest).dropWhile (· != '"') = '"' :: rest := by
    rw [List.dropWhile_append_of_pos hall]; simp
  have ht : (cs ++ '"' :: rest).takeWhile (· != '"') = cs := by
    rw [List.takeWhile_append_of_pos hall]; simp
  unfold untilQuote
  rw [hd, ht]

/-! ### owners and digits hold no double quote -/

theorem quote_not_mem_of_aclOwnerOK (o : List Char) (h : aclOwnerOK o = true) : '"' ∉ o := by
  intro hm
  unfold aclOwnerOK at h
  simp only [Bool.or_eq_true, Bool.and_eq_true, List.all_eq_true] at h
  rcases h with h | ⟨_, h⟩
  · cases o with
    | nil => cases hm
    | cons a o => simp at h
  · have := h _ hm
    revert this; decide

theorem quote_not_mem_toDigits (n : Nat) : '"' ∉ Nat.toDigits 10 n := by
  intro h
  have := Nat.isDigit_of_mem_toDigits (by decide) (by decide) h
  revert this; decide

/-! ### the decimal digits of a natural number are read back to it -/

theorem foldl_int_eq_ofDigitChars (cs : List Char) (init : Nat) :
    cs.foldl (fun (acc : Int) c => acc * 10 + ((c.toNat - '0'.toNat : Nat) : Int)) (init : Int)
      = ((Nat.ofDigitChars 10 cs init : Nat) : Int) := by
  induction cs generalizing init with
  | nil => simp [Nat.ofDigitChars]
  | cons c cs ih =>
    rw [List.foldl_cons, Nat.ofDigitChars_cons, ← ih]
    congr 1
    rw [Int.natCast_add, Int.natCast_mul, Int.mul_comm]
    rfl

theorem digitsToInt_toDigits (n : Nat) : digitsToInt (Nat.toDigits 10 n) = some (n : Int) := by
  unfold digitsToInt
  have hne : (Nat.toDigits 10 n).isEmpty = false := by
    cases h : Nat.toDigits 10 n with
    | nil => exact absurd h Nat.toDigits_ne_nil
    | cons a l => rfl
  have hall : (Nat.toDigits 10 n).all Char.isDigit = true := by
    rw [List.all_eq_true]
    intro c hc
    exact Nat.isDigit_of_mem_toDigits (by decide) (by decide) hc
  rw [hne, hall]
  simp only [Bool.not_true, Bool.or_self, Bool.false_eq_true, ↓reduceIte]
  have := foldl_int_eq_ofDigitChars (Nat.toDigits 10 n) 0
  rw [Nat.ofDigitChars_ten_toDigits] at this
  exact congrArg some this

/-! ### one entry of the access-control list -/

theorem address_literal : "\",\"address\":\"".toList = '"' :: ",\"address\":\"".toList := by decide

theorem close_literal : "\"}".toList = ['"', '}'] := by decide

/-- the last entry, followed by the closing `]}` -/
theorem parseAclEntries_last (fuel : Nat) (k o : List Char) (hk : '"' ∉ k) (ho : aclOwnerOK o = true) :
    parseAclEntries (fuel + 1)
      ("{\"acl_key\":\"".toList ++ (k ++ '"' :: (",\"address\":\"".toList ++ (o ++ '"' :: ['}', ']', '}']))))
      = some [(String.ofList k, String.ofList o)] := by
  rw [parseAclEntries, stripPrefix_append, Option.bind_some, untilQuote_append _ _ hk, Option.bind_some]
  simp only
  rw [stripPrefix_append, Option.bind_some, untilQuote_append _ _ (quote_not_mem_of_aclOwnerOK o ho),
    Option.bind_some]
  simp only [ho, Bool.not_true, Bool.false_eq_true, ↓reduceIte]

/-- an entry followed by a comma and more -/
theorem parseAclEntries_more (fuel : Nat) (k o r5 : List Char) (hk : '"' ∉ k) (ho : aclOwnerOK o = true) :
    parseAclEntries (fuel + 1)
      ("{\"acl_key\":\"".toList ++ (k ++ '"' :: (",\"address\":\"".toList ++ (o ++ '"' :: '}' :: ',' :: r5))))
      = (parseAclEntries fuel r5).map ((String.ofList k, String.ofList o) :: ·) := by
  rw [parseAclEntries, stripPrefix_append, Option.bind_some, untilQuote_append _ _ hk, Option.bind_some]
  simp only
  rw [stripPrefix_append, Option.bind_some, untilQuote_append _ _ (quote_not_mem_of_aclOwnerOK o ho),
    Option.bind_some]
  simp only [ho, Bool.not_true, Bool.false_eq_true, ↓reduceIte]

end Posmint.Chain.ParseGov
