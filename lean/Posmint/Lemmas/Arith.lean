import Posmint.Model.Arith
namespace Posmint.Arith

theorem bitLen_le_iff (n k : Nat) : bitLen n ≤ k ↔ n < 2 ^ k := by
  unfold bitLen
  split
  · subst_vars; simp; exact Nat.two_pow_pos k
  · rename_i h
    rw [← Nat.log2_lt h]; omega

theorem bitLen_gt_iff (n k : Nat) : bitLen n > k ↔ 2 ^ k ≤ n := by
  have := bitLen_le_iff n k; omega

theorem P_eq : P = 1000000000000000000 := by decide
theorem half_eq : half = 500000000000000000 := by decide

end Posmint.Arith
