import Posmint.Lemmas.Arith
/-!
Helper facts for the `Dec.Quo*` family: truncated division by sign cases, floor-division
bounds, and the nonlinear cores (products with the divisor `b`) of the three rounding modes.
The literal `K` is `10^18` (`P_eq`).
-/
namespace Posmint.Arith

local notation "K" => (1000000000000000000 : Int)

/-- floor division: `q*b ≤ x < q*b + b` -/
theorem ediv_bounds (x b : Int) (hb : 0 < b) : (x / b) * b ≤ x ∧ x < (x / b) * b + b := by
  have h1 := Int.mul_ediv_add_emod x b
  have h2 := Int.emod_nonneg x (Int.ne_of_gt hb)
  have h3 := Int.emod_lt_of_pos x hb
  rw [Int.mul_comm] at h1
  omega

/-- truncated division of a non-positive numerator by a positive divisor -/
theorem tdiv_of_nonpos (x b : Int) (hx : x ≤ 0) : Int.tdiv x b = -((-x) / b) := by
  rw [← Int.tdiv_eq_ediv_of_nonneg (by omega), Int.neg_tdiv, Int.neg_neg]

/-- truncation composes: chopping `K` off a truncated quotient of `x*K` is the truncated quotient of `x` -/
theorem tdiv_mul_tdiv (x b : Int) (hb : b ≠ 0) : Int.tdiv (Int.tdiv (x * K) b) K = Int.tdiv x b := by
  have key : ∀ x b : Int, 0 ≤ x → 0 < b → Int.tdiv (Int.tdiv (x * K) b) K = Int.tdiv x b := by
    intro x b hx hb
    have hxk : 0 ≤ x * K := Int.mul_nonneg hx (by decide)
    rw [Int.tdiv_eq_ediv_of_nonneg hxk, Int.tdiv_eq_ediv_of_nonneg hx,
      Int.tdiv_eq_ediv_of_nonneg (Int.ediv_nonneg hxk (Int.le_of_lt hb)),
      Int.ediv_ediv_of_nonneg (Int.le_of_lt hb)]
    exact Int.mul_ediv_mul_of_pos_left x b (by decide)
  rcases Int.le_total 0 x with hx | hx <;> rcases Int.lt_or_gt_of_ne hb with hb' | hb'
  · have := key x (-b) hx (by omega)
    rw [Int.tdiv_neg, Int.neg_tdiv, Int.tdiv_neg] at this; omega
  · exact key x b hx hb'
  · have := key (-x) (-b) (by omega) (by omega)
    simp only [Int.neg_mul, Int.tdiv_neg, Int.neg_tdiv, Int.neg_neg] at this
    exact this
  · have := key (-x) b (by omega) hb'
    rw [Int.neg_mul, Int.neg_tdiv, Int.neg_tdiv, Int.neg_tdiv] at this; omega

/-! ### `Quo`: a non-tie half-even rounding of the 36-decimal truncation is strictly nearest -/

theorem quo_core_nonneg (a b c : Int) (_ha : 0 ≤ a) (hb : 0 < b)
    (h : 2 * (a * K * K / b - c * K).natAbs + 2 ≤ 1000000000000000000) :
    2 * (a * K - c * b).natAbs < b.natAbs := by
  have ⟨h1, h2⟩ := ediv_bounds (a * K * K) b hb
  generalize a * K * K / b = q at *
  have e1 : (q - c * K) * b ≤ 499999999999999999 * b :=
    Int.mul_le_mul_of_nonneg_right (by omega) (Int.le_of_lt hb)
  have e2 : (-499999999999999999) * b ≤ (q - c * K) * b :=
    Int.mul_le_mul_of_nonneg_right (by omega) (Int.le_of_lt hb)
  rw [Int.sub_mul, Int.mul_right_comm c K b] at e1 e2
  generalize a * K = s at *
  generalize c * b = w at *
  generalize q * b = qb at *
  omega

theorem quo_core_pos (a b c : Int) (hb : 0 < b)
    (h : 2 * (Int.tdiv (a * K * K) b - c * K).natAbs + 2 ≤ 1000000000000000000) :
    2 * (a * K - c * b).natAbs < b.natAbs := by
  rcases Int.le_total 0 a with ha | ha
  · rw [Int.tdiv_eq_ediv_of_nonneg (Int.mul_nonneg (Int.mul_nonneg ha (by decide)) (by decide))] at h
    exact quo_core_nonneg a b c ha hb h
  · have hN : a * K * K ≤ 0 := by omega
    rw [tdiv_of_nonpos _ _ hN] at h
    have := quo_core_nonneg (-a) b (-c) (by omega) hb
    rw [Int.neg_mul, Int.neg_mul, Int.neg_mul, Int.neg_mul] at this
    have := this (by omega)
    omega

theorem quo_core (a b c : Int) (hb : b ≠ 0)
    (h : 2 * (Int.tdiv (a * K * K) b - c * K).natAbs + 2 ≤ 1000000000000000000) :
    2 * (a * K - c * b).natAbs < b.natAbs := by
  rcases Int.lt_or_gt_of_ne hb with hb' | hb'
  · have := quo_core_pos a (-b) (-c) (by omega)
    rw [Int.tdiv_neg, Int.neg_mul, Int.neg_mul_neg] at this
    have := this (by omega)
    omega
  · exact quo_core_pos a b c hb' h

/-! ### `QuoRoundUp` with a positive divisor -/

theorem quoRoundUp_core_nonneg (a b c : Int) (_ha : 0 ≤ a) (hb : 0 < b)
    (hc1 : a * K * K / b ≤ c * K) (hc2 : c * K < a * K * K / b + K)
    (hok : a * K * K = (a * K * K / b) * b ∨ (a * K * K / b) % K ≠ 0) :
    a * K ≤ c * b ∧ (c - 1) * b < a * K := by
  have ⟨h1, h2⟩ := ediv_bounds (a * K * K) b hb
  generalize a * K * K / b = q at *
  have hb0 := Int.le_of_lt hb
  have e1 : q * b ≤ c * K * b := Int.mul_le_mul_of_nonneg_right hc1 hb0
  have e3 : (c * K - K + 1) * b ≤ q * b := Int.mul_le_mul_of_nonneg_right (by omega) hb0
  have e2 : q % K ≠ 0 → (q + 1) * b ≤ c * K * b := fun hne =>
    Int.mul_le_mul_of_nonneg_right (by omega) hb0
  rw [Int.add_mul, Int.one_mul] at e2
  rw [Int.add_mul, Int.sub_mul, Int.one_mul] at e3
  rw [Int.sub_mul, Int.one_mul]
  rw [Int.mul_right_comm c K b] at e1 e2 e3
  generalize a * K = s at *
  generalize c * b = w at *
  generalize q * b = qb at *
  rcases hok with hok | hok
  · omega
  · have := e2 hok; omega

theorem quoRoundUp_core_neg (a b c : Int) (_ha : a ≤ 0) (hb : 0 < b)
    (hc1 : -((-a) * K * K / b) ≤ c * K) (hc2 : c * K < -((-a) * K * K / b) + K) :
    a * K ≤ c * b ∧ (c - 1) * b < a * K := by
  have ⟨h1, h2⟩ := ediv_bounds ((-a) * K * K) b hb
  generalize (-a) * K * K / b = m at *
  have hb0 := Int.le_of_lt hb
  have e1 : (-m) * b ≤ c * K * b := Int.mul_le_mul_of_nonneg_right hc1 hb0
  have e3 : (c * K - K + 1) * b ≤ (-m) * b := Int.mul_le_mul_of_nonneg_right (by omega) hb0
  rw [Int.add_mul, Int.sub_mul, Int.one_mul] at e3
  rw [Int.sub_mul, Int.one_mul]
  rw [Int.mul_right_comm c K b, Int.neg_mul] at e1 e3
  rw [Int.neg_mul, Int.neg_mul] at h1 h2
  generalize a * K = s at *
  generalize c * b = w at *
  generalize m * b = mb at *
  omega

theorem quoRoundUp_core (a b c : Int) (hb : 0 < b)
    (hc1 : Int.tdiv (a * K * K) b ≤ c * K) (hc2 : c * K < Int.tdiv (a * K * K) b + K)
    (hok : Int.tmod (a * K * K) b = 0 ∨ a < 0 ∨ (Int.tdiv (a * K * K) b) % K ≠ 0) :
    a * K ≤ c * b ∧ (c - 1) * b < a * K := by
  by_cases ha : a < 0
  · have hN : a * K * K ≤ 0 := by omega
    rw [tdiv_of_nonpos _ _ hN, ← Int.neg_mul, ← Int.neg_mul] at hc1 hc2
    exact quoRoundUp_core_neg a b c (by omega) hb hc1 hc2
  · have ha' : 0 ≤ a := by omega
    have hd := Int.mul_tdiv_add_tmod (a * K * K) b
    rw [Int.tdiv_eq_ediv_of_nonneg (Int.mul_nonneg (Int.mul_nonneg ha' (by decide)) (by decide))]
      at hc1 hc2 hok hd
    refine quoRoundUp_core_nonneg a b c ha' hb hc1 hc2 ?_
    rcases hok with hok | hok | hok
    · left; rw [hok, Int.mul_comm] at hd; omega
    · omega
    · right; exact hok

end Posmint.Arith
