import Posmint.Model.Coins
import Posmint.Lemmas.Arith
/-!
Helper lemmas about the `Coins` model.  `amtL`, `SortedL` are the lookup and the sortedness predicate
the property file (`Props/C18Coins.lean`) calls `amt` and `Sorted` (definitionally the same).
-/
namespace Posmint.Coins
open Posmint.Arith

/-! ### string order -/

theorem slt_trichot (a b : String) : a < b ∨ a = b ∨ b < a := by
  by_cases h1 : a < b
  · exact Or.inl h1
  · by_cases h2 : b < a
    · exact Or.inr (Or.inr h2)
    · exact Or.inr (Or.inl (String.le_antisymm (String.not_lt.1 h2) (String.not_lt.1 h1)))

theorem slt_ne {a b : String} (h : a < b) : a ≠ b := String.ne_of_lt h
theorem slt_ne' {a b : String} (h : a < b) : b ≠ a := fun e => String.ne_of_lt h e.symm

/-! ### lookup and sortedness -/

def amtL (cs : Coins) (d : String) : Int := ((cs.find? (fun c => c.1 == d)).map (·.2)).getD 0
def SortedL (cs : Coins) : Prop := (cs.map (·.1)).Pairwise (· < ·)

@[simp] theorem amtL_nil (d : String) : amtL [] d = 0 := rfl

theorem amtL_cons (c : Coin) (cs : Coins) (d : String) :
    amtL (c :: cs) d = if c.1 = d then c.2 else amtL cs d := by
  unfold amtL
  by_cases h : c.1 = d <;> simp [h]

@[simp] theorem sortedL_nil : SortedL [] := by simp [SortedL]

theorem sortedL_cons (c : Coin) (cs : Coins) :
    SortedL (c :: cs) ↔ (∀ x ∈ cs, c.1 < x.1) ∧ SortedL cs := by
  simp [SortedL, List.pairwise_cons]

theorem amtL_eq_zero {cs : Coins} {d : String} (h : ∀ x ∈ cs, x.1 ≠ d) : amtL cs d = 0 := by
  induction cs with
  | nil => rfl
  | cons c cs ih =>
    rw [amtL_cons, if_neg (h c (by simp))]
    exact ih fun x hx => h x (by simp [hx])

theorem amtL_eq_zero_of_lt {cs : Coins} {d : String} (h : ∀ x ∈ cs, d < x.1) : amtL cs d = 0 :=
  amtL_eq_zero fun x hx => slt_ne' (h x hx)

theorem amtL_of_mem {cs : Coins} (hs : SortedL cs) {x : Coin} (hx : x ∈ cs) : amtL cs x.1 = x.2 := by
  induction cs with
  | nil => cases hx
  | cons c cs ih =>
    rw [sortedL_cons] at hs
    rw [amtL_cons]
    rcases List.mem_cons.1 hx with rfl | hx
    · simp
    · rw [if_neg (slt_ne (hs.1 x hx))]; exact ih hs.2 hx

theorem exists_of_amtL_ne_zero {cs : Coins} {d : String} (h : amtL cs d ≠ 0) :
    ∃ x ∈ cs, x.1 = d ∧ x.2 = amtL cs d := by
  induction cs with
  | nil => simp at h
  | cons c cs ih =>
    rw [amtL_cons] at h ⊢
    by_cases hc : c.1 = d
    · exact ⟨c, by simp, hc, by simp [hc]⟩
    · rw [if_neg hc] at h ⊢
      obtain ⟨x, hx, h1, h2⟩ := ih h
      exact ⟨x, by simp [hx], h1, h2⟩

theorem amtL_append_left {l1 l2 : Coins} {d : String} (h : ∀ x ∈ l2, x.1 ≠ d) :
    amtL (l1 ++ l2) d = amtL l1 d := by
  induction l1 with
  | nil => simpa using amtL_eq_zero h
  | cons c cs ih => simp only [List.cons_append, amtL_cons, ih]

theorem amtL_append_right {l1 l2 : Coins} {d : String} (h : ∀ x ∈ l1, x.1 ≠ d) :
    amtL (l1 ++ l2) d = amtL l2 d := by
  induction l1 with
  | nil => rfl
  | cons c cs ih =>
    simp only [List.cons_append, amtL_cons]
    rw [if_neg (h c (by simp))]
    exact ih fun x hx => h x (by simp [hx])

theorem sortedL_append {l1 l2 : Coins} :
    SortedL (l1 ++ l2) ↔ SortedL l1 ∧ SortedL l2 ∧ ∀ x ∈ l1, ∀ y ∈ l2, x.1 < y.1 := by
  simp [SortedL, List.pairwise_append]

theorem sortedL_sublist {l1 l2 : Coins} (h : l1.Sublist l2) (hs : SortedL l2) : SortedL l1 :=
  List.Pairwise.sublist (h.map _) hs

theorem amtL_nonneg {cs : Coins} (h : ∀ c ∈ cs, 0 < c.2) (d : String) : 0 ≤ amtL cs d := by
  by_cases h0 : amtL cs d = 0
  · omega
  · obtain ⟨x, hx, _, h2⟩ := exists_of_amtL_ne_zero h0
    have := h x hx; omega

/-- for a sorted set with non-zero amounts: the amount is non-zero exactly on the denominations it holds -/
theorem amtL_ne_zero_iff {cs : Coins} (hs : SortedL cs) (hz : ∀ c ∈ cs, c.2 ≠ 0) (d : String) :
    amtL cs d ≠ 0 ↔ ∃ x ∈ cs, x.1 = d := by
  constructor
  · intro h; obtain ⟨x, hx, h1, _⟩ := exists_of_amtL_ne_zero h; exact ⟨x, hx, h1⟩
  · rintro ⟨x, hx, rfl⟩; rw [amtL_of_mem hs hx]; exact hz x hx

/-! ### removeZero -/

theorem removeZero_sublist (cs : Coins) : (removeZero cs).Sublist cs := List.filter_sublist

theorem sortedL_removeZero {cs : Coins} (h : SortedL cs) : SortedL (removeZero cs) :=
  sortedL_sublist (removeZero_sublist cs) h

theorem removeZero_nonzero (cs : Coins) : ∀ x ∈ removeZero cs, x.2 ≠ 0 := by
  intro x hx; simpa [removeZero] using (List.mem_filter.1 hx).2

theorem amtL_removeZero {cs : Coins} (h : SortedL cs) (d : String) : amtL (removeZero cs) d = amtL cs d := by
  induction cs with
  | nil => rfl
  | cons c cs ih =>
    rw [sortedL_cons] at h
    have ih := ih h.2
    unfold removeZero at ih ⊢
    by_cases hc : c.2 = 0
    · rw [List.filter_cons_of_neg (by simp [hc]), ih, amtL_cons]
      split
      · next e => subst e; rw [hc]; exact amtL_eq_zero_of_lt h.1
      · rfl
    · rw [List.filter_cons_of_pos (by simp [hc]), amtL_cons, amtL_cons, ih]

theorem removeZero_eq_self {cs : Coins} (h : ∀ c ∈ cs, c.2 ≠ 0) : removeZero cs = cs := by
  unfold removeZero; rw [List.filter_eq_self]; intro c hc; simpa using h c hc

/-! ### safeAdd -/

theorem denoms_of_amtL_add {a b c : Coins} (hs : SortedL c) (hz : ∀ x ∈ c, x.2 ≠ 0)
    (h : ∀ d, amtL c d = amtL a d + amtL b d) :
    ∀ x ∈ c, (∃ y ∈ a, y.1 = x.1) ∨ (∃ y ∈ b, y.1 = x.1) := by
  intro x hx
  have h1 := amtL_of_mem hs hx
  have h2 := hz x hx
  have h3 := h x.1
  by_cases ha : amtL a x.1 = 0
  · right
    have : amtL b x.1 ≠ 0 := by omega
    obtain ⟨y, hy, e, _⟩ := exists_of_amtL_ne_zero this
    exact ⟨y, hy, e⟩
  · left
    obtain ⟨y, hy, e, _⟩ := exists_of_amtL_ne_zero ha
    exact ⟨y, hy, e⟩

theorem safeAdd_specL (a b c : Coins) (ha : SortedL a) (hb : SortedL b) (h : safeAdd a b = some c) :
    SortedL c ∧ (∀ x ∈ c, x.2 ≠ 0) ∧ ∀ d, amtL c d = amtL a d + amtL b d := by
  fun_induction safeAdd a b generalizing c with
  | case1 b =>
    simp only [Option.some.injEq] at h; subst h
    exact ⟨sortedL_removeZero hb, removeZero_nonzero _, fun d => by simp [amtL_removeZero hb]⟩
  | case2 a ra =>
    simp only [Option.some.injEq] at h; subst h
    exact ⟨sortedL_removeZero ha, removeZero_nonzero _, fun d => by simp [amtL_removeZero ha]⟩
  | case3 a ra b rb hlt ih =>
    simp only [Option.map_eq_some_iff] at h
    obtain ⟨r, hr, rfl⟩ := h
    have ha' := (sortedL_cons _ _).1 ha
    have hb' := (sortedL_cons _ _).1 hb
    obtain ⟨i1, i2, i3⟩ := ih r ha'.2 hb hr
    have hlow : ∀ x ∈ r, a.1 < x.1 := by
      intro x hx
      rcases denoms_of_amtL_add i1 i2 i3 x hx with ⟨y, hy, e⟩ | ⟨y, hy, e⟩
      · rw [← e]; exact ha'.1 y hy
      · rw [← e]
        rcases List.mem_cons.1 hy with rfl | hy
        · exact hlt
        · exact String.lt_trans hlt (hb'.1 y hy)
    have hbz : amtL (b :: rb) a.1 = 0 := amtL_eq_zero_of_lt (by
      intro x hx
      rcases List.mem_cons.1 hx with rfl | hx
      · exact hlt
      · exact String.lt_trans hlt (hb'.1 x hx))
    by_cases hz : a.2 = 0
    · simp only [hz, beq_self_eq_true, if_true]
      refine ⟨i1, i2, fun d => ?_⟩
      rw [i3, amtL_cons a ra]
      split
      · next e => subst e; rw [amtL_eq_zero_of_lt ha'.1, hz]
      · rfl
    · have : (a.2 == 0) = false := by simpa using hz
      simp only [this, Bool.false_eq_true, ↓reduceIte]
      refine ⟨(sortedL_cons _ _).2 ⟨hlow, i1⟩, ?_, fun d => ?_⟩
      · intro x hx
        rcases List.mem_cons.1 hx with rfl | hx
        · exact hz
        · exact i2 x hx
      · rw [amtL_cons, amtL_cons a ra, i3]
        split
        · next e => subst e; rw [hbz]; simp
        · rfl
  | case4 a ra b rb hlt heq hnone =>
    simp at h
  | case5 a ra b rb hlt heq s hs ih =>
    simp only [Option.map_eq_some_iff] at h
    obtain ⟨r, hr, rfl⟩ := h
    have heq : a.1 = b.1 := by simpa using heq
    have ha' := (sortedL_cons _ _).1 ha
    have hb' := (sortedL_cons _ _).1 hb
    obtain ⟨i1, i2, i3⟩ := ih r ha'.2 hb'.2 hr
    have hlow : ∀ x ∈ r, a.1 < x.1 := by
      intro x hx
      rcases denoms_of_amtL_add i1 i2 i3 x hx with ⟨y, hy, e⟩ | ⟨y, hy, e⟩
      · rw [← e]; exact ha'.1 y hy
      · rw [← e, heq]; exact hb'.1 y hy
    have hs' : s = a.2 + b.2 := by
      unfold intAdd at hs; simp only at hs; split at hs
      · cases hs
      · simpa using hs.symm
    have hra : amtL ra a.1 = 0 := amtL_eq_zero_of_lt ha'.1
    have hrb : amtL rb a.1 = 0 := amtL_eq_zero_of_lt (heq ▸ hb'.1)
    by_cases hz : s = 0
    · simp only [hz, beq_self_eq_true, if_true]
      refine ⟨i1, i2, fun d => ?_⟩
      rw [i3, amtL_cons a ra, amtL_cons b rb, ← heq]
      split
      · next e => subst e; rw [hra, hrb]; omega
      · rfl
    · have : (s == 0) = false := by simpa using hz
      simp only [this, Bool.false_eq_true, ↓reduceIte]
      refine ⟨(sortedL_cons _ _).2 ⟨hlow, i1⟩, ?_, fun d => ?_⟩
      · intro x hx
        rcases List.mem_cons.1 hx with rfl | hx
        · exact hz
        · exact i2 x hx
      · rw [amtL_cons, amtL_cons a ra, amtL_cons b rb, ← heq, i3]
        split
        · exact hs'
        · rfl
  | case6 a ra b rb hlt hne ih =>
    simp only [Option.map_eq_some_iff] at h
    obtain ⟨r, hr, rfl⟩ := h
    have hne : a.1 ≠ b.1 := by simpa using hne
    have hgt : b.1 < a.1 := by
      rcases slt_trichot a.1 b.1 with h | h | h
      · exact absurd h hlt
      · exact absurd h hne
      · exact h
    have ha' := (sortedL_cons _ _).1 ha
    have hb' := (sortedL_cons _ _).1 hb
    obtain ⟨i1, i2, i3⟩ := ih r ha hb'.2 hr
    have hlow : ∀ x ∈ r, b.1 < x.1 := by
      intro x hx
      rcases denoms_of_amtL_add i1 i2 i3 x hx with ⟨y, hy, e⟩ | ⟨y, hy, e⟩
      · rw [← e]
        rcases List.mem_cons.1 hy with rfl | hy
        · exact hgt
        · exact String.lt_trans hgt (ha'.1 y hy)
      · rw [← e]; exact hb'.1 y hy
    have haz : amtL (a :: ra) b.1 = 0 := amtL_eq_zero_of_lt (by
      intro x hx
      rcases List.mem_cons.1 hx with rfl | hx
      · exact hgt
      · exact String.lt_trans hgt (ha'.1 x hx))
    by_cases hz : b.2 = 0
    · simp only [hz, beq_self_eq_true, if_true]
      refine ⟨i1, i2, fun d => ?_⟩
      rw [i3, amtL_cons b rb]
      split
      · next e => subst e; rw [amtL_eq_zero_of_lt hb'.1, hz]
      · rfl
    · have : (b.2 == 0) = false := by simpa using hz
      simp only [this, Bool.false_eq_true, ↓reduceIte]
      refine ⟨(sortedL_cons _ _).2 ⟨hlow, i1⟩, ?_, fun d => ?_⟩
      · intro x hx
        rcases List.mem_cons.1 hx with rfl | hx
        · exact hz
        · exact i2 x hx
      · rw [amtL_cons, amtL_cons b rb, i3]
        split
        · next e => subst e; rw [haz]; simp
        · rfl

theorem safeAdd_none_iffL (a b : Coins) (ha : SortedL a) (hb : SortedL b) :
    safeAdd a b = none ↔ ∃ x ∈ a, ∃ y ∈ b, x.1 = y.1 ∧ intAdd x.2 y.2 = none := by
  fun_induction safeAdd a b with
  | case1 b => simp
  | case2 a ra => simp
  | case3 a ra b rb hlt ih =>
    have ha' := (sortedL_cons _ _).1 ha
    have hb' := (sortedL_cons _ _).1 hb
    rw [Option.map_eq_none_iff, ih ha'.2 hb]
    constructor
    · rintro ⟨x, hx, y, hy, h⟩; exact ⟨x, by simp [hx], y, hy, h⟩
    · rintro ⟨x, hx, y, hy, h1, h2⟩
      rcases List.mem_cons.1 hx with rfl | hx
      · exfalso
        rcases List.mem_cons.1 hy with rfl | hy
        · exact slt_ne hlt h1
        · exact slt_ne (String.lt_trans hlt (hb'.1 y hy)) h1
      · exact ⟨x, hx, y, hy, h1, h2⟩
  | case4 a ra b rb hlt heq hnone =>
    have heq : a.1 = b.1 := by simpa using heq
    simp only [true_iff]
    exact ⟨a, by simp, b, by simp, heq, hnone⟩
  | case5 a ra b rb hlt heq s hs ih =>
    have heq : a.1 = b.1 := by simpa using heq
    have ha' := (sortedL_cons _ _).1 ha
    have hb' := (sortedL_cons _ _).1 hb
    rw [Option.map_eq_none_iff, ih ha'.2 hb'.2]
    constructor
    · rintro ⟨x, hx, y, hy, h⟩; exact ⟨x, by simp [hx], y, by simp [hy], h⟩
    · rintro ⟨x, hx, y, hy, h1, h2⟩
      rcases List.mem_cons.1 hx with rfl | hx
      · rcases List.mem_cons.1 hy with rfl | hy
        · rw [hs] at h2; cases h2
        · exact absurd (heq ▸ h1) (slt_ne (hb'.1 y hy))
      · rcases List.mem_cons.1 hy with rfl | hy
        · exact absurd (heq ▸ h1.symm) (slt_ne (ha'.1 x hx))
        · exact ⟨x, hx, y, hy, h1, h2⟩
  | case6 a ra b rb hlt hne ih =>
    have hne : a.1 ≠ b.1 := by simpa using hne
    have hgt : b.1 < a.1 := by
      rcases slt_trichot a.1 b.1 with h | h | h
      · exact absurd h hlt
      · exact absurd h hne
      · exact h
    have ha' := (sortedL_cons _ _).1 ha
    have hb' := (sortedL_cons _ _).1 hb
    rw [Option.map_eq_none_iff, ih ha hb'.2]
    constructor
    · rintro ⟨x, hx, y, hy, h⟩; exact ⟨x, hx, y, by simp [hy], h⟩
    · rintro ⟨x, hx, y, hy, h1, h2⟩
      rcases List.mem_cons.1 hy with rfl | hy
      · exfalso
        rcases List.mem_cons.1 hx with rfl | hx
        · exact hne h1
        · exact slt_ne' (String.lt_trans hgt (ha'.1 x hx)) h1
      · exact ⟨x, hx, y, hy, h1, h2⟩

/-! ### extensionality -/
theorem sorted_nonzero_extL (a b : Coins) (ha : SortedL a) (hb : SortedL b) (hza : ∀ c ∈ a, c.2 ≠ 0) (hzb : ∀ c ∈ b, c.2 ≠ 0)
    (h : ∀ d, amtL a d = amtL b d) : a = b := by
  induction a generalizing b with
  | nil =>
    cases b with
    | nil => rfl
    | cons y ys =>
      have := h y.1
      rw [amtL_of_mem hb (by simp)] at this
      exact absurd this.symm (hzb y (by simp))
  | cons x xs ih =>
    cases b with
    | nil =>
      have := h x.1
      rw [amtL_of_mem ha (by simp)] at this
      exact absurd this (hza x (by simp))
    | cons y ys =>
      have ha' := (sortedL_cons _ _).1 ha
      have hb' := (sortedL_cons _ _).1 hb
      have hx := amtL_of_mem ha (x := x) (by simp)
      have hy := amtL_of_mem hb (x := y) (by simp)
      rcases slt_trichot x.1 y.1 with hlt | heq | hgt
      · exfalso
        have h0 : amtL (y :: ys) x.1 = 0 := amtL_eq_zero_of_lt (by
          intro z hz
          rcases List.mem_cons.1 hz with rfl | hz
          · exact hlt
          · exact String.lt_trans hlt (hb'.1 z hz))
        have := h x.1
        rw [hx, h0] at this
        exact hza x (by simp) this
      · have h2 : x.2 = y.2 := by
          have := h x.1
          rw [hx, heq, hy] at this; exact this
        have hxy : x = y := Prod.ext heq h2
        subst hxy
        congr 1
        refine ih ys ha'.2 hb'.2 (fun c hc => hza c (by simp [hc])) (fun c hc => hzb c (by simp [hc])) fun d => ?_
        by_cases hd : x.1 = d
        · subst hd
          rw [amtL_eq_zero_of_lt ha'.1, amtL_eq_zero_of_lt hb'.1]
        · have := h d
          rwa [amtL_cons, amtL_cons, if_neg hd, if_neg hd] at this
      · exfalso
        have h0 : amtL (x :: xs) y.1 = 0 := amtL_eq_zero_of_lt (by
          intro z hz
          rcases List.mem_cons.1 hz with rfl | hz
          · exact hgt
          · exact String.lt_trans hgt (ha'.1 z hz))
        have := h y.1
        rw [hy, h0] at this
        exact hzb y (by simp) this.symm

/-! ### binary search -/
theorem split_at_getElem? {α} {l : List α} {i : Nat} {c : α} (h : l[i]? = some c) :
    l = l.take i ++ c :: l.drop (i + 1) := by
  obtain ⟨hi, rfl⟩ := List.getElem?_eq_some_iff.1 h
  rw [← List.drop_eq_getElem_cons hi, List.take_append_drop]

theorem amountOfBS_specL (cs : Coins) (d : String) (h : SortedL cs) : amountOfBS cs d = amtL cs d := by
  fun_induction amountOfBS cs d with
  | case1 => rfl
  | case2 c hc => simp [amtL_cons, beq_iff_eq.1 hc]
  | case3 c hc => 
    have : c.1 ≠ d := by simpa using hc
    simp [amtL_cons, this]
  | case4 x y t mid hnone =>
    exfalso
    rw [List.getElem?_eq_none_iff] at hnone
    simp only [mid, List.length_cons] at hnone; omega
  | case5 x y t c hlt mid hsome ih =>
    have hsplit := split_at_getElem? hsome
    rw [hsplit] at h
    obtain ⟨h1, h2, h3⟩ := sortedL_append.1 h
    have h2' := (sortedL_cons _ _).1 h2
    have hsome' : (x :: y :: t)[(x :: y :: t).length / 2]? = some c := hsome
    simp only [hsome', hlt, if_true]
    rw [ih h1]
    conv => rhs; rw [hsplit]
    refine (amtL_append_left ?_).symm
    intro z hz
    rcases List.mem_cons.1 hz with rfl | hz
    · exact slt_ne' hlt
    · exact slt_ne' (String.lt_trans hlt (h2'.1 z hz))
  | case6 x y t c hlt heq mid hsome =>
    have heq : d = c.1 := by simpa using heq
    have hsplit := split_at_getElem? hsome
    have hmem : c ∈ x :: y :: t := List.mem_of_getElem? hsome
    have hsome' : (x :: y :: t)[(x :: y :: t).length / 2]? = some c := hsome
    subst heq
    simp only [hsome', String.lt_irrefl, if_false, beq_self_eq_true, if_true]
    rw [amtL_of_mem h hmem]
  | case7 x y t c hlt hne mid hsome ih =>
    have hne : d ≠ c.1 := by simpa using hne
    have hgt : c.1 < d := by
      rcases slt_trichot d c.1 with h | h | h
      · exact absurd h hlt
      · exact absurd h hne
      · exact h
    have hsplit := split_at_getElem? hsome
    rw [hsplit] at h
    obtain ⟨h1, h2, h3⟩ := sortedL_append.1 h
    have h2' := (sortedL_cons _ _).1 h2
    have hsome' : (x :: y :: t)[(x :: y :: t).length / 2]? = some c := hsome
    have hne' : (d == c.1) = false := by simpa using hne
    simp only [hsome', hlt, if_false, hne', Bool.false_eq_true]
    rw [ih h2'.2]
    conv => rhs; rw [hsplit]
    rw [amtL_append_right, amtL_cons, if_neg (Ne.symm hne)]
    intro z hz
    exact slt_ne (String.lt_trans (h3 z hz c (by simp)) hgt)

/-! ### negative -/
theorem negative_map_fst (b : Coins) : (negative b).map (·.1) = b.map (·.1) := by
  simp [negative, Function.comp_def]

theorem sortedL_negative {b : Coins} (h : SortedL b) : SortedL (negative b) := by
  unfold SortedL; rw [negative_map_fst]; exact h

theorem amtL_negative (b : Coins) (d : String) : amtL (negative b) d = - amtL b d := by
  induction b with
  | nil => rfl
  | cons c cs ih =>
    show amtL ((c.1, -c.2) :: negative cs) d = _
    rw [amtL_cons, amtL_cons, ih]; split <;> rfl

theorem mem_negative {b : Coins} {y : Coin} (h : y ∈ negative b) : ∃ x ∈ b, y = (x.1, -x.2) := by
  simp only [negative, List.mem_map] at h
  obtain ⟨x, hx, rfl⟩ := h
  exact ⟨x, hx, rfl⟩

theorem isAnyNegative_iff (cs : Coins) : isAnyNegative cs = true ↔ ∃ x ∈ cs, x.2 < 0 := by
  simp [isAnyNegative]

theorem isAnyNegative_iff_amtL {cs : Coins} (hs : SortedL cs) :
    isAnyNegative cs = true ↔ ∃ d, amtL cs d < 0 := by
  rw [isAnyNegative_iff]
  constructor
  · rintro ⟨x, hx, h⟩; exact ⟨x.1, by rw [amtL_of_mem hs hx]; exact h⟩
  · rintro ⟨d, h⟩
    obtain ⟨x, hx, _, h2⟩ := exists_of_amtL_ne_zero (cs := cs) (d := d) (by omega)
    exact ⟨x, hx, by omega⟩

/-! ### allM / anyM -/
theorem allM_map_some {α} (l : List α) (f : α → Option Bool) (p : α → Bool) (h : ∀ x ∈ l, f x = some (p x)) :
    allM (l.map f) = some (l.all p) := by
  induction l with
  | nil => rfl
  | cons x xs ih =>
    have ih := ih fun y hy => h y (by simp [hy])
    simp only [List.map_cons, List.all_cons, h x (by simp)]
    cases hp : p x
    · simp [allM]
    · simp [allM, ih]

theorem anyM_map_some {α} (l : List α) (f : α → Option Bool) (p : α → Bool) (h : ∀ x ∈ l, f x = some (p x)) :
    anyM (l.map f) = some (l.any p) := by
  induction l with
  | nil => rfl
  | cons x xs ih =>
    have ih := ih fun y hy => h y (by simp [hy])
    simp only [List.map_cons, List.any_cons, h x (by simp)]
    cases hp : p x
    · simp [anyM, ih]
    · simp [anyM]

/-! ### sortCoins -/
theorem insertCoin_perm (c : Coin) (l : Coins) : (insertCoin c l).Perm (c :: l) := by
  induction l with
  | nil => exact List.Perm.refl _
  | cons x xs ih =>
    unfold insertCoin
    split
    · exact List.Perm.refl _
    · exact (List.Perm.cons x ih).trans (List.Perm.swap c x xs)

theorem sortCoins_perm (l : Coins) : (sortCoins l).Perm l := by
  induction l with
  | nil => exact List.Perm.refl _
  | cons x xs ih => exact (insertCoin_perm x _).trans (List.Perm.cons x ih)

theorem sortCoins_of_sortedL {l : Coins} (h : SortedL l) : sortCoins l = l := by
  induction l with
  | nil => rfl
  | cons x xs ih =>
    have h' := (sortedL_cons _ _).1 h
    rw [sortCoins, ih h'.2]
    cases xs with
    | nil => rfl
    | cons y ys => rw [insertCoin, if_pos (h'.1 y (by simp))]

theorem hasDup_of_sortedL {l : Coins} (h : SortedL l) : hasDup l = false := by
  induction l with
  | nil => rfl
  | cons x xs ih =>
    have h' := (sortedL_cons _ _).1 h
    cases xs with
    | nil => rfl
    | cons y ys =>
      rw [hasDup, ih h'.2]
      simpa using slt_ne (h'.1 y (by simp))

/-! ### isValid -/
theorem isValidTail_spec (low : String) (cs : Coins) (h : isValidTail low cs = true) :
    (∀ x ∈ cs, low < x.1) ∧ SortedL cs ∧ ∀ x ∈ cs, 0 < x.2 := by
  induction cs generalizing low with
  | nil => simp
  | cons c cs ih =>
    simp only [isValidTail, Bool.and_eq_true, decide_eq_true_eq] at h
    obtain ⟨⟨⟨_, h1⟩, h2⟩, h3⟩ := h
    obtain ⟨i1, i2, i3⟩ := ih c.1 h3
    refine ⟨?_, (sortedL_cons _ _).2 ⟨i1, i2⟩, ?_⟩
    · intro x hx
      rcases List.mem_cons.1 hx with rfl | hx
      · exact h1
      · exact String.lt_trans h1 (i1 x hx)
    · intro x hx
      rcases List.mem_cons.1 hx with rfl | hx
      · exact h2
      · exact i3 x hx

theorem isValid_spec (cs : Coins) (h : isValid cs = true) : SortedL cs ∧ ∀ x ∈ cs, 0 < x.2 := by
  cases cs with
  | nil => simp
  | cons c cs =>
    simp only [isValid, Bool.and_eq_true, decide_eq_true_eq] at h
    obtain ⟨⟨_, h2⟩, h3⟩ := h
    obtain ⟨i1, i2, i3⟩ := isValidTail_spec c.1 cs h3
    refine ⟨(sortedL_cons _ _).2 ⟨i1, i2⟩, ?_⟩
    intro x hx
    rcases List.mem_cons.1 hx with rfl | hx
    · exact h2
    · exact i3 x hx

/-! ### characters -/
theorem not_upper_of_lower {c : Char} (h : isLowerC c = true) : isUpperC c = false := by
  simp only [isLowerC, isUpperC, Bool.and_eq_true, decide_eq_true_eq, Bool.and_eq_false_iff, decide_eq_false_iff_not] at *
  have e1 : 'a'.val = 97 := by decide
  have e2 : 'Z'.val = 90 := by decide
  rw [e1] at h; rw [e2]
  right
  have := h.1
  rw [UInt32.le_iff_toNat_le] at *
  simp at *
  omega

theorem not_upper_of_digit {c : Char} (h : isDigitC c = true) : isUpperC c = false := by
  simp only [isDigitC, isUpperC, Bool.and_eq_true, decide_eq_true_eq, Bool.and_eq_false_iff, decide_eq_false_iff_not] at *
  have e1 : '9'.val = 57 := by decide
  have e2 : 'A'.val = 65 := by decide
  rw [e1] at h; rw [e2]
  left
  have := h.2
  rw [UInt32.le_iff_toNat_le] at *
  simp at *
  omega

theorem noUpper_of_denomOK {d : String} (h : denomOK d = true) : noUpper d = true := by
  unfold denomOK at h
  unfold noUpper
  split at h
  · cases h
  · next c rest e =>
    rw [e]
    simp only [Bool.and_eq_true, decide_eq_true_eq, List.all_eq_true, Bool.or_eq_true] at h
    obtain ⟨⟨⟨h1, h2⟩, _⟩, _⟩ := h
    simp only [List.all_cons, Bool.and_eq_true, List.all_eq_true, Bool.not_eq_true']
    refine ⟨not_upper_of_lower h1, fun x hx => ?_⟩
    rcases h2 x hx with h | h
    · exact not_upper_of_lower h
    · exact not_upper_of_digit h


theorem isValidTail_of (low : String) (cs : Coins) (h1 : ∀ x ∈ cs, low < x.1) (h2 : SortedL cs)
    (h3 : ∀ x ∈ cs, 0 < x.2) (h4 : ∀ x ∈ cs, noUpper x.1 = true) : isValidTail low cs = true := by
  induction cs generalizing low with
  | nil => rfl
  | cons c cs ih =>
    have h2' := (sortedL_cons _ _).1 h2
    simp only [isValidTail, Bool.and_eq_true, decide_eq_true_eq]
    exact ⟨⟨⟨h4 c (by simp), h1 c (by simp)⟩, h3 c (by simp)⟩,
      ih c.1 h2'.1 h2'.2 (fun x hx => h3 x (by simp [hx])) (fun x hx => h4 x (by simp [hx]))⟩

theorem isValid_of (cs : Coins) (h2 : SortedL cs) (h3 : ∀ x ∈ cs, 0 < x.2)
    (h4 : ∀ x ∈ cs, denomOK x.1 = true) : isValid cs = true := by
  cases cs with
  | nil => rfl
  | cons c cs =>
    have h2' := (sortedL_cons _ _).1 h2
    simp only [isValid, Bool.and_eq_true, decide_eq_true_eq]
    exact ⟨⟨h4 c (by simp), h3 c (by simp)⟩,
      isValidTail_of c.1 cs h2'.1 h2'.2 (fun x hx => h3 x (by simp [hx]))
        (fun x hx => noUpper_of_denomOK (h4 x (by simp [hx])))⟩

/-! ### pigeonhole -/
theorem length_le_of_denoms_subset {a b : Coins} (ha : SortedL a) (h : ∀ c ∈ a, ∃ y ∈ b, y.1 = c.1) :
    a.length ≤ b.length := by
  have hnd : (a.map (·.1)).Nodup := by
    unfold SortedL at ha
    exact List.Pairwise.imp (fun h => slt_ne h) ha
  have hsub : a.map (·.1) ⊆ b.map (·.1) := by
    intro d hd
    obtain ⟨c, hc, rfl⟩ := List.mem_map.1 hd
    obtain ⟨y, hy, e⟩ := h c hc
    exact List.mem_map.2 ⟨y, hy, e⟩
  simpa using hnd.length_le_of_subset hsub

/-! ### amountOf -/
theorem amountOf_specL (cs : Coins) (d : String) (h : SortedL cs) :
    amountOf cs d = if denomOK d then some (amtL cs d) else none := by
  unfold amountOf; rw [amountOfBS_specL cs d h]

theorem amountOf_of_ok {cs : Coins} {d : String} (h : SortedL cs) (hd : denomOK d = true) :
    amountOf cs d = some (amtL cs d) := by
  rw [amountOf_specL cs d h, if_pos hd]

/-! ### isEqual -/
theorem isEqual_core_same_denoms (a b : Coins) (hden : a.map (·.1) = b.map (·.1)) :
    ∃ r, allM ((a.zip b).map fun p => if p.1.1 != p.2.1 then none else some (p.1.2 == p.2.2)) = some r ∧
      (r = true ↔ a = b) := by
  induction a generalizing b with
  | nil =>
    cases b with
    | nil => exact ⟨true, rfl, by simp⟩
    | cons y ys => simp at hden
  | cons x xs ih =>
    cases b with
    | nil => simp at hden
    | cons y ys =>
      simp only [List.map_cons, List.cons.injEq] at hden
      obtain ⟨r, hr, hiff⟩ := ih ys hden.2
      simp only [List.zip_cons_cons, List.map_cons, hden.1, bne_self_eq_false, Bool.false_eq_true, if_false]
      by_cases h2 : x.2 = y.2
      · refine ⟨r, ?_, ?_⟩
        · simp only [h2, beq_self_eq_true, allM]; exact hr
        · rw [hiff]
          have : x = y := Prod.ext hden.1 h2
          simp [this]
      · refine ⟨false, ?_, ?_⟩
        · have : (x.2 == y.2) = false := by simpa using h2
          simp only [this, allM]
        · simp only [Bool.false_eq_true, false_iff, List.cons.injEq, not_and]
          intro e; exact absurd (congrArg Prod.snd e) h2

theorem isEqual_core_sound (a b : Coins) (hl : a.length = b.length)
    (h : allM ((a.zip b).map fun p => if p.1.1 != p.2.1 then none else some (p.1.2 == p.2.2)) = some true) :
    a = b := by
  induction a generalizing b with
  | nil =>
    cases b with
    | nil => rfl
    | cons y ys => simp at hl
  | cons x xs ih =>
    cases b with
    | nil => simp at hl
    | cons y ys =>
      simp only [List.length_cons, Nat.add_right_cancel_iff] at hl
      simp only [List.zip_cons_cons, List.map_cons] at h
      by_cases h1 : x.1 = y.1
      · simp only [h1, bne_self_eq_false, Bool.false_eq_true, if_false] at h
        by_cases h2 : x.2 = y.2
        · simp only [h2, beq_self_eq_true, allM] at h
          rw [ih ys hl h, Prod.ext h1 h2]
        · have : (x.2 == y.2) = false := by simpa using h2
          simp [this, allM] at h
      · have : (x.1 != y.1) = true := by simpa using h1
        simp [this, allM] at h

/-! ### comparisons -/
theorem allM_amountOf {a b : Coins} (ha : SortedL a) (hd : ∀ c ∈ b, denomOK c.1 = true) (p : Coin → Int → Bool) :
    allM (b.map fun c => (amountOf a c.1).map fun x => p c x) = some (b.all fun c => p c (amtL a c.1)) :=
  allM_map_some b _ _ fun c hc => by rw [amountOf_of_ok ha (hd c hc)]; rfl

theorem anyM_amountOf {a b : Coins} (ha : SortedL a) (hd : ∀ c ∈ b, denomOK c.1 = true) (p : Coin → Int → Bool) :
    anyM (b.map fun c => (amountOf a c.1).map fun x => p c x) = some (b.any fun c => p c (amtL a c.1)) :=
  anyM_map_some b _ _ fun c hc => by rw [amountOf_of_ok ha (hd c hc)]; rfl

theorem forall_mem_le_iff {a b : Coins} (hb : SortedL b) (hpa : ∀ c ∈ a, 0 < c.2) :
    (∀ c ∈ b, c.2 ≤ amtL a c.1) ↔ ∀ d, amtL b d ≤ amtL a d := by
  constructor
  · intro h d
    by_cases h0 : amtL b d = 0
    · have := amtL_nonneg hpa d; omega
    · obtain ⟨x, hx, e1, e2⟩ := exists_of_amtL_ne_zero h0
      have := h x hx; rw [e1] at this; omega
  · intro h c hc
    have := h c.1; rwa [amtL_of_mem hb hc] at this

theorem denomsSubsetOf_specL (a b : Coins) (ha : SortedL a) (hb : SortedL b) (hpb : ∀ c ∈ b, 0 < c.2)
    (hd : ∀ c ∈ a, denomOK c.1 = true) :
    ∃ r, denomsSubsetOf a b = some r ∧ (r = true ↔ ∀ c ∈ a, 0 < amtL b c.1) := by
  unfold denomsSubsetOf
  split
  · next hlen =>
    refine ⟨false, rfl, ?_⟩
    simp only [Bool.false_eq_true, false_iff]
    intro h
    have := length_le_of_denoms_subset (b := b) ha (fun c hc => by
      obtain ⟨y, hy, e, _⟩ := exists_of_amtL_ne_zero (cs := b) (d := c.1) (by have := h c hc; omega)
      exact ⟨y, hy, e⟩)
    omega
  · rw [allM_amountOf hb hd (fun _ x => x != 0)]
    refine ⟨_, rfl, ?_⟩
    simp only [List.all_eq_true, bne_iff_ne, ne_eq]
    constructor
    · intro h c hc; have := h c hc; have := amtL_nonneg hpb c.1; omega
    · intro h c hc; have := h c hc; omega

end Posmint.Coins
