import Posmint.Model.ChainSpec
import Posmint.Lemmas.ChainTouch
/-!
The second denomination as a frame: `setBal2` / `send2` / `rewardFromFees2` change `bal2` and nothing else, and
neither `WF` nor `Inv` mentions `bal2` / `supply2`.  Every lemma tree about the staking coin imports this file and
treats the two new steps (`runTx`'s second fee transfer, `beginBlock`'s second distribution) as frames.
-/
namespace Posmint.Chain.F2
open Posmint.Chain

/-! ### the second denomination: `setBal2` / `send2` / `rewardFromFees2` change `bal2` only -/

theorem setBal2_frame (s : State) (a : Addr) (x : Int) :
    setBal2 s a x = { s with bal2 := (setBal2 s a x).bal2 } := rfl

theorem send2_frame {s s1 : State} {src dst : Addr} {amt : Int} (h : send2 s src dst amt = some s1) :
    s1 = { s with bal2 := s1.bal2 } := by
  unfold send2 at h
  split at h
  · simp at h
  · simp at h; subst h; simp [setBal2]

theorem send2_getD_frame (s : State) (src dst : Addr) (amt : Int) :
    (send2 s src dst amt).getD s = { s with bal2 := ((send2 s src dst amt).getD s).bal2 } := by
  cases h : send2 s src dst amt with
  | none => rfl
  | some s1 => exact send2_frame h

theorem rewardFromFees2_frame (s : State) :
    rewardFromFees2 s = { s with bal2 := (rewardFromFees2 s).bal2 } := by
  unfold rewardFromFees2
  simp only
  split
  · rfl
  · rename_i s1 h1
    have e1 := send2_frame h1
    split
    · have e2 := send2_getD_frame s1 s1.posAcc s.proposer (balOf2 s s.feeAcc)
      rw [e2]; rw [e1]
    · exact e1

/-- well-formedness does not mention the second denomination -/
theorem wf_bal2 {s : State} (b2 : List (Addr × Int)) : WF { s with bal2 := b2 } ↔ WF s :=
  ⟨fun h => ⟨h.balAsc, h.balPos, h.valsAsc, h.tokNonneg, h.statusOK, h.signAsc, h.prevAsc, h.awardsAsc, h.burnsAsc,
      h.modsDistinct, h.keysNotMods, h.valsAreKeys, h.minStakeNonneg⟩,
   fun h => ⟨h.balAsc, h.balPos, h.valsAsc, h.tokNonneg, h.statusOK, h.signAsc, h.prevAsc, h.awardsAsc, h.burnsAsc,
      h.modsDistinct, h.keysNotMods, h.valsAreKeys, h.minStakeNonneg⟩⟩

/-- the invariant does not mention the second denomination -/
theorem inv_bal2 {s : State} (b2 : List (Addr × Int)) : Inv { s with bal2 := b2 } ↔ Inv s :=
  ⟨fun h => ⟨(wf_bal2 b2).1 h.wf, h.supply, h.pool, h.index, h.queue, h.unstakedEmpty, h.sign, h.prevOK⟩,
   fun h => ⟨(wf_bal2 b2).2 h.wf, h.supply, h.pool, h.index, h.queue, h.unstakedEmpty, h.sign, h.prevOK⟩⟩

/-- well-formedness does not mention the upgrade plan -/
theorem wf_upgrade {s : State} (u : Int × String) : WF { s with upgrade := u } ↔ WF s :=
  ⟨fun h => ⟨h.balAsc, h.balPos, h.valsAsc, h.tokNonneg, h.statusOK, h.signAsc, h.prevAsc, h.awardsAsc, h.burnsAsc,
      h.modsDistinct, h.keysNotMods, h.valsAreKeys, h.minStakeNonneg⟩,
   fun h => ⟨h.balAsc, h.balPos, h.valsAsc, h.tokNonneg, h.statusOK, h.signAsc, h.prevAsc, h.awardsAsc, h.burnsAsc,
      h.modsDistinct, h.keysNotMods, h.valsAreKeys, h.minStakeNonneg⟩⟩

/-- the invariant does not mention the upgrade plan -/
theorem inv_upgrade {s : State} (u : Int × String) : Inv { s with upgrade := u } ↔ Inv s :=
  ⟨fun h => ⟨(wf_upgrade u).1 h.wf, h.supply, h.pool, h.index, h.queue, h.unstakedEmpty, h.sign, h.prevOK⟩,
   fun h => ⟨(wf_upgrade u).2 h.wf, h.supply, h.pool, h.index, h.queue, h.unstakedEmpty, h.sign, h.prevOK⟩⟩

/-- an accepted upgrade message: the sender is the owner the ACL names for `gov/upgrade`; only the plan changes -/
theorem handle_upgrade_some {s s1 : State} {src : Addr} {hh : Int} {ver : String}
    (h : handle s (.upgrade src hh ver) = some s1) :
    s.acl.lookup "gov/upgrade" = some src ∧ s1 = { s with upgrade := (hh, ver) } := by
  simp only [handle] at h
  split at h
  · simp at h
  · rename_i owner ho
    split at h
    · simp at h
    · rename_i hne
      have e : owner = src := by simpa using hne
      subst e
      simp only [Option.some.injEq] at h
      exact ⟨ho, h.symm⟩

theorem wf_send2_getD {s : State} (src dst : Addr) (amt : Int) : WF ((send2 s src dst amt).getD s) ↔ WF s := by
  rw [send2_getD_frame]; exact wf_bal2 _
theorem inv_send2_getD {s : State} (src dst : Addr) (amt : Int) : Inv ((send2 s src dst amt).getD s) ↔ Inv s := by
  rw [send2_getD_frame]; exact inv_bal2 _
theorem wf_rewardFromFees2 {s : State} : WF (rewardFromFees2 s) ↔ WF s := by
  rw [rewardFromFees2_frame]; exact wf_bal2 _
theorem inv_rewardFromFees2 {s : State} : Inv (rewardFromFees2 s) ↔ Inv s := by
  rw [rewardFromFees2_frame]; exact inv_bal2 _

@[simp] theorem bal_setBal2 (s : State) (a : Addr) (x : Int) : (setBal2 s a x).bal = s.bal := rfl
@[simp] theorem supply_setBal2 (s : State) (a : Addr) (x : Int) : (setBal2 s a x).supply = s.supply := rfl
@[simp] theorem vals_setBal2 (s : State) (a : Addr) (x : Int) : (setBal2 s a x).vals = s.vals := rfl
@[simp] theorem idx_setBal2 (s : State) (a : Addr) (x : Int) : (setBal2 s a x).idx = s.idx := rfl
@[simp] theorem prev_setBal2 (s : State) (a : Addr) (x : Int) : (setBal2 s a x).prev = s.prev := rfl
@[simp] theorem prevTot_setBal2 (s : State) (a : Addr) (x : Int) : (setBal2 s a x).prevTot = s.prevTot := rfl
@[simp] theorem queue_setBal2 (s : State) (a : Addr) (x : Int) : (setBal2 s a x).queue = s.queue := rfl
@[simp] theorem sign_setBal2 (s : State) (a : Addr) (x : Int) : (setBal2 s a x).sign = s.sign := rfl
@[simp] theorem missedBits_setBal2 (s : State) (a : Addr) (x : Int) : (setBal2 s a x).missedBits = s.missedBits := rfl
@[simp] theorem awards_setBal2 (s : State) (a : Addr) (x : Int) : (setBal2 s a x).awards = s.awards := rfl
@[simp] theorem burns_setBal2 (s : State) (a : Addr) (x : Int) : (setBal2 s a x).burns = s.burns := rfl
@[simp] theorem proposer_setBal2 (s : State) (a : Addr) (x : Int) : (setBal2 s a x).proposer = s.proposer := rfl
@[simp] theorem rel_setBal2 (s : State) (a : Addr) (x : Int) : (setBal2 s a x).rel = s.rel := rfl
@[simp] theorem p_setBal2 (s : State) (a : Addr) (x : Int) : (setBal2 s a x).p = s.p := rfl
@[simp] theorem acl_setBal2 (s : State) (a : Addr) (x : Int) : (setBal2 s a x).acl = s.acl := rfl
@[simp] theorem daoOwner_setBal2 (s : State) (a : Addr) (x : Int) : (setBal2 s a x).daoOwner = s.daoOwner := rfl
@[simp] theorem pool_setBal2 (s : State) (a : Addr) (x : Int) : (setBal2 s a x).pool = s.pool := rfl
@[simp] theorem feeAcc_setBal2 (s : State) (a : Addr) (x : Int) : (setBal2 s a x).feeAcc = s.feeAcc := rfl
@[simp] theorem posAcc_setBal2 (s : State) (a : Addr) (x : Int) : (setBal2 s a x).posAcc = s.posAcc := rfl
@[simp] theorem daoAcc_setBal2 (s : State) (a : Addr) (x : Int) : (setBal2 s a x).daoAcc = s.daoAcc := rfl
@[simp] theorem keys_setBal2 (s : State) (a : Addr) (x : Int) : (setBal2 s a x).keys = s.keys := rfl
@[simp] theorem nStored_setBal2 (s : State) (a : Addr) (x : Int) : (setBal2 s a x).nStored = s.nStored := rfl
@[simp] theorem height_setBal2 (s : State) (a : Addr) (x : Int) : (setBal2 s a x).height = s.height := rfl
@[simp] theorem time_setBal2 (s : State) (a : Addr) (x : Int) : (setBal2 s a x).time = s.time := rfl
@[simp] theorem cHeight_setBal2 (s : State) (a : Addr) (x : Int) : (setBal2 s a x).cHeight = s.cHeight := rfl
@[simp] theorem cTime_setBal2 (s : State) (a : Addr) (x : Int) : (setBal2 s a x).cTime = s.cTime := rfl
@[simp] theorem index_setBal2 (s : State) (a : Addr) (x : Int) : (setBal2 s a x).index = s.index := rfl
@[simp] theorem blockTxs_setBal2 (s : State) (a : Addr) (x : Int) : (setBal2 s a x).blockTxs = s.blockTxs := rfl
@[simp] theorem supply2_setBal2 (s : State) (a : Addr) (x : Int) : (setBal2 s a x).supply2 = s.supply2 := rfl
@[simp] theorem upgrade_setBal2 (s : State) (a : Addr) (x : Int) : (setBal2 s a x).upgrade = s.upgrade := rfl
@[simp] theorem bal_send2_getD (s : State) (src dst : Addr) (amt : Int) : ((send2 s src dst amt).getD s).bal = s.bal := by
  rw [send2_getD_frame]
theorem bal_send2 {s s1 : State} {src dst : Addr} {amt : Int} (h : send2 s src dst amt = some s1) : s1.bal = s.bal := by
  rw [send2_frame h]
@[simp] theorem bal_rewardFromFees2 (s : State) : (rewardFromFees2 s).bal = s.bal := by
  rw [rewardFromFees2_frame]
@[simp] theorem supply_send2_getD (s : State) (src dst : Addr) (amt : Int) : ((send2 s src dst amt).getD s).supply = s.supply := by
  rw [send2_getD_frame]
theorem supply_send2 {s s1 : State} {src dst : Addr} {amt : Int} (h : send2 s src dst amt = some s1) : s1.supply = s.supply := by
  rw [send2_frame h]
@[simp] theorem supply_rewardFromFees2 (s : State) : (rewardFromFees2 s).supply = s.supply := by
  rw [rewardFromFees2_frame]
@[simp] theorem vals_send2_getD (s : State) (src dst : Addr) (amt : Int) : ((send2 s src dst amt).getD s).vals = s.vals := by
  rw [send2_getD_frame]
theorem vals_send2 {s s1 : State} {src dst : Addr} {amt : Int} (h : send2 s src dst amt = some s1) : s1.vals = s.vals := by
  rw [send2_frame h]
@[simp] theorem vals_rewardFromFees2 (s : State) : (rewardFromFees2 s).vals = s.vals := by
  rw [rewardFromFees2_frame]
@[simp] theorem idx_send2_getD (s : State) (src dst : Addr) (amt : Int) : ((send2 s src dst amt).getD s).idx = s.idx := by
  rw [send2_getD_frame]
theorem idx_send2 {s s1 : State} {src dst : Addr} {amt : Int} (h : send2 s src dst amt = some s1) : s1.idx = s.idx := by
  rw [send2_frame h]
@[simp] theorem idx_rewardFromFees2 (s : State) : (rewardFromFees2 s).idx = s.idx := by
  rw [rewardFromFees2_frame]
@[simp] theorem prev_send2_getD (s : State) (src dst : Addr) (amt : Int) : ((send2 s src dst amt).getD s).prev = s.prev := by
  rw [send2_getD_frame]
theorem prev_send2 {s s1 : State} {src dst : Addr} {amt : Int} (h : send2 s src dst amt = some s1) : s1.prev = s.prev := by
  rw [send2_frame h]
@[simp] theorem prev_rewardFromFees2 (s : State) : (rewardFromFees2 s).prev = s.prev := by
  rw [rewardFromFees2_frame]
@[simp] theorem prevTot_send2_getD (s : State) (src dst : Addr) (amt : Int) : ((send2 s src dst amt).getD s).prevTot = s.prevTot := by
  rw [send2_getD_frame]
theorem prevTot_send2 {s s1 : State} {src dst : Addr} {amt : Int} (h : send2 s src dst amt = some s1) : s1.prevTot = s.prevTot := by
  rw [send2_frame h]
@[simp] theorem prevTot_rewardFromFees2 (s : State) : (rewardFromFees2 s).prevTot = s.prevTot := by
  rw [rewardFromFees2_frame]
@[simp] theorem queue_send2_getD (s : State) (src dst : Addr) (amt : Int) : ((send2 s src dst amt).getD s).queue = s.queue := by
  rw [send2_getD_frame]
theorem queue_send2 {s s1 : State} {src dst : Addr} {amt : Int} (h : send2 s src dst amt = some s1) : s1.queue = s.queue := by
  rw [send2_frame h]
@[simp] theorem queue_rewardFromFees2 (s : State) : (rewardFromFees2 s).queue = s.queue := by
  rw [rewardFromFees2_frame]
@[simp] theorem sign_send2_getD (s : State) (src dst : Addr) (amt : Int) : ((send2 s src dst amt).getD s).sign = s.sign := by
  rw [send2_getD_frame]
theorem sign_send2 {s s1 : State} {src dst : Addr} {amt : Int} (h : send2 s src dst amt = some s1) : s1.sign = s.sign := by
  rw [send2_frame h]
@[simp] theorem sign_rewardFromFees2 (s : State) : (rewardFromFees2 s).sign = s.sign := by
  rw [rewardFromFees2_frame]
@[simp] theorem missedBits_send2_getD (s : State) (src dst : Addr) (amt : Int) : ((send2 s src dst amt).getD s).missedBits = s.missedBits := by
  rw [send2_getD_frame]
theorem missedBits_send2 {s s1 : State} {src dst : Addr} {amt : Int} (h : send2 s src dst amt = some s1) : s1.missedBits = s.missedBits := by
  rw [send2_frame h]
@[simp] theorem missedBits_rewardFromFees2 (s : State) : (rewardFromFees2 s).missedBits = s.missedBits := by
  rw [rewardFromFees2_frame]
@[simp] theorem awards_send2_getD (s : State) (src dst : Addr) (amt : Int) : ((send2 s src dst amt).getD s).awards = s.awards := by
  rw [send2_getD_frame]
theorem awards_send2 {s s1 : State} {src dst : Addr} {amt : Int} (h : send2 s src dst amt = some s1) : s1.awards = s.awards := by
  rw [send2_frame h]
@[simp] theorem awards_rewardFromFees2 (s : State) : (rewardFromFees2 s).awards = s.awards := by
  rw [rewardFromFees2_frame]
@[simp] theorem burns_send2_getD (s : State) (src dst : Addr) (amt : Int) : ((send2 s src dst amt).getD s).burns = s.burns := by
  rw [send2_getD_frame]
theorem burns_send2 {s s1 : State} {src dst : Addr} {amt : Int} (h : send2 s src dst amt = some s1) : s1.burns = s.burns := by
  rw [send2_frame h]
@[simp] theorem burns_rewardFromFees2 (s : State) : (rewardFromFees2 s).burns = s.burns := by
  rw [rewardFromFees2_frame]
@[simp] theorem proposer_send2_getD (s : State) (src dst : Addr) (amt : Int) : ((send2 s src dst amt).getD s).proposer = s.proposer := by
  rw [send2_getD_frame]
theorem proposer_send2 {s s1 : State} {src dst : Addr} {amt : Int} (h : send2 s src dst amt = some s1) : s1.proposer = s.proposer := by
  rw [send2_frame h]
@[simp] theorem proposer_rewardFromFees2 (s : State) : (rewardFromFees2 s).proposer = s.proposer := by
  rw [rewardFromFees2_frame]
@[simp] theorem rel_send2_getD (s : State) (src dst : Addr) (amt : Int) : ((send2 s src dst amt).getD s).rel = s.rel := by
  rw [send2_getD_frame]
theorem rel_send2 {s s1 : State} {src dst : Addr} {amt : Int} (h : send2 s src dst amt = some s1) : s1.rel = s.rel := by
  rw [send2_frame h]
@[simp] theorem rel_rewardFromFees2 (s : State) : (rewardFromFees2 s).rel = s.rel := by
  rw [rewardFromFees2_frame]
@[simp] theorem p_send2_getD (s : State) (src dst : Addr) (amt : Int) : ((send2 s src dst amt).getD s).p = s.p := by
  rw [send2_getD_frame]
theorem p_send2 {s s1 : State} {src dst : Addr} {amt : Int} (h : send2 s src dst amt = some s1) : s1.p = s.p := by
  rw [send2_frame h]
@[simp] theorem p_rewardFromFees2 (s : State) : (rewardFromFees2 s).p = s.p := by
  rw [rewardFromFees2_frame]
@[simp] theorem acl_send2_getD (s : State) (src dst : Addr) (amt : Int) : ((send2 s src dst amt).getD s).acl = s.acl := by
  rw [send2_getD_frame]
theorem acl_send2 {s s1 : State} {src dst : Addr} {amt : Int} (h : send2 s src dst amt = some s1) : s1.acl = s.acl := by
  rw [send2_frame h]
@[simp] theorem acl_rewardFromFees2 (s : State) : (rewardFromFees2 s).acl = s.acl := by
  rw [rewardFromFees2_frame]
@[simp] theorem daoOwner_send2_getD (s : State) (src dst : Addr) (amt : Int) : ((send2 s src dst amt).getD s).daoOwner = s.daoOwner := by
  rw [send2_getD_frame]
theorem daoOwner_send2 {s s1 : State} {src dst : Addr} {amt : Int} (h : send2 s src dst amt = some s1) : s1.daoOwner = s.daoOwner := by
  rw [send2_frame h]
@[simp] theorem daoOwner_rewardFromFees2 (s : State) : (rewardFromFees2 s).daoOwner = s.daoOwner := by
  rw [rewardFromFees2_frame]
@[simp] theorem pool_send2_getD (s : State) (src dst : Addr) (amt : Int) : ((send2 s src dst amt).getD s).pool = s.pool := by
  rw [send2_getD_frame]
theorem pool_send2 {s s1 : State} {src dst : Addr} {amt : Int} (h : send2 s src dst amt = some s1) : s1.pool = s.pool := by
  rw [send2_frame h]
@[simp] theorem pool_rewardFromFees2 (s : State) : (rewardFromFees2 s).pool = s.pool := by
  rw [rewardFromFees2_frame]
@[simp] theorem feeAcc_send2_getD (s : State) (src dst : Addr) (amt : Int) : ((send2 s src dst amt).getD s).feeAcc = s.feeAcc := by
  rw [send2_getD_frame]
theorem feeAcc_send2 {s s1 : State} {src dst : Addr} {amt : Int} (h : send2 s src dst amt = some s1) : s1.feeAcc = s.feeAcc := by
  rw [send2_frame h]
@[simp] theorem feeAcc_rewardFromFees2 (s : State) : (rewardFromFees2 s).feeAcc = s.feeAcc := by
  rw [rewardFromFees2_frame]
@[simp] theorem posAcc_send2_getD (s : State) (src dst : Addr) (amt : Int) : ((send2 s src dst amt).getD s).posAcc = s.posAcc := by
  rw [send2_getD_frame]
theorem posAcc_send2 {s s1 : State} {src dst : Addr} {amt : Int} (h : send2 s src dst amt = some s1) : s1.posAcc = s.posAcc := by
  rw [send2_frame h]
@[simp] theorem posAcc_rewardFromFees2 (s : State) : (rewardFromFees2 s).posAcc = s.posAcc := by
  rw [rewardFromFees2_frame]
@[simp] theorem daoAcc_send2_getD (s : State) (src dst : Addr) (amt : Int) : ((send2 s src dst amt).getD s).daoAcc = s.daoAcc := by
  rw [send2_getD_frame]
theorem daoAcc_send2 {s s1 : State} {src dst : Addr} {amt : Int} (h : send2 s src dst amt = some s1) : s1.daoAcc = s.daoAcc := by
  rw [send2_frame h]
@[simp] theorem daoAcc_rewardFromFees2 (s : State) : (rewardFromFees2 s).daoAcc = s.daoAcc := by
  rw [rewardFromFees2_frame]
@[simp] theorem keys_send2_getD (s : State) (src dst : Addr) (amt : Int) : ((send2 s src dst amt).getD s).keys = s.keys := by
  rw [send2_getD_frame]
theorem keys_send2 {s s1 : State} {src dst : Addr} {amt : Int} (h : send2 s src dst amt = some s1) : s1.keys = s.keys := by
  rw [send2_frame h]
@[simp] theorem keys_rewardFromFees2 (s : State) : (rewardFromFees2 s).keys = s.keys := by
  rw [rewardFromFees2_frame]
@[simp] theorem nStored_send2_getD (s : State) (src dst : Addr) (amt : Int) : ((send2 s src dst amt).getD s).nStored = s.nStored := by
  rw [send2_getD_frame]
theorem nStored_send2 {s s1 : State} {src dst : Addr} {amt : Int} (h : send2 s src dst amt = some s1) : s1.nStored = s.nStored := by
  rw [send2_frame h]
@[simp] theorem nStored_rewardFromFees2 (s : State) : (rewardFromFees2 s).nStored = s.nStored := by
  rw [rewardFromFees2_frame]
@[simp] theorem height_send2_getD (s : State) (src dst : Addr) (amt : Int) : ((send2 s src dst amt).getD s).height = s.height := by
  rw [send2_getD_frame]
theorem height_send2 {s s1 : State} {src dst : Addr} {amt : Int} (h : send2 s src dst amt = some s1) : s1.height = s.height := by
  rw [send2_frame h]
@[simp] theorem height_rewardFromFees2 (s : State) : (rewardFromFees2 s).height = s.height := by
  rw [rewardFromFees2_frame]
@[simp] theorem time_send2_getD (s : State) (src dst : Addr) (amt : Int) : ((send2 s src dst amt).getD s).time = s.time := by
  rw [send2_getD_frame]
theorem time_send2 {s s1 : State} {src dst : Addr} {amt : Int} (h : send2 s src dst amt = some s1) : s1.time = s.time := by
  rw [send2_frame h]
@[simp] theorem time_rewardFromFees2 (s : State) : (rewardFromFees2 s).time = s.time := by
  rw [rewardFromFees2_frame]
@[simp] theorem cHeight_send2_getD (s : State) (src dst : Addr) (amt : Int) : ((send2 s src dst amt).getD s).cHeight = s.cHeight := by
  rw [send2_getD_frame]
theorem cHeight_send2 {s s1 : State} {src dst : Addr} {amt : Int} (h : send2 s src dst amt = some s1) : s1.cHeight = s.cHeight := by
  rw [send2_frame h]
@[simp] theorem cHeight_rewardFromFees2 (s : State) : (rewardFromFees2 s).cHeight = s.cHeight := by
  rw [rewardFromFees2_frame]
@[simp] theorem cTime_send2_getD (s : State) (src dst : Addr) (amt : Int) : ((send2 s src dst amt).getD s).cTime = s.cTime := by
  rw [send2_getD_frame]
theorem cTime_send2 {s s1 : State} {src dst : Addr} {amt : Int} (h : send2 s src dst amt = some s1) : s1.cTime = s.cTime := by
  rw [send2_frame h]
@[simp] theorem cTime_rewardFromFees2 (s : State) : (rewardFromFees2 s).cTime = s.cTime := by
  rw [rewardFromFees2_frame]
@[simp] theorem index_send2_getD (s : State) (src dst : Addr) (amt : Int) : ((send2 s src dst amt).getD s).index = s.index := by
  rw [send2_getD_frame]
theorem index_send2 {s s1 : State} {src dst : Addr} {amt : Int} (h : send2 s src dst amt = some s1) : s1.index = s.index := by
  rw [send2_frame h]
@[simp] theorem index_rewardFromFees2 (s : State) : (rewardFromFees2 s).index = s.index := by
  rw [rewardFromFees2_frame]
@[simp] theorem blockTxs_send2_getD (s : State) (src dst : Addr) (amt : Int) : ((send2 s src dst amt).getD s).blockTxs = s.blockTxs := by
  rw [send2_getD_frame]
theorem blockTxs_send2 {s s1 : State} {src dst : Addr} {amt : Int} (h : send2 s src dst amt = some s1) : s1.blockTxs = s.blockTxs := by
  rw [send2_frame h]
@[simp] theorem blockTxs_rewardFromFees2 (s : State) : (rewardFromFees2 s).blockTxs = s.blockTxs := by
  rw [rewardFromFees2_frame]
@[simp] theorem supply2_send2_getD (s : State) (src dst : Addr) (amt : Int) : ((send2 s src dst amt).getD s).supply2 = s.supply2 := by
  rw [send2_getD_frame]
theorem supply2_send2 {s s1 : State} {src dst : Addr} {amt : Int} (h : send2 s src dst amt = some s1) : s1.supply2 = s.supply2 := by
  rw [send2_frame h]
@[simp] theorem supply2_rewardFromFees2 (s : State) : (rewardFromFees2 s).supply2 = s.supply2 := by
  rw [rewardFromFees2_frame]
@[simp] theorem upgrade_send2_getD (s : State) (src dst : Addr) (amt : Int) : ((send2 s src dst amt).getD s).upgrade = s.upgrade := by
  rw [send2_getD_frame]
theorem upgrade_send2 {s s1 : State} {src dst : Addr} {amt : Int} (h : send2 s src dst amt = some s1) : s1.upgrade = s.upgrade := by
  rw [send2_frame h]
@[simp] theorem upgrade_rewardFromFees2 (s : State) : (rewardFromFees2 s).upgrade = s.upgrade := by
  rw [rewardFromFees2_frame]

@[simp] theorem balOf_send2_getD (s : State) (src dst : Addr) (amt : Int) (q : Addr) :
    balOf ((send2 s src dst amt).getD s) q = balOf s q := by simp [balOf]
@[simp] theorem balOf_rewardFromFees2 (s : State) (q : Addr) : balOf (rewardFromFees2 s) q = balOf s q := by
  simp [balOf]


end Posmint.Chain.F2
