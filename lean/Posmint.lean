import Posmint.Generated
import Posmint.Model.Arith
