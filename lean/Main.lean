import Posmint.Driver.Arith
import Posmint.Driver.KV
import Posmint.Driver.Chain
import Posmint.Driver.RM
import Posmint.Driver.Codec
import Posmint.Driver.Keys
/-!
`posmodel <family>`: reads one operation per line on stdin, prints one observation per line.
Core-only (no Mathlib) so it links as a native executable.
-/
open Posmint.Driver

partial def loopStateless (h : IO.FS.Stream) (out : IO.FS.Stream) (f : List String → String) : IO Unit := do
  let line ← h.getLine
  if line.isEmpty then return ()
  out.putStrLn (f (words (line.trimAscii.toString)))
  loopStateless h out f

partial def loopState {σ : Type} (h : IO.FS.Stream) (out : IO.FS.Stream) (f : σ → List String → σ × String) (s : σ) : IO Unit := do
  let line ← h.getLine
  if line.isEmpty then return ()
  let (s', o) := f s (words (line.trimAscii.toString))
  out.putStrLn o
  loopState h out f s'

def main (args : List String) : IO UInt32 := do
  let stdin ← IO.getStdin
  let stdout ← IO.getStdout
  match args with
  | ["arith"] => loopStateless stdin stdout stepArith; return 0
  | ["chain"] => loopState stdin stdout stepChain { st := none }; return 0
  | ["rm"] => loopState stdin stdout stepRM rmEmpty; return 0
  | ["codec"] => loopState stdin stdout stepCodec { sendPrefix := [] }; return 0
  | ["keys"] => loopState stdin stdout stepKeys { kb := [], armors := [] }; return 0
  | ["kv"] => loopState stdin stdout stepKV (newProg 0); return 0
  | _ => IO.eprintln "usage: posmodel <arith|kv>"; return 2
