import Posmint.Driver.Arith
/-!
`posmodel <family>`: reads one operation per line on stdin, prints one observation per line.
Core-only (no Mathlib) so it links as a native executable.
-/
open Posmint.Driver

partial def loopStateless (h : IO.FS.Stream) (out : IO.FS.Stream) (f : List String → String) : IO Unit := do
  let line ← h.getLine
  if line.isEmpty then return ()
  out.putStrLn (f (words (line.trimAscii.toString)))
  loopStateless h out f

def main (args : List String) : IO UInt32 := do
  let stdin ← IO.getStdin
  let stdout ← IO.getStdout
  match args with
  | ["arith"] => loopStateless stdin stdout stepArith; return 0
  | _ => IO.eprintln "usage: posmodel <arith>"; return 2
